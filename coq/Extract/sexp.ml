(* minimal s-expressions: unsigned integers, bare symbols, lists *)
type t = N of int | Sym of string | L of t list

let tokenize (s : string) : string list =
  let out = ref [] and cur = Buffer.create 16 in
  let flush () =
    if Buffer.length cur > 0 then begin out := Buffer.contents cur :: !out; Buffer.clear cur end in
  String.iter (fun c ->
      match c with
      | '(' | ')' -> flush (); out := String.make 1 c :: !out
      | ' ' | '\t' | '\n' | '\r' -> flush ()
      | c -> Buffer.add_char cur c) s;
  flush ();
  List.rev !out

let parse_many (s : string) : t list =
  let toks = ref (tokenize s) in
  let rec one () =
    match !toks with
    | [] -> failwith "unexpected end"
    | "(" :: r -> toks := r; L (items [])
    | ")" :: _ -> failwith "unexpected )"
    | a :: r ->
        toks := r;
        (match int_of_string_opt a with Some n when n >= 0 -> N n | _ -> Sym a)
  and items acc =
    match !toks with
    | [] -> failwith "unclosed ("
    | ")" :: r -> toks := r; List.rev acc
    | _ -> let x = one () in items (x :: acc) in
  let rec all acc = match !toks with [] -> List.rev acc | _ -> let x = one () in all (x :: acc) in
  all []

let rec show (x : t) : string =
  match x with
  | N n -> string_of_int n
  | Sym s -> s
  | L l -> "(" ^ String.concat " " (List.map show l) ^ ")"

let list = function L l -> l | x -> failwith ("expected list: " ^ show x)
let num = function N n -> n | x -> failwith ("expected number: " ^ show x)
let sym = function Sym s -> s | x -> failwith ("expected symbol: " ^ show x)
