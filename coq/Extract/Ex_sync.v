(* Extraction of Model/Sync.v (C10).  ExtrOcamlBasic only; no Extract Constant. *)
From Coq Require Extraction ExtrOcamlBasic.
From Verif Require Import Base.Str Model.Sync.
Extraction Language OCaml.
Extraction "Extract/m_sync.ml"
  Sync.init Sync.exec Sync.run Sync.run_trace Sync.push_outcome Sync.canon
  Sync.remote_map Sync.local_map Sync.tracking_map Sync.Known_C10 Sync.writes
  Sync.FetchNotes Sync.PushNotes.
