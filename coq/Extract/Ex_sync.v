(* Extraction of Model/Sync.v (C10).  ExtrOcamlBasic only; no Extract Constant. *)
From Coq Require Extraction ExtrOcamlBasic.
From Verif Require Import Base.Str Gen.GenSync Model.Sync.
Extraction Language OCaml.
Extraction "Extract/m_sync.ml"
  Sync.init Sync.exec Sync.run Sync.run_trace Sync.push_outcome Sync.canon
  Sync.remote_map Sync.local_map Sync.tracking_map Sync.Known_C10 Sync.writes
  Sync.FetchNotes Sync.PushNotes Sync.push_part0 Sync.push_part1 Sync.push_part2 Sync.push_part3
  Sync.fetch_part0 Sync.fetch_part1 Sync.fetch_part2 Sync.no_commit_in_copy_window Sync.guard Sync.pending_of
  Sync.PullNotes Sync.attempt Sync.retries Sync.flag_of Sync.skip GenSync.push_attempts.
