(* Extraction of Model/Split.v (C04).  ExtrOcamlBasic only; no Extract Constant. *)
From Coq Require Extraction ExtrOcamlBasic.
From Verif Require Import Base.Str Base.RangeSet Model.Split.
Extraction Language OCaml.
Extraction "Extract/m_split.ml"
  RangeSet.compress_lines RangeSet.expand RangeSet.contains RangeSet.isort RangeSet.dedup
  Split.split_file Split.log_of_attrs Split.committed Split.unstaged Split.hunks_of
  Split.wf3 Split.Known_C04 Split.no_hidden Split.to_commit_line
  Split.attrs_wfb Split.spec_verdict Split.run_spec.
