(* Extraction of the executable models to OCaml.  ExtrOcamlBasic only: bool, option,
   list, prod, unit, sumbool map to OCaml's own; N / positive / Z stay the extracted
   inductives.  No Extract Constant anywhere. *)
From Coq Require Extraction ExtrOcamlBasic.
From Verif Require Import Base.Str Gen.GenSerial Model.Serial.
Extraction Language OCaml.
Extraction "Extract/m_serial.ml"
  Str.is_ws Str.lines Str.trim_end Str.print_N Str.parse_u32
  Serial.serialize Serial.deserialize Serial.wf_log Serial.normalize Serial.path_ok.
