(* d_difffmt.ml — driver for Model/DiffFmt.v (C01, diff text protocol).
   Built as: sexp.ml m_difffmt.ml (open M_difffmt + prelude.ml + this file) *)
let show_nums l = L (List.map (fun c -> N (int_of_n c)) l)
let show_map m = L (List.map (fun (k, v) -> L [show_str k; show_nums v]) m)
let one body = match parse_many body with [x] -> x | _ -> failwith "expected one s-expression"

(* in: TEXT (code points)   out: (ok MAP) | panic *)
let c01_parse body =
  match parse_added (str_of (one body)) with
  | Ok m -> show (L [Sym "ok"; show_map m])
  | Panic -> "panic"

(* in: TEXT   out: (ok MAP MAP) | panic *)
let c01_parse_ins body =
  match parse_added_with_insertions (str_of (one body)) with
  | Ok (a, i) -> show (L [Sym "ok"; show_map a; show_map i])
  | Panic -> "panic"

(* in: BYTES   out: (ok MAP MAP) | panic      -- dec first *)
let c01_parse_bytes body =
  match parse_added_with_insertions (dec (str_of (one body))) with
  | Ok (a, i) -> show (L [Sym "ok"; show_map a; show_map i])
  | Panic -> "panic"

(* in: LINE   out: none | (some (N...) 0|1) | panic *)
let c01_hunk body =
  match parse_hunk_header (str_of (one body)) with
  | Ok None -> "none"
  | Ok (Some (ls, p)) -> show (L [Sym "some"; show_nums ls; N (if p then 1 else 0)])
  | Panic -> "panic"

let c01_normalize body = show (L [Sym "ok"; show_str (normalize_diff_path_token (str_of (one body)))])

let c01_unescape body = show (L [Sym "ok"; show_str (unescape_git_path (str_of (one body)))])

let c01_lossy body = show (L [Sym "ok"; show_str (dec (str_of (one body)))])

(* in: QP PATH(bytes)   out: (q BYTES) (ok 0|1) (valid 0|1) *)
let c01_quote body =
  match parse_many body with
  | [qp; p] ->
      let p = str_of p in
      Printf.sprintf "%s (ok %s) (valid %s)"
        (show (L [Sym "q"; show_str (quote_c_style (num qp = 1) p)]))
        (bool_s (path_ok p)) (bool_s (utf8_valid p))
  | _ -> failwith "c01-quote: bad case"

(* document: ((PATH new del MODE OLDOID NEWOID ((os (OLD...) oldnonl ns (NEW...) newnonl SEC) ...)) ...) *)
let hunk_of x = match list x with
  | [os; old; onl; ns; nw; nnl; sec] ->
      { h_os = n_of_int (num os); h_old = List.map str_of (list old); h_old_nonl = (num onl = 1);
        h_ns = n_of_int (num ns); h_new = List.map str_of (list nw); h_new_nonl = (num nnl = 1);
        h_sec = str_of sec }
  | _ -> failwith "hunk"
let file_of x = match list x with
  | [p; nw; dl; mode; oo; on; hs] ->
      { fd_path = str_of p; fd_new = (num nw = 1); fd_del = (num dl = 1); fd_mode = str_of mode;
        fd_oid_old = str_of oo; fd_oid_new = str_of on; fd_hunks = List.map hunk_of (list hs) }
  | _ -> failwith "file"

(* in: QP DOC   out: (text BYTES) (wf b) (added MAP) (ins MAP) *)
let c01_render body =
  match parse_many body with
  | [qp; d] ->
      let d = List.map file_of (list d) in
      Printf.sprintf "%s (wf %s) %s %s"
        (show (L [Sym "text"; show_str (render (num qp = 1) d)]))
        (bool_s (wf_doc d))
        (show (L [Sym "added"; show_map (added_lines d)]))
        (show (L [Sym "ins"; show_map (insertion_lines d)]))
  | _ -> failwith "c01-render: bad case"

let () = run_driver
  ["c01-parse", c01_parse; "c01-parse-ins", c01_parse_ins; "c01-parse-bytes", c01_parse_bytes;
   "c01-hunk", c01_hunk; "c01-normalize", c01_normalize; "c01-unescape", c01_unescape;
   "c01-lossy", c01_lossy; "c01-quote", c01_quote; "c01-render", c01_render] []
