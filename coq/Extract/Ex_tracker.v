(* Extraction of Model/Tracker.v (C16).  ExtrOcamlBasic only; no Extract Constant. *)
From Coq Require Extraction ExtrOcamlBasic.
From Verif Require Import Base.Str Model.Tracker.
Extraction Language OCaml.
Extraction "Extract/m_tracker.ml"
  Tracker.decode Tracker.valid_utf8 Tracker.is_cb Tracker.sort2 Tracker.merge Tracker.transform
  Tracker.update Tracker.wf_diff Tracker.moves_ok Tracker.moves_fit Tracker.moves_same_len
  Tracker.fill Tracker.to_chars Tracker.to_lines Tracker.ai_lines Tracker.wf_lattrs
  Tracker.line_count Tracker.attr_ordered.
