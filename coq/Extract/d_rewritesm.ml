(* d_rewritesm.ml — driver for Model/RewriteSM.v (C02 control state machine) *)
let kind_of = function Sym "rebase" -> Rebase | Sym "cherry" -> CherryPick | _ -> failwith "kind"
let show_kind = function Rebase -> Sym "rebase" | CherryPick -> Sym "cherry"
let ev_of x = match x with
  | Sym "other" -> EOther
  | L [Sym "start"; k; o] -> EStart (kind_of k, n_of_int (num o))
  | L [Sym "complete"; k; o] -> EComplete (kind_of k, n_of_int (num o))
  | L [Sym "abort"; k; o] -> EAbort (kind_of k, n_of_int (num o))
  | _ -> failwith "ev"
let show_ev = function
  | EOther -> Sym "other"
  | EStart (k, o) -> L [Sym "start"; show_kind k; N (int_of_n o)]
  | EComplete (k, o) -> L [Sym "complete"; show_kind k; N (int_of_n o)]
  | EAbort (k, o) -> L [Sym "abort"; show_kind k; N (int_of_n o)]
let b x = num x = 1
(* in: (EV...) (KIND HEAD HEAD_AFTER HAS_COMMITS BEFORE AFTER OK DRY [HEAD_KNOWN])   out: (EV...) EFFECT *)
let c02_step body = match parse_many body with
  | [j; L (k :: h :: ha :: hc :: bf :: af :: ok :: dry :: rest)] ->
      let hk = (match rest with [x] -> b x | _ -> true) in
      let i = { i_kind = kind_of k; i_head = n_of_int (num h); i_head_after = n_of_int (num ha);
                i_has_commits = b hc; i_before = b bf; i_after = b af;
                i_exit_ok = b ok; i_dry_run = b dry; i_head_known = hk } in
      let (j', e) = step (List.map ev_of (list j)) i in
      show (L (List.map show_ev j')) ^ " " ^
      (match e with NoEffect -> "noeffect" | Rewrite (k, o) -> show (L [Sym "rewrite"; show_kind k; N (int_of_n o)]))
  | _ -> failwith "c02-step"
let () = run_driver ["c02-step", c02_step] []
