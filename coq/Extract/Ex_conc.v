From Coq Require Extraction ExtrOcamlBasic.
From Verif Require Import Base.Str Gen.GenConc Model.Conc.
Extraction Language OCaml.
Extraction "Extract/m_conc.ml"
  Conc.run Conc.trace_of Conc.stale_free Conc.empty_store Conc.upd
  Conc.append_checkpoint_prog Conc.append_event_prog Conc.notes_add_prog
  Conc.checkpoint_run Conc.checkpoint_run_full Conc.commit_prog Conc.rewrite_prog Conc.rmw
  Conc.as_cp Conc.as_ev Conc.as_notes Conc.as_init Conc.as_blob Conc.writes_of Conc.log Conc.view Conc.lost
  Conc.ai_dir Conc.storage_file Conc.interleavings
  GenConc.append_checkpoint_locked GenConc.append_event_locked GenConc.notes_add_locked
  GenConc.post_commit_refresh_locked GenConc.rewrite_errors_swallowed GenConc.max_events GenConc.blob_rewritten_in_place GenConc.post_commit_resets_new_log.
