(* Extraction of the C20 model (ExtrOcamlBasic only; no Extract Constant). *)
From Coq Require Extraction ExtrOcamlBasic.
From Verif Require Import Base.Str Gen.GenIngest Model.Ingest.
Extraction Language OCaml.
Extraction "Extract/m_ingest.ml"
  Ingest.decode_agent_v1 Ingest.decode_claude Ingest.decode_codex Ingest.decode_ai_tab
  Ingest.handle_checkpoint Ingest.records Ingest.mk_env Ingest.parse_raw Ingest.innermost
  Ingest.status_of Ingest.has_scope_all Ingest.lexnorm Ingest.resolve Ingest.absolutize Ingest.in_wd.
