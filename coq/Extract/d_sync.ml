(* d_sync.ml — driver for Model/Sync.v (C10 notes sync)
   mode c10-run:  N (TOKEN...)
     primitive tokens   (commit C K V) (ft C) (tl C) (ml C) (pr C)         first-round steps
     user-level tokens  (push C) (fetch C)            the whole block, in the code's order, all rounds
                        (pull C failed|unchanged|moved)   git pull that left by the given exit of its post hook
       parts of a push cut at the rendezvous points; J = number of the round (1, 2, ...):
                        (p0 C) (p1 C) (p01 C)   round 1 up to the point after its fetch
                        (pm C J)                test + merge of round J
                        (pr C J)                push of round J, then round J+1 up to the point after its fetch
                        (pe C J)                push of round J, then all remaining rounds
                        (f01 C) (f2 C)          parts of a fetch
     out: one group per TOKEN  (OUTCOME REMOTE (LOCAL0 LOCAL1 ...))  then
          (fuel B) (known B) (window B) (attempts R)
     OUTCOME is the outcome of the last notes push executed within the token, - if none;
     a map is ((K V)...) sorted by key; window = 1 when some commit fell into the copy window *)
let rec nat_of_int (n : int) : nat = if n <= 0 then O else S (nat_of_int (n - 1))
let rec int_of_nat (n : nat) : int = match n with O -> 0 | S m -> 1 + int_of_nat m

let rounds = int_of_nat push_attempts

let steps_of x =
  let c_of c = nat_of_int (num c) in
  match list x with
  | [Sym "commit"; c; k; v] -> [Commit (c_of c, n_of_int (num k), n_of_int (num v))]
  | [Sym "ft"; c] -> [FetchTracking (false, c_of c)]
  | [Sym "tl"; c] -> [TestLocal (false, c_of c)]
  | [Sym "ml"; c] -> [MergeLocal (false, c_of c)]
  | [Sym "pr"; c] -> [PushRef (false, c_of c)]
  | [Sym "push"; c] -> pushNotes (c_of c)
  | [Sym "fetch"; c] -> fetchNotes (c_of c)
  | [Sym "pull"; c; Sym "failed"] -> pullNotes PullFailed (c_of c)
  | [Sym "pull"; c; Sym "unchanged"] -> pullNotes PullUnchanged (c_of c)
  | [Sym "pull"; c; Sym "moved"] -> pullNotes PullMoved (c_of c)
  | [Sym "p0"; c] -> push_part0 false (c_of c)
  | [Sym "p1"; c] -> push_part1 false (c_of c)
  | [Sym "p01"; c] -> push_part0 false (c_of c) @ push_part1 false (c_of c)
  | [Sym "pm"; c; j] -> let j = num j in if j > rounds then [] else push_part2 (j > 1) (c_of c)
  | [Sym "pr"; c; j] ->
      let j = num j in
      if j > rounds then []
      else push_part3 (j > 1) (c_of c)
           @ (if j < rounds then push_part0 true (c_of c) @ push_part1 true (c_of c) else [])
  | [Sym "pe"; c; j] ->
      let j = num j in
      if j > rounds then [] else push_part3 (j > 1) (c_of c) @ retries (nat_of_int (rounds - j)) (c_of c)
  | [Sym "f01"; c] -> fetch_part0 (c_of c) @ fetch_part1 (c_of c)
  | [Sym "f2"; c] -> fetch_part2 (c_of c)
  | _ -> failwith "token"

let show_map (m : (n * n) list) =
  let m = List.map (fun (k, v) -> (int_of_n k, int_of_n v)) (canon m) in
  let m = List.sort compare m in
  L (List.map (fun (k, v) -> L [N k; N v]) m)

let show_pres = function
  | PNoClone -> "noclone" | PNoLocal -> "nolocal" | PCreated -> "created"
  | PUpdated -> "updated" | PRejected -> "rejected" | PFuel -> "fuel"

let rec range a b = if a >= b then [] else a :: range (a + 1) b

let c10_run body = match parse_many body with
  | [n; toks] ->
      let n = num n in
      let toks = List.map steps_of (list toks) in
      let s = ref (init (nat_of_int n)) in
      let out = ref [] in
      List.iter (fun steps ->
          let o = ref (Sym "-") in
          List.iter (fun x ->
              (match x with
               | PushRef (r, c) -> if not (skip !s r c) then o := Sym (show_pres (push_outcome !s c))
               | _ -> ());
              s := exec !s x) steps;
          let locals = List.map (fun c -> show_map (local_map !s (nat_of_int c))) (range 0 n) in
          out := L [!o; show_map (remote_map !s); L locals] :: !out) toks;
      let groups = List.rev !out in
      let all = List.concat toks in
      String.concat " " (List.map show groups)
      ^ Printf.sprintf " (fuel %s) (known %s) (window %s) (attempts %d)" (bool_s !s.fuel_out) (bool_s (known_C10 all))
          (bool_s (not (no_commit_in_copy_window (nat_of_int n) all))) rounds
  | _ -> failwith "c10-run"

let () = run_driver ["c10-run", c10_run] []
