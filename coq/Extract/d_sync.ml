(* d_sync.ml — driver for Model/Sync.v (C10 notes sync)
   mode c10-run:  N (STEP...)      STEP = (commit C K V) | (ft C) | (ml C) | (pr C)
     out: one group per step  (OUTCOME REMOTE (LOCAL0 LOCAL1 ...))  then  (fuel B) (known B)
     where OUTCOME is - for steps other than pr, a map is ((K V)...) sorted by key *)
let rec nat_of_int (n : int) : nat = if n <= 0 then O else S (nat_of_int (n - 1))
let rec int_of_nat (n : nat) : int = match n with O -> 0 | S m -> 1 + int_of_nat m

let step_of x = match list x with
  | [Sym "commit"; c; k; v] -> Commit (nat_of_int (num c), n_of_int (num k), n_of_int (num v))
  | [Sym "ft"; c] -> FetchTracking (nat_of_int (num c))
  | [Sym "ml"; c] -> MergeLocal (nat_of_int (num c))
  | [Sym "pr"; c] -> PushRef (nat_of_int (num c))
  | _ -> failwith "step"

let show_map (m : (n * n) list) =
  let m = List.map (fun (k, v) -> (int_of_n k, int_of_n v)) (canon m) in
  let m = List.sort compare m in
  L (List.map (fun (k, v) -> L [N k; N v]) m)

let show_pres = function
  | PNoClone -> "noclone" | PNoLocal -> "nolocal" | PCreated -> "created"
  | PUpdated -> "updated" | PRejected -> "rejected" | PFuel -> "fuel"

let rec range a b = if a >= b then [] else a :: range (a + 1) b

let c10_run body = match parse_many body with
  | [n; steps] ->
      let n = num n in
      let steps = List.map step_of (list steps) in
      let s = ref (init (nat_of_int n)) in
      let out = ref [] in
      List.iter (fun x ->
          let o = (match x with PushRef c -> Sym (show_pres (push_outcome !s c)) | _ -> Sym "-") in
          s := exec !s x;
          let locals = List.map (fun c -> show_map (local_map !s (nat_of_int c))) (range 0 n) in
          out := L [o; show_map (remote_map !s); L locals] :: !out) steps;
      let groups = List.rev !out in
      String.concat " " (List.map show groups)
      ^ Printf.sprintf " (fuel %s) (known %s)" (bool_s !s.fuel_out) (bool_s (known_C10 steps))
  | _ -> failwith "c10-run"

let () = run_driver ["c10-run", c10_run] []
