(* d_sync.ml — driver for Model/Sync.v (C10 notes sync)
   mode c10-run:  N (TOKEN...)
     primitive tokens   (commit C K V) (ft C) (tl C) (ml C) (pr C)
     user-level tokens  (push C) (fetch C)            the whole block, in the code's order
                        (p0 C) (p1 C) (p01 C) (p2 C) (p3 C)   parts of a push cut at the rendezvous points
                        (f01 C) (f2 C)                        parts of a fetch
     out: one group per TOKEN  (OUTCOME REMOTE (LOCAL0 LOCAL1 ...))  then  (fuel B) (known B) (window B)
     OUTCOME is - unless the token contains a pr step; a map is ((K V)...) sorted by key;
     window = 1 when some commit fell into the copy window (no_commit_in_copy_window = false) *)
let rec nat_of_int (n : int) : nat = if n <= 0 then O else S (nat_of_int (n - 1))
let rec int_of_nat (n : nat) : int = match n with O -> 0 | S m -> 1 + int_of_nat m

let steps_of x = match list x with
  | [Sym "commit"; c; k; v] -> [Commit (nat_of_int (num c), n_of_int (num k), n_of_int (num v))]
  | [Sym "ft"; c] -> [FetchTracking (nat_of_int (num c))]
  | [Sym "tl"; c] -> [TestLocal (nat_of_int (num c))]
  | [Sym "ml"; c] -> [MergeLocal (nat_of_int (num c))]
  | [Sym "pr"; c] -> [PushRef (nat_of_int (num c))]
  | [Sym "push"; c] -> pushNotes (nat_of_int (num c))
  | [Sym "fetch"; c] -> fetchNotes (nat_of_int (num c))
  | [Sym "p0"; c] -> push_part0 (nat_of_int (num c))
  | [Sym "p1"; c] -> push_part1 (nat_of_int (num c))
  | [Sym "p01"; c] -> let c = nat_of_int (num c) in push_part0 c @ push_part1 c
  | [Sym "p2"; c] -> push_part2 (nat_of_int (num c))
  | [Sym "p3"; c] -> push_part3 (nat_of_int (num c))
  | [Sym "f01"; c] -> let c = nat_of_int (num c) in fetch_part0 c @ fetch_part1 c
  | [Sym "f2"; c] -> fetch_part2 (nat_of_int (num c))
  | _ -> failwith "token"

let show_map (m : (n * n) list) =
  let m = List.map (fun (k, v) -> (int_of_n k, int_of_n v)) (canon m) in
  let m = List.sort compare m in
  L (List.map (fun (k, v) -> L [N k; N v]) m)

let show_pres = function
  | PNoClone -> "noclone" | PNoLocal -> "nolocal" | PCreated -> "created"
  | PUpdated -> "updated" | PRejected -> "rejected" | PFuel -> "fuel"

let rec range a b = if a >= b then [] else a :: range (a + 1) b

let c10_run body = match parse_many body with
  | [n; toks] ->
      let n = num n in
      let toks = List.map steps_of (list toks) in
      let s = ref (init (nat_of_int n)) in
      let out = ref [] in
      List.iter (fun steps ->
          let o = ref (Sym "-") in
          List.iter (fun x ->
              (match x with PushRef c -> o := Sym (show_pres (push_outcome !s c)) | _ -> ());
              s := exec !s x) steps;
          let locals = List.map (fun c -> show_map (local_map !s (nat_of_int c))) (range 0 n) in
          out := L [!o; show_map (remote_map !s); L locals] :: !out) toks;
      let groups = List.rev !out in
      let all = List.concat toks in
      String.concat " " (List.map show groups)
      ^ Printf.sprintf " (fuel %s) (known %s) (window %s)" (bool_s !s.fuel_out) (bool_s (known_C10 all))
          (bool_s (not (no_commit_in_copy_window (nat_of_int n) all)))
  | _ -> failwith "c10-run"

let () = run_driver ["c10-run", c10_run] []
