(* Extraction of Model/Redact.v and Model/Taint.v (C08).  ExtrOcamlBasic only; no Extract Constant. *)
From Coq Require Extraction ExtrOcamlBasic.
From Verif Require Import Base.Str Gen.GenSecrets Gen.GenNoteWriters Model.Redact Model.Taint.
Extraction Language OCaml.
Extraction "Extract/m_redact.ml"
  Redact.is_secret_char Redact.extract_tokens Redact.redact_secret Redact.redact_text
  Redact.redact_prompts Redact.strip_prompts Redact.segments Redact.cont_ok Redact.touched Redact.texts
  Redact.pieces
  GenNoteWriters.note_writers
  Taint.effective_mode Taint.cannot_refetch Taint.filter_log Taint.write Taint.run Taint.inv_cleanb
  Taint.safe_writer Taint.source_is_notes Taint.w_filtered Taint.w_redacts_in_notes Taint.inventory_ok
  Taint.inventory_notes_ok Taint.unsafe_writers Taint.cas_clears_all Taint.cas_takes_with Taint.should_exclude.
