From Coq Require Extraction ExtrOcamlBasic.
From Verif Require Import Gen.GenRewrite Model.RewriteSM.
Extraction Language OCaml.
Extraction "Extract/m_rewritesm.ml" RewriteSM.step RewriteSM.run RewriteSM.has_active_start RewriteSM.find_start.
