(* Extraction of Model/Remap.v (C15).  ExtrOcamlBasic only; no Extract Constant. *)
From Coq Require Extraction ExtrOcamlBasic.
From Verif Require Import Base.Str Gen.GenRemap Model.Remap.
Extraction Language OCaml.
Extraction "Extract/m_remap.ml"
  Remap.matches Remap.print_out Remap.parse_out Remap.out_ok Remap.limit Remap.touches
  Remap.try_remap Remap.try_remap_scoped Remap.remap_in Remap.remap_note Remap.replace_base Remap.wf_note
  Remap.has_base_field Remap.split_note Remap.meta_split GenRemap.remap_below_divider
  Remap.commit_meta Remap.commit_meta_gen Remap.header_meta GenRemap.meta_early_exit.
