(* Extraction of Model/Remap.v (C15).  ExtrOcamlBasic only; no Extract Constant. *)
From Coq Require Extraction ExtrOcamlBasic.
From Verif Require Import Base.Str Model.Remap.
Extraction Language OCaml.
Extraction "Extract/m_remap.ml"
  Remap.matches Remap.print_out Remap.parse_out Remap.out_ok Remap.limit Remap.touches
  Remap.try_remap Remap.remap_note Remap.replace_base Remap.wf_note Remap.split_note.
