(* d_conc.ml — driver for Model/Conc.v (C11)
   modes:
     c11-run    PROGS SCHED [INIT]  -> (known K) (steps N) OBJ-CONTENTS... (lost ...)
     c11-aidir  COMMON GITDIR       -> path
     c11-gen    _                   -> the facts the translator read from the source
   PROG  = (appcp W B ID ENTRIES) | (appev W E) | (notes K V) | (ckpt W B ID ENTRIES)
         | (commit W B C E N (V...)) | (rewrite W E ((K V)...)) | (raw STEP...)
   STEP  = (r OP) | (w OP) | (a OP) | (p OBJ)
   OP    = (cp W B ID ENTRIES) | (refresh W B) | (ev W E) | (note K V) | (init W B (V...))
   OBJ   = (cp W B) | (init W B) | (rw W) | notes
   ENTRIES = ((FILE HAS_CHARS)...)
   INIT  = ((OBJ CONTENT)...) with CONTENT = checkpoints ((ID ENTRIES)...) | numbers | pairs *)

let rec nat_of_int (i : int) : nat = if i <= 0 then O else S (nat_of_int (i - 1))
let rec int_of_nat (n : nat) : int = match n with O -> 0 | S m -> 1 + int_of_nat m
let nn x = n_of_int (num x)

let entries_of x = List.map (fun e -> match list e with
    | [f; c] -> (nn f, num c = 1)
    | _ -> failwith "entry") (list x)
let cpt_of id es = { cp_id = nn id; cp_entries = entries_of es }

let op_of x = match list x with
  | [Sym "cp"; w; b; id; es] -> AppendCp (nn w, nn b, cpt_of id es)
  | [Sym "refresh"; w; b] -> RefreshCp (nn w, nn b)
  | [Sym "ev"; w; e] -> AppendEv (nn w, nn e)
  | [Sym "note"; k; v] -> NotesAdd (nn k, nn v)
  | [Sym "init"; w; b; v] -> WriteInit (nn w, nn b, List.map nn (list v))
  | [Sym "btrunc"; w; b; s] -> BlobTrunc (nn w, nn b, nn s)
  | [Sym "bfill"; w; b; s; c] -> BlobFill (nn w, nn b, nn s, List.map nn (list c))
  | [Sym "bget"; w; b; s] -> BlobGet (nn w, nn b, nn s)
  | [Sym "reset"; w; b] -> ResetCp (nn w, nn b)
  | _ -> failwith "op"

let obj_of_sx x = match x with
  | Sym "notes" -> ONotes
  | _ -> (match list x with
      | [Sym "cp"; w; b] -> OCp (nn w, nn b)
      | [Sym "init"; w; b] -> OInit (nn w, nn b)
      | [Sym "rw"; w] -> ORw (nn w)
      | [Sym "blob"; w; b; s] -> OBlob (nn w, nn b, nn s)
      | _ -> failwith "obj")

let step_of x = match list x with
  | [Sym "r"; o] -> SRead (op_of o)
  | [Sym "w"; o] -> SWrite (op_of o)
  | [Sym "a"; o] -> SAtomic (op_of o)
  | [Sym "p"; o] -> SPeek (obj_of_sx o)
  | _ -> failwith "step"

let prog_of x : program = match list x with
  | [Sym "appcp"; w; b; id; es] -> append_checkpoint_prog (nn w) (nn b) (cpt_of id es)
  | [Sym "appev"; w; e] -> append_event_prog (nn w) (nn e)
  | [Sym "notes"; k; v] -> notes_add_prog (nn k) (nn v)
  | [Sym "ckpt"; w; b; id; es] -> checkpoint_run (nn w) (nn b) (cpt_of id es)
  | [Sym "ckptfull"; w; b; id; es; tracked; prev] ->
      checkpoint_run_full (nn w) (nn b) (cpt_of id es)
        (List.map (fun p -> match list p with [s; c] -> (nn s, List.map nn (list c)) | _ -> failwith "tracked") (list tracked))
        (List.map nn (list prev))
  | [Sym "commit"; w; b; c; e; n; v] -> commit_prog (nn w) (nn b) (nn c) (nn e) (nn n) (List.map nn (list v))
  | [Sym "rewrite"; w; e; ns] ->
      rewrite_prog (nn w) (nn e) (List.map (fun p -> match list p with [k; v] -> (nn k, nn v) | _ -> failwith "kv") (list ns))
  | Sym "raw" :: steps -> List.map step_of steps
  | _ -> failwith "prog"

let okey o = match o with
  | OCp (w, b) -> (0, int_of_n w, int_of_n b)
  | OInit (w, b) -> (1, int_of_n w, int_of_n b)
  | ORw w -> (2, int_of_n w, 0)
  | ONotes -> (3, 0, 0)
  | OBlob (w, b, s) -> (4, int_of_n w, 1000 * int_of_n b + int_of_n s)

let objects_of (progs : program list) (extra : obj list) : obj list =
  let os = List.concat_map (fun p -> List.concat_map (fun st -> match st with
      | SRead k | SWrite k | SAtomic k -> [obj_of k]
      | SPeek o -> [o]) p) progs @ extra in
  List.sort_uniq (fun a b -> compare (okey a) (okey b)) os

let show_cpt c = L [N (int_of_n c.cp_id);
                    L (List.map (fun (f, h) -> L [N (int_of_n f); N (if h then 1 else 0)]) c.cp_entries)]
let nums l = L (List.map (fun x -> N (int_of_n x)) l)

let obj_head o = match o with
  | OCp (w, b) -> L [Sym "cp"; N (int_of_n w); N (int_of_n b)]
  | OInit (w, b) -> L [Sym "init"; N (int_of_n w); N (int_of_n b)]
  | ORw w -> L [Sym "rw"; N (int_of_n w)]
  | ONotes -> Sym "notes"
  | OBlob (w, b, s) -> L [Sym "blob"; N (int_of_n w); N (int_of_n b); N (int_of_n s)]

let show_obj o (v : val0) = match o with
  | OCp (w, b) -> L [Sym "cp"; N (int_of_n w); N (int_of_n b); L (List.map show_cpt (as_cp v))]
  | OInit (w, b) -> L [Sym "init"; N (int_of_n w); N (int_of_n b); nums (as_init v)]
  | ORw w -> L [Sym "rw"; N (int_of_n w); nums (as_ev v)]
  | ONotes -> L [Sym "notes"; L (List.map (fun (k, n) -> L [N (int_of_n k); N (int_of_n n)]) (as_notes v))]
  | OBlob (w, b, s) -> L [Sym "blob"; N (int_of_n w); N (int_of_n b); N (int_of_n s); nums (as_blob v)]

let content_of o x : val0 = match o with
  | OCp _ -> VCp (List.map (fun c -> match list c with [id; es] -> cpt_of id es | _ -> failwith "cpt") (list x))
  | OInit _ -> VInit (List.map nn (list x))
  | ORw _ -> VEv (List.map nn (list x))
  | ONotes -> VNotes (List.map (fun p -> match list p with [k; v] -> (nn k, nn v) | _ -> failwith "kv") (list x))
  | OBlob _ -> VBlob (List.map nn (list x))

let c11_run body =
  let progs, sched, init = match parse_many body with
    | [p; s] -> (p, s, L [])
    | [p; s; i] -> (p, s, i)
    | _ -> failwith "c11-run" in
  let progs = List.map prog_of (list progs) in
  let sched = List.map (fun t -> nat_of_int (num t)) (list sched) in
  let inits = List.map (fun p -> match list p with
      | [o; c] -> let o = obj_of_sx o in (o, content_of o c)
      | _ -> failwith "init") (list init) in
  let s0 = List.fold_left (fun s (o, v) -> upd o v s) empty_store inits in
  let tr = trace_of progs sched in
  let final = run progs sched s0 in
  let objs = objects_of progs (List.map fst inits) in
  let known = not (stale_free tr) in
  let lost_l = List.filter_map (fun o ->
      match lost o s0 final tr with
      | [] -> None
      | l -> Some (L [obj_head o; nums l])) objs in
  String.concat " " ([show (L [Sym "known"; N (if known then 1 else 0)]);
                      show (L [Sym "steps"; N (List.length tr)])]
                     @ List.map (fun o -> show (show_obj o (final o))) objs
                     @ [show (L (Sym "lost" :: lost_l))])

let path_of x = List.map str_of (list x)
let c11_aidir body = match parse_many body with
  | [c; g] -> show (L (List.map show_str (ai_dir (path_of c) (path_of g))))
  | _ -> failwith "c11-aidir"

let c11_gen _ =
  let b x = N (if x then 1 else 0) in
  show (L [L [Sym "cp_locked"; b append_checkpoint_locked]; L [Sym "ev_locked"; b append_event_locked];
           L [Sym "notes_locked"; b notes_add_locked]; L [Sym "refresh_locked"; b post_commit_refresh_locked];
           L [Sym "swallowed"; b rewrite_errors_swallowed]; L [Sym "blob_in_place"; b blob_rewritten_in_place]; L [Sym "new_log_reset"; b post_commit_resets_new_log]; L [Sym "max_events"; N (int_of_nat max_events)]])

let () = run_driver ["c11-run", c11_run; "c11-aidir", c11_aidir; "c11-gen", c11_gen] []
