(* d_ingest.ml — driver for Model/Ingest.v (C20)

   JSON as s-expression:  null | true | false | (num u N) | (num i N) | (num f) | (s CPS) | (arr J...) | (obj (CPS J)...)
   path  = (COMP...)  with COMP = CPS ;  raw path = (SEG...) with SEG = CPS | up
   c20-decode : PRESET J                       -> err:<class> | (ok KIND RWD FILES)
   c20-inwd   : (PATH kind) STAT RAW            -> 1 | 0
   c20-route  : LAYOUT CWD STATS FAILING PRESET HOOK
                LAYOUT  = ((PATH kind)...)     kind = normal | bare | submodule | worktree
                CWD     = none | PATH
                STATS   = ((RAW file|dir PATH)...)      everything else is missing
                FAILING = ((PATH kind)...)
                PRESET  = v1 | claude | codex | aitab | other | mock | nopreset
                HOOK    = none | missing | empty | stdin-err | stdin-empty | argv-bad | notjson | (json J)
                -> (status N) (panic B) (scope-all B) (records ((PATH kind) PATH)...)   records sorted *)

let rec json_of (x : Sexp.t) : json = match x with
  | Sym "null" -> JNull
  | Sym "true" -> JBool true
  | Sym "false" -> JBool false
  | L [Sym "num"; Sym "u"; N v] -> JNum (NumU (n_of_int v))
  | L [Sym "num"; Sym "u"; _] -> JNum (NumU (n_of_int 0))
  | L [Sym "num"; Sym "i"; N v] -> JNum (NumI (n_of_int v))
  | L [Sym "num"; Sym "i"; _] -> JNum (NumI (n_of_int 1))
  | L [Sym "num"; Sym "f"] -> JNum NumF
  | L [Sym "s"; s] -> JStr (str_of s)
  | L (Sym "arr" :: l) -> JArr (List.map json_of l)
  | L (Sym "obj" :: l) -> JObj (List.map (fun e -> match e with
      | L [k; v] -> (str_of k, json_of v)
      | _ -> failwith "obj entry") l)
  | _ -> failwith ("json: " ^ show x)

let kind_s = function Human -> "human" | AiAgent -> "ai_agent" | AiTab -> "ai_tab"
let derr_s = function
  | ENotTagged -> "not-tagged" | EMissingTag -> "missing-tag" | ETagType -> "tag-type"
  | EUnknownVariant -> "unknown-variant" | EDupField -> "dup-field" | EMissingField -> "missing-field"
  | EType -> "type" | ELength -> "length" | EValue -> "value" | ENoInput -> "no-input" | EShape -> "SHAPE"

let show_run (r : run) : string =
  let rwd = match r.rn_rwd with None -> Sym "none" | Some s -> show_str s in
  let files = match r.rn_files with None -> Sym "none" | Some l -> L (List.map show_str l) in
  let dirty = match r.rn_dirty with None -> Sym "none" | Some l -> N (List.length l) in
  show (L [Sym "ok"; Sym (kind_s r.rn_kind); rwd; files; dirty])

let decode_by (p : string) (j : json) : run dres = match p with
  | "v1" -> decode_agent_v1 j
  | "claude" -> decode_claude (fun _ -> false) j
  | "codex" -> decode_codex j
  | "aitab" -> decode_ai_tab j
  | _ -> failwith "preset"

let c20_decode body = match parse_many body with
  | [Sym p; j] -> (match decode_by p (json_of j) with
      | DOk r -> show_run r
      | DErr e -> "err:" ^ derr_s e)
  | _ -> failwith "c20-decode"

let path_of (x : Sexp.t) : n list list = List.map str_of (list x)
let show_path (p : n list list) : Sexp.t = L (List.map show_str p)
let seg_of (x : Sexp.t) : seg = match x with Sym "up" -> SUp | s -> SName (str_of s)
let raw_of (x : Sexp.t) : seg list = List.map seg_of (list x)
let kind_of = function
  | "normal" -> KNormal | "bare" -> KBare | "submodule" -> KSubmodule | "worktree" -> KWorktree
  | s -> failwith ("kind " ^ s)
let kind_str = function KNormal -> "normal" | KBare -> "bare" | KSubmodule -> "submodule" | KWorktree -> "worktree"
let repo_of (x : Sexp.t) : repo = match x with
  | L [p; Sym k] -> { r_root = path_of p; r_kind = kind_of k }
  | _ -> failwith "repo"
let show_repo (r : repo) : Sexp.t = L [show_path r.r_root; Sym (kind_str r.r_kind)]

let hook_of (x : Sexp.t) : hook = match x with
  | Sym "none" -> HNone
  | Sym "missing" -> HMissingValue
  | Sym "empty" -> HEmptyValue
  | Sym "stdin-err" -> HStdinReadErr
  | Sym "stdin-empty" -> HStdinEmpty
  | Sym "argv-bad" -> HArgvNotUtf8
  | Sym "notjson" -> HText None
  | L [Sym "json"; j] -> HText (Some (json_of j))
  | _ -> failwith "hook"

let preset_of = function
  | "v1" -> PAgentV1 | "claude" -> PClaude | "codex" -> PCodex | "aitab" -> PAiTab
  | "mock" -> PMockAi | "nopreset" -> PNone
  | s -> failwith ("preset " ^ s)

let c20_route body = match parse_many body with
  | [lay; cwd; stats; failing; Sym p; hk] ->
      let layout = List.map repo_of (list lay) in
      let cwd = (match cwd with Sym "none" -> None | x -> Some (path_of x)) in
      let tbl = List.map (fun e -> match e with
          | L [raw; Sym "file"; real] -> (raw_of raw, IsFile (path_of real))
          | L [raw; Sym "dir"; real] -> (raw_of raw, IsDir (path_of real))
          | _ -> failwith "stat entry") (list stats) in
      let env = mk_env layout cwd tbl (List.map repo_of (list failing)) in
      let o = handle_checkpoint env (preset_of p) (hook_of hk) in
      let recs = List.map (fun (r, q) -> show (L [show_repo r; show_path q])) (records env o) in
      let recs = List.sort_uniq compare recs in
      Printf.sprintf "(status %d) (panic %s) (scope-all %s) (records %s)"
        (int_of_n (status_of o)) (bool_s (o = Panicked)) (bool_s (has_scope_all o)) (String.concat " " recs)
  | _ -> failwith "c20-route"

(* c20-inwd : (PATH kind) STAT RAW   with STAT = missing | (file PATH) | (dir PATH)   ->  1 | 0     (Repository::path_is_in_workdir) *)
let c20_inwd body = match parse_many body with
  | [r; st; raw] ->
      let repo = repo_of r in
      let rawp = raw_of raw in
      let tbl = (match st with
        | Sym "missing" -> []
        | L [Sym "file"; real] -> [(rawp, IsFile (path_of real))]
        | L [Sym "dir"; real] -> [(rawp, IsDir (path_of real))]
        | _ -> failwith "stat") in
      let env = mk_env [repo] None tbl [] in
      bool_s (in_wd env repo rawp)
  | _ -> failwith "c20-inwd"

let () = run_driver ["c20-decode", c20_decode; "c20-route", c20_route; "c20-inwd", c20_inwd] []
