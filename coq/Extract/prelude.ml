(* prelude.ml — textually prepended (after `open M_<name>`) to every d_<name>.ml:
   conversions between OCaml ints / s-expressions and the extracted N, positive, lists.
   usage of a built driver: driver_<name> <mode>    stdin: id<TAB>sexp...    stdout: id<TAB>result *)
open Sexp

let rec pos_of_int (n : int) : positive =
  if n = 1 then XH else if n land 1 = 0 then XO (pos_of_int (n lsr 1)) else XI (pos_of_int (n lsr 1))
let n_of_int (n : int) : n = if n = 0 then N0 else Npos (pos_of_int n)
let rec int_of_pos (p : positive) : int =
  match p with XH -> 1 | XO q -> 2 * int_of_pos q | XI q -> 2 * int_of_pos q + 1
let int_of_n (x : n) : int = match x with N0 -> 0 | Npos p -> int_of_pos p

let str_of (x : Sexp.t) : n list = List.map (fun c -> n_of_int (num c)) (list x)
let show_str (s : n list) : Sexp.t = L (List.map (fun c -> N (int_of_n c)) s)
let bool_s b = if b then "1" else "0"


(* main loop shared by all drivers: [modes] maps a mode name to a case function;
   a mode function of type unit -> unit in [specials] runs without reading cases *)
let run_driver (modes : (string * (string -> string)) list) (specials : (string * (unit -> unit)) list) =
  let mode = if Array.length Sys.argv > 1 then Sys.argv.(1) else "" in
  (match List.assoc_opt mode specials with Some g -> g (); exit 0 | None -> ());
  let f = match List.assoc_opt mode modes with
    | Some f -> f
    | None -> prerr_endline ("unknown mode " ^ mode); exit 2 in
  (try
     while true do
       let line = input_line stdin in
       match String.index_opt line '\t' with
       | None -> ()
       | Some i ->
           let id = String.sub line 0 i and body = String.sub line (i + 1) (String.length line - i - 1) in
           let r = try f body with e -> "driver-exception " ^ Printexc.to_string e in
           print_string id; print_char '\t'; print_endline r
     done
   with End_of_file -> ())
