From Coq Require Extraction ExtrOcamlBasic.
From Verif Require Import Gen.GenModes Model.Modes.
Extraction Language OCaml.
Extraction "Extract/m_modes.ml" Modes.hook_events Modes.hook_run Modes.wrap_events Modes.git_fires Modes.effects Modes.journal
  Modes.erase_shas Modes.wf_firing Modes.Known_C13 Modes.leaks Modes.pre_state Modes.post_state Modes.both_events
  Modes.all_classes Modes.env0 Modes.with_seq Modes.init GenModes.hook_name_strings GenModes.managed_hook_names
  GenModes.rebase_terminal_hook_names Modes.maskable.
