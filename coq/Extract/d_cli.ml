(* d_cli.ml — driver for Model/Cli.v (C18).  Built as: sexp.ml m_cli.ml (open M_cli + prelude.ml + this file) *)
let strs_of x = List.map str_of (list x)
let show_strs l = L (List.map show_str l)
let show_opt = function None -> Sym "none" | Some s -> L [Sym "some"; show_str s]
let bool_x b = N (if b then 1 else 0)

(* canonical parsed record + to_vec; the same text is printed by harness/src/p_c18.rs *)
let show_parsed p =
  String.concat " " (List.map show [
    L [Sym "g"; show_strs p.globals]; L [Sym "cmd"; show_opt p.command]; L [Sym "args"; show_strs p.cargs];
    L [Sym "dd"; bool_x p.saw_dd]; L [Sym "help"; bool_x p.is_help]; L [Sym "vec"; show_strs (to_vec p)]])

(* in: ARGV   out: parsed record, then model-only classification of the input *)
let c18_parse body =
  match parse_many body with
  | [a] ->
      let a = strs_of a in
      let p = parse a in
      show_parsed p ^ " " ^ String.concat " " (List.map show [
        L [Sym "npm"; bool_x (no_pre_command_meta a)]; L [Sym "ml"; bool_x (meta_last a)];
        L [Sym "known"; bool_x (known_C18 a)]; L [Sym "norm"; show_strs (meta_normalise a)];
        L [Sym "spec"; show_opt (spec_command a)];
        L [Sym "gnorm"; show_strs (git_norm a)]; L [Sym "gcmd"; show_opt (git_command a)]])
  | _ -> failwith "c18-parse: bad case"

(* in: CPS   out: none | (some (TOK...))   then model-only: (gsplit none|(some (WORD...))) (edge b) (shell b) *)
let c18_alias_tokens body =
  match parse_many body with
  | [v] ->
      let v = str_of v in
      let so = function None -> Sym "none" | Some ts -> L [Sym "some"; show_strs ts] in
      String.concat " " (List.map show [
        so (parse_alias_tokens v); L [Sym "gsplit"; so (git_split v)];
        L [Sym "edge"; bool_x (alias_edge v)]; L [Sym "shell"; bool_x (is_shell_alias v)]])
  | _ -> failwith "c18-alias-tokens: bad case"

(* in: [DIR] ((NAME VALUE)...) ARGV   out: none | fuel | parsed record *)
let c18_resolve body =
  let go t a =
    let tbl = List.map (fun e -> match list e with [n; v] -> (str_of n, str_of v) | _ -> failwith "entry") (list t) in
    match resolve_alias tbl (parse (strs_of a)) with
    | RNone -> "none" | RFuel -> "fuel" | RSome p -> show_parsed p in
  match parse_many body with
  | [t; a] -> go t a
  | [_; t; a] -> go t a
  | _ -> failwith "c18-resolve: bad case"

let () = run_driver ["c18-parse", c18_parse; "c18-alias-tokens", c18_alias_tokens; "c18-resolve", c18_resolve] []
