(* d_blame.ml -- driver for Model/Blame.v (C09).  Built as: sexp.ml m_blame.ml (open M_blame + prelude.ml + this file) *)

let opt_str = function Sym "none" -> None | x -> Some (str_of x)
let show_opt_str = function None -> Sym "none" | Some s -> show_str s

let prompts_of x =
  List.map (fun p -> match list p with
      | [h; tool; human] -> (str_of h, { p_tool = str_of tool; p_human = opt_str human })
      | _ -> failwith "prompt") (list x)

(* NOTE := none | (RAWTEXT ((HASH TOOL HUMAN|none)...) METADATA_OK) *)
let note_of x = match x with
  | Sym "none" -> None
  | _ -> (match list x with
      | [raw; ps; okflag] ->
          if num okflag = 0 then None
          else (match deserialize (str_of raw) with
              | Ok l -> Some { l_atts = l.atts; l_prompts = prompts_of ps }
              | _ -> None)
      | _ -> failwith "note")

let rec str_eq (a : n list) (b : n list) = match a, b with
  | [], [] -> true
  | x :: a', y :: b' -> int_of_n x = int_of_n y && str_eq a' b'
  | _, _ -> false

let lookup tbl k = let rec go = function [] -> None | (k', v) :: r -> if str_eq k' k then v else go r in go tbl
let lookup_p tbl k = let rec go = function [] -> None | (k', v) :: r -> if str_eq k' k then Some v else go r in go tbl

let opts_of x = match list x with
  | [a; b; c; d] -> { o_use_hash = num a = 1; o_human_as_human = num b = 1; o_mark_unknown = num c = 1; o_split = num d = 1 }
  | _ -> failwith "opts"

let show_hunk h =
  L [N (int_of_n h.h_start); N (int_of_n h.h_end); N (int_of_n h.h_ostart); N (int_of_n h.h_oend);
     show_str h.h_sha; show_str h.h_author; N (if h.h_boundary then 1 else 0); show_opt_str h.h_ai_human;
     show_str h.h_path]

(* the quoted branch of utils::unescape_git_path (git's C-style quoting undone) is an environment function:
   a table QUOTED -> PATH computed by the check; a quoted name outside the table stays as it is *)
let dq_of x =
  let tbl = List.map (fun e -> match list e with [q; u] -> (str_of q, str_of u) | _ -> failwith "unq") (list x) in
  fun s -> match lookup_p tbl s with Some u -> u | None -> s

(* in: PATH OPTS TEXT ((SHA NOTE)...) ((HASH TOOL HUMAN)...) ((QUOTED PATH)...)
   out: (hunks H...) (lines (L NAME)...) (prompts HASH...) (json (KEY ID)...) | err | panic *)
let c09_pipe body =
  match parse_many body with
  | [path; o; text; notes; foreign; unq] ->
      let o = opts_of o in
      let dq = dq_of unq in
      let ntbl = List.map (fun e -> match list e with [s; nt] -> (str_of s, note_of nt) | _ -> failwith "notes") (list notes) in
      let ftbl = prompts_of foreign in
      let nf = lookup ntbl and ff = lookup_p ftbl in
      let path = str_of path and text = str_of text in
      (match blame_hunks dq o nf ff path text with
       | Ok hs ->
           let ols = overlay o nf ff path hs in
           let la = line_authors ols and prs = prompt_records ols in
           let js = json_lines (ai_lines la prs) in
           String.concat " " [
             show (L (Sym "hunks" :: List.map show_hunk hs));
             show (L (Sym "lines" :: List.map (fun (l, a) -> L [N (int_of_n l); show_str a]) la));
             show (L (Sym "prompts" :: List.map show_str prs));
             show (L (Sym "json" :: List.map (fun (k, id) -> L [show_str k; show_str id]) js));
             (match expand_json js with
              | Some ex -> show (L (Sym "expand" :: List.map (fun (l, a) -> L [N (int_of_n l); show_str a]) ex))
              | None -> "(expand-fails)") ]
       | Err -> "err"
       | Panic -> "panic")
  | _ -> failwith "c09-pipe: bad case"

(* in: TEXT ((QUOTED PATH)...)   out: (hunks H...) | err | panic *)
let c09_parse body =
  match parse_many body with
  | [text; unq] -> (match parse_line_porcelain (dq_of unq) (str_of text) with
      | Ok hs -> show (L (Sym "hunks" :: List.map show_hunk hs))
      | Err -> "err" | Panic -> "panic")
  | _ -> failwith "c09-parse: bad case"

(* in: ARG   out: (A B) | none *)
let c09_range body =
  match parse_many body with
  | [s] -> (match parse_line_range (str_of s) with
      | Some (a, b) -> show (L [N (int_of_n a); N (int_of_n b)])
      | None -> "none")
  | _ -> failwith "c09-range: bad case"

(* in: TOTAL ((A B)...)   out: (ok (A B)...) | err *)
let c09_prepare body =
  match parse_many body with
  | [t; rs] ->
      let rs = List.map (fun r -> match list r with [a; b] -> (n_of_int (num a), n_of_int (num b)) | _ -> failwith "r") (list rs) in
      (match prepare_ranges (n_of_int (num t)) rs with
       | Ok l -> show (L (Sym "ok" :: List.map (fun (a, b) -> L [N (int_of_n a); N (int_of_n b)]) l))
       | _ -> "err")
  | _ -> failwith "c09-prepare: bad case"

let () = run_driver ["c09-pipe", c09_pipe; "c09-parse", c09_parse; "c09-range", c09_range; "c09-prepare", c09_prepare] []
