(* Extraction of Model/Stats.v (C19).  ExtrOcamlBasic only; no Extract Constant. *)
From Coq Require Extraction ExtrOcamlBasic.
From Verif Require Import Base.Str Model.Stats.
Extraction Language OCaml.
Extraction "Extract/m_stats.ml"
  Stats.commit_stats Stats.parse_numstat Stats.stats_for_commit Stats.onote_ok Stats.Known_C19
  Stats.inter_count Stats.added_count Stats.tools_sum_ok Stats.prep_added Stats.str_nodup Stats.overlap_len.
