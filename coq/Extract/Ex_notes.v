(* Extraction of the C05 models (notes tree, attestation builders, remap) to OCaml.
   ExtrOcamlBasic only; no Extract Constant. *)
From Coq Require Extraction ExtrOcamlBasic.
From Verif Require Import Base.Str Base.RangeSet Gen.GenNotes Model.NotesTree Model.NoteOk.
Extraction Language OCaml.
Extraction "Extract/m_notes.ml"
  NotesTree.notes_path_for_object NotesTree.fanout_path NotesTree.batch_write NotesTree.lookup
  NotesTree.git_lookup NotesTree.unique_keysb NotesTree.layout_le1 NotesTree.long_keys
  NotesTree.Known_C05_fanout
  NoteOk.build_file_attestation NoteOk.to_authorship_log NoteOk.upsert NoteOk.try_remap
  NoteOk.parse_batch_check_blob_oid NoteOk.note_ok NoteOk.merge_favoring_first
  GenNotes.gn_merge_skips_absent.
