(* d_redact.ml — driver for Model/Redact.v + Model/Taint.v (C08).
   Built as: sexp.ml m_redact.ml (open M_redact + prelude.ml + this file) *)

let rec nat_of_int (k : int) : nat = if k <= 0 then O else S (nat_of_int (k - 1))
let bytes_s (s : n list) : string = show (show_str s)
let string_of_bytes (s : n list) : string =
  String.concat "" (List.map (fun c -> String.make 1 (Char.chr (int_of_n c land 255))) s)
let bytes_of_string (s : string) : n list =
  List.init (String.length s) (fun i -> n_of_int (Char.code s.[i]))

(* the classifier as a table recorded from the real is_random: (cands ((BYTES) 0|1) ...).
   A token that is not in the table is a harness error, never a default. *)
let classifier (x : Sexp.t) : n list -> bool =
  let tbl = Hashtbl.create 16 in
  (match list x with
   | Sym "cands" :: es ->
       List.iter (fun e -> match list e with
           | [t; v] -> Hashtbl.replace tbl (string_of_bytes (str_of t)) (num v <> 0)
           | _ -> failwith "cands entry") es
   | _ -> failwith "cands");
  fun t ->
    match Hashtbl.find_opt tbl (string_of_bytes t) with
    | Some b -> b
    | None -> failwith ("classifier table has no verdict for " ^ bytes_s t)

(* in: TEXT   out: ((a b) ...) *)
let c08_tokens body =
  match parse_many body with
  | [t] ->
      show (L (List.map (fun (a, b) -> L [N (int_of_n a); N (int_of_n b)]) (extract_tokens (str_of t))))
  | _ -> failwith "c08-tokens: bad case"

(* in: TEXT CANDS   out: (ok BYTES n) | panic *)
let c08_redact body =
  match parse_many body with
  | [t; c] ->
      (match redact_text (classifier c) (str_of t) with
       | Ok (out, k) -> show (L [Sym "ok"; show_str out; N (int_of_n k)])
       | Panic -> "panic")
  | _ -> failwith "c08-redact: bad case"

(* in: TOKEN   out: (ok BYTES) | panic *)
let c08_secret body =
  match parse_many body with
  | [t] -> (match redact_secret (str_of t) with
      | Ok out -> show (L [Sym "ok"; show_str out])
      | Panic -> "panic")
  | _ -> failwith "c08-secret: bad case"

let msg_of (m : Sexp.t) : msg =
  match list m with
  | [Sym "u"; t] -> MUser (str_of t)
  | [Sym "a"; t] -> MAssistant (str_of t)
  | [Sym "t"; t] -> MThinking (str_of t)
  | [Sym "p"; t] -> MPlan (str_of t)
  | [Sym "x"; nm; sh; ls] -> MToolUse (str_of nm, str_of sh, List.map str_of (list ls))
  | _ -> failwith "msg"
let show_msg = function
  | MUser t -> L [Sym "u"; show_str t]
  | MAssistant t -> L [Sym "a"; show_str t]
  | MThinking t -> L [Sym "t"; show_str t]
  | MPlan t -> L [Sym "p"; show_str t]
  | MToolUse (nm, sh, ls) -> L [Sym "x"; show_str nm; show_str sh; L (List.map show_str ls)]

(* in: ((ID (MSG ...)) ...) CANDS   out: (ok ((MSG ...) ...) total) (strip remaining) | panic *)
let c08_prompts body =
  match parse_many body with
  | [ps; c] ->
      let mss = List.map (fun p -> match list p with
          | [_; ms] -> List.map msg_of (list ms) | _ -> failwith "prompt") (list ps) in
      let remaining = List.fold_left (fun a ms -> a + List.length ms) 0 (strip_prompts mss) in
      (match redact_prompts (classifier c) mss with
       | Ok (out, k) ->
           show (L [Sym "ok"; L (List.map (fun ms -> L (List.map show_msg ms)) out); N (int_of_n k)])
           ^ " " ^ show (L [Sym "strip"; N remaining])
       | Panic -> "panic")
  | _ -> failwith "c08-prompts: bad case"

let mode_of = function
  | Sym "default" -> MDefault | Sym "local" -> MLocal | Sym "notes" -> MNotes
  | x -> failwith ("mode " ^ show x)
let mode_opt = function Sym "none" -> None | x -> Some (mode_of x)
let mode_s = function MDefault -> "default" | MLocal -> "local" | MNotes -> "notes"

(* in: GLOBAL FALLBACK EXCLUDED INCLUDE_EMPTY INCLUDE_MATCH   out: default|local|notes *)
let c08_effective body =
  match parse_many body with
  | [g; f; e; ie; im] ->
      mode_s (effective_mode { c_global = mode_opt g; c_fallback = mode_opt f; c_excluded = num e <> 0;
                               c_include_empty = num ie <> 0; c_include_match = num im <> 0 })
  | _ -> failwith "c08-effective: bad case"

(* should_exclude_prompts.  in: (PATTERN ...) (URL ...)|none ((PATTERN URL 0|1) ...)   out: 0|1
   the third argument is the glob-matching table (an environment function for the model) *)
let c08_excluded body =
  match parse_many body with
  | [ps; rs; tbl] ->
      let t = List.map (fun e -> match list e with
          | [p; u; v] -> ((string_of_bytes (str_of p), string_of_bytes (str_of u)), num v <> 0)
          | _ -> failwith "glob entry") (list tbl) in
      let glob p u = match List.assoc_opt (string_of_bytes p, string_of_bytes u) t with
        | Some b -> b | None -> failwith "glob table has no entry" in
      let remotes = match rs with Sym "none" -> None | x -> Some (List.map str_of (list x)) in
      bool_s (should_exclude glob (List.map str_of (list ps)) remotes)
  | _ -> failwith "c08-excluded: bad case"

(* in: TOOL (METAKEY ...)   out: 0|1   (is the transcript kept inline in the working log?) *)
let c08_stored body =
  match parse_many body with
  | [t; ks] -> bool_s (cannot_refetch (str_of t) (List.map str_of (list ks)))
  | _ -> failwith "c08-stored: bad case"

let contains (hay : string) (needle : string) : bool =
  let n = String.length needle and h = String.length hay in
  let rec go i = i + n <= h && (String.sub hay i n = needle || go (i + 1)) in
  n = 0 || go 0

(* one scenario of note writers.
   in: MODE LOGGED_IN CAS_OK ((FN (ACCEPTED_LINES ...)) ...) (MSG ...) CANDS (NEEDLE ...)
       one fresh working-log record (carrying the messages) per ACCEPTED_LINES value
   out: (clean 0|1) (hits 0|1 ...)      hit = the needle occurs in a message of some note *)
let c08_run body =
  match parse_many body with
  | [m; li; co; steps; msgs; c; needles] ->
      let isr = classifier c in
      let mode = mode_of m in
      let e = { e_logged_in = num li <> 0; e_cas_ok = num co <> 0 } in
      let fresh acc = { p_id = bytes_of_string "p"; p_tool = bytes_of_string "toolx"; p_accepted = n_of_int acc;
                        p_messages = List.map msg_of (list msgs) } in
      let ns = List.fold_left (fun ns st ->
          match list st with
          | [fn; accs] ->
              let name = str_of fn in
              let w = match List.filter (fun w -> w.w_fn = name) note_writers with
                | w :: _ -> w
                | [] -> failwith ("no writer named " ^ string_of_bytes name ^ " in the generated inventory") in
              let picks = List.concat (List.mapi (fun i nt ->
                  List.mapi (fun j _ -> (nat_of_int i, nat_of_int j)) nt) ns) in
              write isr w mode e ns { s_worklog = List.map (fun a -> fresh (num a)) (list accs); s_picks = picks }
          | _ -> failwith "step") [] (list steps) in
      let texts = List.concat_map (fun nt -> List.concat_map (fun p ->
          List.concat_map (fun mg -> List.map string_of_bytes (texts mg)) p.p_messages) nt) ns in
      let hit nd = List.exists (fun t -> contains t (string_of_bytes (str_of nd))) texts in
      show (L [Sym "clean"; Sym (bool_s (inv_cleanb ns))]) ^ " "
      ^ show (L (Sym "hits" :: List.map (fun nd -> Sym (bool_s (hit nd))) (list needles)))
  | _ -> failwith "c08-run: bad case"

let seccharset () =
  let l = List.filter (fun b -> is_secret_char (n_of_int b)) (List.init 256 (fun i -> i)) in
  print_endline ("secret " ^ String.concat " " (List.map string_of_int l))

let inventory () =
  List.iter (fun w ->
      Printf.printf "writer %s %s %d modematch=%s filtered=%s redacts_in_notes=%s worklog=%s notes=%s safe=%s\n"
        (string_of_bytes w.w_file) (string_of_bytes w.w_fn) (int_of_n w.w_prim)
        (match w.w_arms with Some _ -> "1" | None -> "0")
        (bool_s (w_filtered w)) (bool_s (w_redacts_in_notes w)) (bool_s w.w_src_worklog) (bool_s w.w_src_notes)
        (bool_s (safe_writer w))) note_writers;
  Printf.printf "inventory_ok %s\n" (bool_s (inventory_ok note_writers));
  Printf.printf "inventory_notes_ok %s\n" (bool_s (inventory_notes_ok note_writers));
  Printf.printf "unsafe %d\n" (List.length (unsafe_writers note_writers))

(* the model's own search for a record that keeps its messages in a non-notes mode: every writer with a
   storage-mode match x {default, local} x logged in / out x CAS ok / failing x accepted_lines in {0, 1} *)
let cas_cex () =
  let found = ref 0 in
  List.iter (fun w ->
      match w.w_arms with
      | None -> ()
      | Some _ ->
          List.iter (fun (mode, ms) -> List.iter (fun li -> List.iter (fun co -> List.iter (fun acc ->
              let p = { p_id = bytes_of_string "p"; p_tool = bytes_of_string "toolx"; p_accepted = n_of_int acc;
                        p_messages = [MUser (bytes_of_string "hi")] } in
              let ns = write (fun _ -> false) w mode { e_logged_in = li; e_cas_ok = co } []
                  { s_worklog = [p]; s_picks = [] } in
              if not (inv_cleanb ns) then begin
                incr found;
                Printf.printf "cex writer=%s mode=%s logged_in=%s cas_ok=%s accepted_lines=%d messages=nonempty\n"
                  (string_of_bytes w.w_fn) ms (bool_s li) (bool_s co) acc
              end) [0; 1]) [true; false]) [true; false]) [(MDefault, "default"); (MLocal, "local")]) note_writers;
  Printf.printf "cas_clears_all %s\n" (bool_s cas_clears_all);
  Printf.printf "cex_count %d\n" !found

let () = run_driver
    ["c08-tokens", c08_tokens; "c08-redact", c08_redact; "c08-secret", c08_secret;
     "c08-prompts", c08_prompts; "c08-effective", c08_effective; "c08-excluded", c08_excluded; "c08-stored", c08_stored;
     "c08-run", c08_run]
    ["c08-seccharset", seccharset; "c08-inventory", inventory; "c08-cas-cex", cas_cex]
