(* Extraction of Model/DiffFmt.v (C01 diff text protocol).  ExtrOcamlBasic only. *)
From Coq Require Extraction ExtrOcamlBasic.
From Verif Require Import Base.Str Model.DiffFmt.
Extraction Language OCaml.
Extraction "Extract/m_difffmt.ml"
  DiffFmt.dec DiffFmt.enc DiffFmt.quote_c_style DiffFmt.render
  DiffFmt.parse_added DiffFmt.parse_added_with_insertions DiffFmt.parse_hunk_header
  DiffFmt.unescape_git_path DiffFmt.normalize_diff_path_token DiffFmt.plus_header
  DiffFmt.added_lines DiffFmt.insertion_lines DiffFmt.wf_doc
  DiffFmt.path_ok DiffFmt.utf8_valid.
