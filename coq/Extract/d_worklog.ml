(* d_worklog.ml — driver for Model/WorkLog.v (C01/C03/C14 working-log reader) *)

let lattr_of x = match list x with
  | [a; b; au] -> { la_start = n_of_int (num a); la_end = n_of_int (num b); la_author = str_of au }
  | _ -> failwith "lattr"
let lattrs_of x = List.map lattr_of (list x)
let amap_of x = List.map (fun f -> match list f with
    | [p; ls] -> (str_of p, lattrs_of ls)
    | _ -> failwith "amap") (list x)

let show_lattr l = L [N (int_of_n l.la_start); N (int_of_n l.la_end); show_str l.la_author]
let key_of (p, _) = List.map int_of_n p
let show_amap (m : (n list * lattr list) list) =
  let m = List.filter (fun (_, v) -> v <> []) m in
  let m = List.sort (fun a b -> compare (key_of a) (key_of b)) m in
  L (List.map (fun (p, v) ->
      let v = List.sort (fun a b -> compare (int_of_n a.la_start, int_of_n a.la_end, List.map int_of_n a.la_author)
                                        (int_of_n b.la_start, int_of_n b.la_end, List.map int_of_n b.la_author)) v in
      L [show_str p; L (List.map show_lattr v)]) m)

(* entry: (FILE PERSISTED HAS_CHARS FROM_CHARS) ; checkpoint: (IS_AI ENTRY...) *)
let entry_of x = match list x with
  | [f; p; h; c] -> { we_file = str_of f; we_persisted = lattrs_of p; we_has_chars = (num h = 1); we_from_chars = lattrs_of c }
  | _ -> failwith "entry"
let cp_of x = match list x with
  | k :: es -> { cp_is_ai = (num k = 1); cp_entries = List.map entry_of es }
  | [] -> failwith "checkpoint"

(* in: INITIAL (CP...)   out: amap *)
let wl_va body = match parse_many body with
  | [i; cps] -> show (show_amap (va_from_log (amap_of i) (List.map cp_of (list cps))))
  | _ -> failwith "wl-va"

(* in: OLD-or-none M    out: (exists b) amap *)
let wl_write_initial body = match parse_many body with
  | [o; m] ->
      let old = (match o with Sym "none" -> None | x -> Some (amap_of x)) in
      let r = write_initial old (amap_of m) in
      Printf.sprintf "(exists %s) %s" (bool_s (r <> None)) (show (show_amap (read_initial r)))
  | _ -> failwith "wl-write-initial"

(* in: ((A B S)...) (SNAPSHOT-LINE...) (CURRENT-LINE...)
   out: ((I S)...) lines of CURRENT the first checkpoint gives to a session, then the same by content *)
let wl_anchor body = match parse_many body with
  | [cl; snap; cur] ->
      let cl = List.map (fun c -> match list c with
          | [a; b; s] -> ((n_of_int (num a), n_of_int (num b)), n_of_int (num s))
          | _ -> failwith "claim") (list cl) in
      let snap = List.map (fun x -> n_of_int (num x)) (list snap) in
      let cur = List.map (fun x -> n_of_int (num x)) (list cur) in
      let collect f =
        let rec go i acc = if i > List.length cur then List.rev acc else
            (match f (n_of_int i) with Some s -> go (i + 1) (L [N i; N (int_of_n s)] :: acc) | None -> go (i + 1) acc) in
        L (go 1 []) in
      show (collect (first_checkpoint cl snap cur)) ^ " " ^ show (collect (by_content cl snap cur))
  | _ -> failwith "wl-anchor"

let () = run_driver ["wl-va", wl_va; "wl-write-initial", wl_write_initial; "wl-anchor", wl_anchor] []
