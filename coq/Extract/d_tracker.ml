(* d_tracker.ml -- driver for Model/Tracker.v (C16).
   Built as: sexp.ml m_tracker.ml (open M_tracker + prelude.ml + this file).
   attr = (start end AUTHOR ts)   lattr = (start end AUTHOR OVERRODE)   OVERRODE = () | (AUTHOR)
   facts = (segs (op BYTES)...) (subst (a b)...) (moves (del ins s0 s1 t0 t1)...) *)
let nn x = n_of_int (num x)
let attr_of x = match list x with
  | [s; e; a; t] -> { a_start = nn s; a_end = nn e; a_author = str_of a; a_ts = nn t }
  | _ -> failwith "attr"
let attrs_of x = List.map attr_of (list x)
let show_attr a = L [N (int_of_n a.a_start); N (int_of_n a.a_end); show_str a.a_author; N (int_of_n a.a_ts)]
let show_attrs l = L (List.map show_attr l)
let lattr_of x = match list x with
  | [s; e; a; o] ->
      { l_start = nn s; l_end = nn e; l_author = str_of a;
        l_overrode = (match list o with [] -> None | v :: _ -> Some (str_of v)) }
  | _ -> failwith "lattr"
let show_lattr a =
  L [N (int_of_n a.l_start); N (int_of_n a.l_end); show_str a.l_author;
     (match a.l_overrode with None -> L [] | Some o -> L [show_str o])]
let show_lattrs l = L (List.map show_lattr l)

let tagged tag (r : Sexp.t option) =
  match r with Some b -> show (L [Sym tag; b]) | None -> show (L [Sym tag; Sym "panic"])
let res_attrs = function Ok l -> Some (show_attrs l) | Panic -> None
let res_lattrs = function Ok l -> Some (show_lattrs l) | Panic -> None

let segs_of x = match list x with
  | _ :: rest ->
      List.map (fun s -> match list s with
          | [op; d] -> ((match num op with 0 -> DEq | 1 -> DDel | _ -> DIns), str_of d)
          | _ -> failwith "seg") rest
  | [] -> failwith "segs"
let subst_of x = match list x with
  | _ :: rest -> List.map (fun s -> match list s with [a; b] -> (nn a, nn b) | _ -> failwith "subst") rest
  | [] -> failwith "subst"
let moves_of x = match list x with
  | _ :: rest ->
      List.map (fun s -> match list s with
          | [d; i; s0; s1; t0; t1] ->
              { m_del = nn d; m_ins = nn i; m_s0 = nn s0; m_s1 = nn s1; m_t0 = nn t0; m_t1 = nn t1 }
          | _ -> failwith "move") rest
  | [] -> failwith "moves"
let facts_of s u m = { f_segs = segs_of s; f_subst = subst_of u; f_moves = moves_of m }

(* in: OLD NEW ATTRS AUTHOR TS SEGS SUBST MOVES
   out: (tr ..) (out ..) (lines ..) (lines0 ..) (wf b) (mok b) (mfit b) (msame b) (ord b) *)
let c16_update body =
  match parse_many body with
  | [o; n; a; au; ts; s; u; m] ->
      let old_ = str_of o and new_ = str_of n in
      let attrs = attrs_of a and author = str_of au and ts = nn ts in
      let f = facts_of s u m in
      let tr = transform f (sort2 attrs) author ts in
      let out = update attrs author ts f in
      let lines = match out with Ok l -> res_lattrs (to_lines l new_) | Panic -> None in
      let lines0 = res_lattrs (to_lines attrs old_) in
      Printf.sprintf "%s %s %s %s (wf %s) (mok %s) (mfit %s) (msame %s) (ord %s)"
        (tagged "tr" (res_attrs tr)) (tagged "out" (res_attrs out))
        (tagged "lines" lines) (tagged "lines0" lines0)
        (bool_s (wf_diff old_ new_ f)) (bool_s (moves_ok f)) (bool_s (moves_fit f))
        (bool_s (moves_same_len f)) (bool_s (List.for_all attr_ordered attrs))
  | _ -> failwith "c16-update: bad case"

(* in: SEGS SUBST MOVES ATTRS AUTHOR TS      out: (tr ..) (mg ..) (mok b) *)
let c16_transform body =
  match parse_many body with
  | [s; u; m; a; au; ts] ->
      let f = facts_of s u m in
      let tr = transform f (sort2 (attrs_of a)) (str_of au) (nn ts) in
      let mg = match tr with Ok l -> Some (show_attrs (merge l)) | Panic -> None in
      Printf.sprintf "%s %s (mok %s)" (tagged "tr" (res_attrs tr)) (tagged "mg" mg) (bool_s (moves_ok f))
  | _ -> failwith "c16-transform: bad case"

(* in: CONTENT ATTRS      out: (lines ..) *)
let c16_lines body =
  match parse_many body with
  | [c; a] -> tagged "lines" (res_lattrs (to_lines (attrs_of a) (str_of c)))
  | _ -> failwith "c16-lines: bad case"

(* in: CONTENT LATTRS TS      out: (chars ..) (lines ..) (wf b) (same b) *)
let c16_rt body =
  match parse_many body with
  | [c; la; ts] ->
      let c = str_of c and la = List.map lattr_of (list la) in
      let chars = to_chars la c (nn ts) in
      let back = to_lines chars c in
      let same = match back with Ok l -> ai_lines l = ai_lines la | Panic -> false in
      Printf.sprintf "%s %s (wf %s) (same %s)" (tagged "chars" (Some (show_attrs chars)))
        (tagged "lines" (res_lattrs back)) (bool_s (wf_lattrs la (line_count c))) (bool_s same)
  | _ -> failwith "c16-rt: bad case"

(* in: CONTENT ATTRS AUTHOR TS      out: (fill ..) *)
let c16_fill body =
  match parse_many body with
  | [c; a; au; ts] -> tagged "fill" (Some (show_attrs (fill (str_of c) (attrs_of a) (str_of au) (nn ts))))
  | _ -> failwith "c16-fill: bad case"

(* in: BYTES      out: (ok CPS (b0 b1 ...)) | err *)
let c16_utf8 body =
  match parse_many body with
  | [b] ->
      let s = str_of b in
      (match decode s with
       | Some cs ->
           let n = List.length s in
           let bs = List.init (n + 2) (fun i -> N (if is_cb s (n_of_int i) then 1 else 0)) in
           show (L [Sym "ok"; show_str cs; L bs])
       | None -> "err")
  | _ -> failwith "c16-utf8: bad case"

let () = run_driver ["c16-update", c16_update; "c16-transform", c16_transform; "c16-lines", c16_lines;
                     "c16-rt", c16_rt; "c16-fill", c16_fill; "c16-utf8", c16_utf8] []
