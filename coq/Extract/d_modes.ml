(* d_modes.ml — driver for Model/Modes.v (C13: wrapper vs git-hooks front end)
   mode c13-events
     in : CLASS ((field value) ...)        facts not given keep their default
          option values: none | N     lists: (N ...)   picks: ((OLD NEW) ...)
          made: ((SRC NEW PARENT CPH SEQ) ...)   noise: (hook-name ...)  (fired while the rebase runs)
          pre: (MASK)   optional side state the command starts from (default: pre_state of the class)
     out: wf=B known=B leaks=B fires=(hook-name ...) wrap=(shape ...) hooks=(shape ...)
          wrapj=(shape ...) hooksj=(shape ...) side=(mask pull stash cp) both=(shape ...) *)
let rec nat_of_int n = if n <= 0 then O else S (nat_of_int (n - 1))
let rec int_of_nat = function O -> 0 | S n -> 1 + int_of_nat n
let b x = num x = 1
let opt x = match x with Sym "none" -> None | v -> Some (n_of_int (num v))
let shas x = List.map (fun v -> n_of_int (num v)) (list x)

let class_of = function
  | "commit" -> CCommit | "commit_amend" -> CCommitAmend
  | "rebase" -> CRebase | "rebase_i" -> CRebaseI | "rebase_continue" -> CRebaseContinue | "rebase_abort" -> CRebaseAbort
  | "cherry_pick" -> CCherryPick | "cherry_pick_continue" -> CCherryPickContinue | "cherry_pick_abort" -> CCherryPickAbort
  | "reset_soft" -> CResetSoft | "reset_mixed" -> CResetMixed | "reset_hard" -> CResetHard | "reset_path" -> CResetPath
  | "stash_push" -> CStashPush | "stash_pop" -> CStashPop | "stash_apply" -> CStashApply | "stash_drop" -> CStashDrop
  | "merge_squash" -> CMergeSquash | "checkout_branch" -> CCheckoutBranch | "switch_branch" -> CSwitchBranch
  | "checkout_path" -> CCheckoutPath | "pull_ff" -> CPullFF | "pull_rebase" -> CPullRebase
  | s -> failwith ("class " ^ s)

let name_table : (string * hook_name) list =
  List.map (fun (h, cps) -> (String.concat "" (List.map (fun c -> String.make 1 (Char.chr (int_of_n c))) cps), h))
    hook_name_strings
let hook_of s = try List.assoc s name_table with Not_found -> failwith ("hook " ^ s)
let name_of h = fst (List.find (fun (_, x) -> x = h) name_table)

let default_facts = {
  f_head = Some (n_of_int 1); f_head_after = Some (n_of_int 1); f_parent_after = None; f_prev_root = false;
  f_exit_ok = true; f_rb_now = false; f_cph_now = None; f_in_progress = false; f_in_progress_after = false;
  f_journal_active = false; f_journal_start = None; f_journal_srcs = []; f_onto = None; f_upstream = None; f_co_head = None;
  f_branch = None; f_uptodate = false; f_picks = []; f_origs = []; f_news = []; f_noise = []; f_srcs = [];
  f_made = []; f_target = None; f_backward = true; f_dirty_after = false; f_stash_top = None;
  f_stash_before = O; f_stash_after = O; f_stash_new = None; f_squash_src = None; f_merged = true;
  f_wl_pending = false; f_uncheckpointed = false; f_path_pending = false; f_detached = false; f_autostash_va = false; f_msg_aborted = false;
  f_upstream_touches_pending = false }

let noise_firing f name =
  let h = hook_of name in
  let e = with_seq (env0 f) true None false None in
  let args = if h = HN_post_rewrite then APostRewrite (false, true, [])
             else if h = HN_reference_transaction then ARefTx (Committed, None, None, false, false) else ANone in
  { h_name = h; h_args = args; h_env = e }

let set f (k, v) = match k with
  | "head" -> { f with f_head = opt v } | "head_after" -> { f with f_head_after = opt v }
  | "parent_after" -> { f with f_parent_after = opt v } | "prev_root" -> { f with f_prev_root = b v }
  | "exit_ok" -> { f with f_exit_ok = b v } | "rb_now" -> { f with f_rb_now = b v }
  | "cph_now" -> { f with f_cph_now = opt v } | "in_progress" -> { f with f_in_progress = b v }
  | "in_progress_after" -> { f with f_in_progress_after = b v } | "journal_active" -> { f with f_journal_active = b v }
  | "journal_start" -> { f with f_journal_start = opt v } | "journal_srcs" -> { f with f_journal_srcs = shas v }
  | "onto" -> { f with f_onto = opt v } | "upstream" -> { f with f_upstream = opt v }
  | "co_head" -> { f with f_co_head = opt v }
  | "branch" -> { f with f_branch = opt v } | "uptodate" -> { f with f_uptodate = b v }
  | "picks" -> { f with f_picks = List.map (fun p -> match list p with
                                               | [o; n] -> (n_of_int (num o), n_of_int (num n)) | _ -> failwith "pick") (list v) }
  | "origs" -> { f with f_origs = shas v } | "news" -> { f with f_news = shas v }
  | "srcs" -> { f with f_srcs = shas v }
  | "made" -> { f with f_made = List.map (fun m -> match list m with
                                             | [s; n; p; c; q] -> { m_src = n_of_int (num s); m_new = n_of_int (num n);
                                                                    m_parent = n_of_int (num p); m_cph = b c; m_seq = b q }
                                             | _ -> failwith "made") (list v) }
  | "target" -> { f with f_target = opt v } | "backward" -> { f with f_backward = b v }
  | "dirty_after" -> { f with f_dirty_after = b v } | "stash_top" -> { f with f_stash_top = opt v }
  | "stash_before" -> { f with f_stash_before = nat_of_int (num v) } | "stash_after" -> { f with f_stash_after = nat_of_int (num v) }
  | "stash_new" -> { f with f_stash_new = opt v } | "squash_src" -> { f with f_squash_src = opt v }
  | "merged" -> { f with f_merged = b v } | "wl_pending" -> { f with f_wl_pending = b v }
  | "uncheckpointed" -> { f with f_uncheckpointed = b v } | "path_pending" -> { f with f_path_pending = b v }
  | "detached" -> { f with f_detached = b v }
  | "autostash_va" -> { f with f_autostash_va = b v }
  | "msg_aborted" -> { f with f_msg_aborted = b v }
  | "upstream_touches_pending" -> { f with f_upstream_touches_pending = b v }
  | "noise" | "pre" -> f
  | s -> failwith ("field " ^ s)

let show_kind = function RHard -> "hard" | RSoft -> "soft" | RMixed -> "mixed"
let show_shape = function
  | SCommit hb -> L [Sym "commit"; Sym (if hb then "base" else "nobase")]
  | SCommitAmend -> L [Sym "commit_amend"]
  | SRebaseStart _ -> L [Sym "rebase_start"]
  | SRebaseComplete (_, a, c) -> L [Sym "rebase_complete"; N (int_of_nat a); N (int_of_nat c)]
  | SRebaseAbort -> L [Sym "rebase_abort"]
  | SCherryPickStart n -> L [Sym "cherry_pick_start"; N (int_of_nat n)]
  | SCherryPickComplete (a, c) -> L [Sym "cherry_pick_complete"; N (int_of_nat a); N (int_of_nat c)]
  | SCherryPickAbort -> L [Sym "cherry_pick_abort"]
  | SReset k -> L [Sym "reset"; Sym (show_kind k)]
  | SMergeSquash -> L [Sym "merge_squash"]
  | SPreCommitCheckpoint -> L [Sym "pre_commit_checkpoint"]
  | SHumanCheckpoint -> L [Sym "human_checkpoint"]
  | SRenameWorkingLog -> L [Sym "rename_working_log"]
  | SDeleteWorkingLog -> L [Sym "delete_working_log"]
  | SReconstructAfterReset p -> L [Sym "reconstruct_after_reset"; Sym (if p then "path" else "all")]
  | SRemovePathAttributions -> L [Sym "remove_path_attributions"]
  | SSaveStash -> L [Sym "save_stash"]
  | SRestoreStash -> L [Sym "restore_stash"]
  | SRestoreStashedVA -> L [Sym "restore_stashed_va"]
let shapes l = show (L (List.map show_shape (erase_shas l)))

let c13_events body = match parse_many body with
  | [Sym cls; L kvs] ->
      let c = class_of cls in
      let kvs = List.map (fun kv -> match kv with L [Sym k; v] -> (k, v) | _ -> failwith "kv") kvs in
      let f = List.fold_left set default_facts kvs in
      let f = match List.assoc_opt "noise" kvs with
        | Some v -> { f with f_noise = List.map (fun x -> noise_firing f (sym x)) (list v) }
        | None -> f in
      let st0 = match List.assoc_opt "pre" kvs with
        | Some (L [m]) -> { init with s_mask = b m }
        | Some (L [m; pl]) -> { init with s_mask = b m; s_pull_old = (if b pl then Some (n_of_int 997) else None) }
        | _ -> pre_state c in
      let fires = git_fires c f in
      let (hev, st) = hook_events fires st0 in
      let wev = wrap_events c f in
      let (bev, _) = both_events c f st0 in
      Printf.sprintf "wf=%s known=%s leaks=%s fires=%s wrap=%s hooks=%s wrapj=%s hooksj=%s side=(%s %s %s %s) both=%s"
        (bool_s (wf_firing c f)) (bool_s (known_C13 c f)) (bool_s (leaks c f))
        (show (L (List.map (fun fi -> Sym (name_of fi.h_name)) fires)))
        (shapes (effects f wev)) (shapes (effects f hev)) (shapes (journal wev)) (shapes (journal hev))
        (bool_s st.s_mask) (bool_s (st.s_pull_old <> None)) (bool_s (st.s_stash_before <> None)) (bool_s (st.s_cp <> None))
        (shapes (journal bev))
  | _ -> failwith "c13-events"

(* the finite tables *)
let c13_tables _ =
  Printf.sprintf "managed=%s terminal=%s maskable=%s classes=%d"
    (show (L (List.map (fun h -> Sym (name_of h)) managed_hook_names)))
    (show (L (List.map (fun h -> Sym (name_of h)) rebase_terminal_hook_names)))
    (show (L (List.filter_map (fun (s, h) -> if maskable h then Some (Sym s) else None) name_table)))
    (List.length all_classes)

let () = run_driver ["c13-events", c13_events; "c13-tables", c13_tables] []
