(* Extraction of Model/Profile.v (C12).  ExtrOcamlBasic only; no Extract Constant. *)
From Coq Require Extraction ExtrOcamlBasic.
From Verif Require Import Base.Str Gen.GenProfile Gen.GenInternalGit Model.Profile.
Extraction Language OCaml.
Extraction "Extract/m_profile.ml"
  Profile.s2l Profile.profile_of_index Profile.profile_options Profile.first_git_subcommand_index
  Profile.strip_profile_conflicts Profile.args_with_internal_git_profile Profile.effective_args
  Profile.global_args_for_exec Profile.normalize_global_args Profile.normalised_shape
  Profile.resolve_command_base_dir Profile.final_dir
  Profile.all_comps Profile.effective Profile.canonical Profile.pinned_comps Profile.hyps_b
  Profile.should_drop Profile.tame Profile.entry_report Profile.inventory_ok
  Profile.inventory_exceptions_tight Profile.nul_paths_ok Profile.carries_globals Profile.exceptions
  GenInternalGit.gen_inventory.
