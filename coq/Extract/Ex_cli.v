(* Extraction of Model/Cli.v (C18).  ExtrOcamlBasic only; no Extract Constant. *)
From Coq Require Extraction ExtrOcamlBasic.
From Verif Require Import Base.Str Gen.GenCli Model.Cli.
Extraction Language OCaml.
Extraction "Extract/m_cli.ml"
  Cli.classify Cli.take_valueish Cli.key_of Cli.parse Cli.to_vec Cli.parse_alias_tokens Cli.resolve_alias
  Cli.no_pre_command_meta Cli.meta_last Cli.meta_normalise Cli.Known_C18 Cli.spec_command
  Cli.git_norm Cli.git_command Cli.git_expands_alias Cli.git_split Cli.alias_edge Cli.is_shell_alias.
