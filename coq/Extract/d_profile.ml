(* d_profile.ml — driver for Model/Profile.v (C12).  Built as: sexp.ml m_profile.ml (open M_profile + prelude.ml + this file) *)
let strs_of x = List.map str_of (list x)
let show_strs l = L (List.map show_str l)
let rec int_of_nat = function O -> 0 | S k -> 1 + int_of_nat k
let bool_x b = N (if b then 1 else 0)
let ascii (s : n list) : string =
  String.concat "" (List.map (fun c -> let k = int_of_n c in
                                       if k > 32 && k < 127 && k <> 40 && k <> 41 then String.make 1 (Char.chr k)
                                       else Printf.sprintf "%%%02x" k) s)

let comp_name = function
  | CExtDiff -> "ext_diff" | CTextconv -> "textconv" | CSrcPrefix -> "src_prefix" | CDstPrefix -> "dst_prefix"
  | CRelative -> "relative" | CColor -> "color" | CAlgorithm -> "algorithm" | CIndent -> "indent"
  | CInterHunk -> "inter_hunk" | CRenames -> "renames" | CContext -> "context" | CWordDiff -> "word_diff"
  | CQuotePath -> "quote_path"

let show_opt = function None -> Sym "none" | Some s -> L [Sym "some"; show_str s]

(* in: PROFILE ARGV   out: (idx none|N) (strip ..) (awp ..); the same text is printed by harness/src/p_c12.rs *)
let c12_profile body =
  match parse_many body with
  | [p; a] ->
      let p = profile_of_index (n_of_int (num p)) and a = strs_of a in
      let idx = match first_git_subcommand_index a with None -> Sym "none" | Some k -> N (int_of_nat k) in
      String.concat " " (List.map show [
        L [Sym "idx"; idx]; L [Sym "strip"; show_strs (strip_profile_conflicts p a)];
        L [Sym "awp"; show_strs (args_with_internal_git_profile p a)]])
  | _ -> failwith "c12-profile: bad case"

(* in: DISABLED PROFILE ARGV   out: argv *)
let c12_effective_args body =
  match parse_many body with
  | [d; p; a] ->
      show (show_strs (effective_args (num d <> 0) (profile_of_index (n_of_int (num p))) (strs_of a)))
  | _ -> failwith "c12-effective-args: bad case"

(* in: PROFILE   out: the pinned options *)
let c12_pins body =
  match parse_many body with
  | [p] -> show (show_strs (profile_options (profile_of_index (n_of_int (num p)))))
  | _ -> failwith "c12-pins: bad case"

(* in: ((KEY VALUE)...) ARGV   out: (comp none|(some V)) for every component — the git-side table *)
let c12_effective body =
  match parse_many body with
  | [c; a] ->
      let cfg = List.map (fun e -> match list e with [k; v] -> (str_of k, str_of v) | _ -> failwith "entry") (list c) in
      let a = strs_of a in
      String.concat " " (List.map (fun cm -> show (L [Sym (comp_name cm); show_opt (effective cfg a cm)])) all_comps)
  | _ -> failwith "c12-effective: bad case"

(* in: PROFILE ARGV   out: (found b) (tame b) (canon (comp V)...) *)
let c12_hyps body =
  match parse_many body with
  | [p; a] ->
      let p = profile_of_index (n_of_int (num p)) and a = strs_of a in
      let (f, t) = hyps_b p a in
      String.concat " " (List.map show [
        L [Sym "found"; bool_x f]; L [Sym "tame"; bool_x t];
        L (Sym "canon" :: List.map (fun cm -> L [Sym (comp_name cm); show_opt (canonical p cm)]) (pinned_comps p))])
  | _ -> failwith "c12-hyps: bad case"

(* in: CWD ROOT GITDIR_RAW GLOBAL_ARGS   out: err | (ok ARGV)  — find_repository's normalisation, then global_args_for_exec *)
let c12_normalize body =
  match parse_many body with
  | [cwd; root; gd; ga] ->
      let ga = strs_of ga in
      (match resolve_command_base_dir (Some (str_of cwd)) ga with
       | None -> "err"
       | Some base -> show (L [Sym "ok"; show_strs (global_args_for_exec (normalize_global_args ga (str_of root) base (str_of gd)))]))
  | _ -> failwith "c12-normalize: bad case"

(* special: the inventory with the model's verdict per entry *)
let c12_inventory () =
  List.iter (fun e ->
      let ((k, ok), ex) = entry_report e in
      let item = function
        | IGlobals -> "<G>" | ILit s -> ascii s | IDyn -> "<?>" | IDynList -> "<*>"
        | IHead s -> String.concat "<..>" (List.map ascii
                       (let rec split acc cur = function
                          | [] -> List.rev (List.rev cur :: acc)
                          | c :: r -> if int_of_n c = 0 then split (List.rev cur :: acc) [] r else split acc (c :: cur) r in
                        split [] [] s)) in
      Printf.printf "%s\t%s\t%d\t%d\t%s\t%s\t%s\t%s\n" (ascii e.inv_file) (ascii e.inv_fn) (int_of_n e.inv_profile)
        (int_of_n k) (bool_s ok) (bool_s ex) (bool_s (carries_globals e))
        (String.concat " " (List.map item e.inv_items))) gen_inventory;
  Printf.printf "SUMMARY\t%s\t%s\t%s\t%d\n" (bool_s (inventory_ok gen_inventory))
    (bool_s (inventory_exceptions_tight gen_inventory)) (bool_s (nul_paths_ok gen_inventory)) (List.length gen_inventory);
  List.iter (fun ((f, g), why) -> Printf.printf "EXCEPTION\t%s\t%s\t%s\n" (ascii f) (ascii g)
                (String.concat "" (List.map (fun c -> String.make 1 (Char.chr (int_of_n c))) why))) exceptions

let () = run_driver ["c12-profile", c12_profile; "c12-effective-args", c12_effective_args; "c12-pins", c12_pins;
                     "c12-effective", c12_effective; "c12-hyps", c12_hyps; "c12-normalize", c12_normalize]
                    ["c12-inventory", c12_inventory]
