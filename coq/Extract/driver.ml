(* driver — runs the extracted models on the same case files the Rust harness reads.
   usage: driver <mode>    stdin: id<TAB>sexp...    stdout: id<TAB>result *)
open Model
open Sexp

let rec pos_of_int (n : int) : positive =
  if n = 1 then XH else if n land 1 = 0 then XO (pos_of_int (n lsr 1)) else XI (pos_of_int (n lsr 1))
let n_of_int (n : int) : n = if n = 0 then N0 else Npos (pos_of_int n)
let rec int_of_pos (p : positive) : int =
  match p with XH -> 1 | XO q -> 2 * int_of_pos q | XI q -> 2 * int_of_pos q + 1
let int_of_n (x : n) : int = match x with N0 -> 0 | Npos p -> int_of_pos p

let str_of (x : Sexp.t) : n list = List.map (fun c -> n_of_int (num c)) (list x)
let show_str (s : n list) : Sexp.t = L (List.map (fun c -> N (int_of_n c)) s)
let bool_s b = if b then "1" else "0"

(* ---------------- C17 ---------------- *)
let range_of x = match list x with
  | [Sym "s"; a] -> Single (n_of_int (num a))
  | [Sym "r"; a; b] -> Range (n_of_int (num a), n_of_int (num b))
  | _ -> failwith "range"
let atts_of x =
  List.map (fun f -> match list f with
      | p :: es ->
          { f_path = str_of p;
            f_entries = List.map (fun e -> match list e with
                | h :: rs -> { e_hash = str_of h; e_ranges = List.map range_of rs }
                | [] -> failwith "entry") es }
      | [] -> failwith "fatt") (list x)
let show_range = function
  | Single a -> L [Sym "s"; N (int_of_n a)]
  | Range (a, b) -> L [Sym "r"; N (int_of_n a); N (int_of_n b)]
let show_atts fs =
  L (List.map (fun f ->
      L (show_str f.f_path ::
         List.map (fun e -> L (show_str e.e_hash :: List.map show_range e.e_ranges)) f.f_entries)) fs)
let show_res = function
  | Ok l -> show (L [Sym "ok"; show_atts l.atts])
  | Err -> "err"
  | Panic -> "panic"

(* in: ATTS MD   out: (ser CPS) RES (wf b) (norm ATTS) *)
let c17_rt body =
  match parse_many body with
  | [a; m] ->
      let l = { atts = atts_of a; md = str_of m } in
      let s = serialize l in
      Printf.sprintf "%s %s (wf %s) %s"
        (show (L [Sym "ser"; show_str s])) (show_res (deserialize s))
        (bool_s (wf_log l)) (show (L [Sym "norm"; show_atts (normalize l).atts]))
  | _ -> failwith "c17-rt: bad case"

(* in: TEXT   out: (ok ATTS) (md CPS) | err | panic *)
let c17_de body =
  match parse_many body with
  | [t] -> (match deserialize (str_of t) with
      | Ok l -> show (L [Sym "ok"; show_atts l.atts]) ^ " " ^ show (L [Sym "md"; show_str l.md])
      | Err -> "err" | Panic -> "panic")
  | _ -> failwith "c17-de: bad case"

let ws_table () =
  for c = 0 to 0x10FFFF do
    if not (c >= 0xD800 && c <= 0xDFFF) && is_ws (n_of_int c) then Printf.printf "%d\n" c
  done

let () =
  let mode = if Array.length Sys.argv > 1 then Sys.argv.(1) else "" in
  let f = match mode with
    | "c17-rt" -> c17_rt
    | "c17-de" -> c17_de
    | "ws-table" -> ws_table (); exit 0
    | _ -> prerr_endline ("unknown mode " ^ mode); exit 2 in
  (try
     while true do
       let line = input_line stdin in
       match String.index_opt line '\t' with
       | None -> ()
       | Some i ->
           let id = String.sub line 0 i and body = String.sub line (i + 1) (String.length line - i - 1) in
           let r = try f body with e -> "driver-exception " ^ Printexc.to_string e in
           print_string id; print_char '\t'; print_endline r
     done
   with End_of_file -> ())
