(* d_stats.ml -- driver for Model/Stats.v (C19).
   Built as: sexp.ml m_stats.ml (open M_stats + prelude.ml + this file) *)
let range_of x = match list x with
  | [Sym "s"; a] -> Single (n_of_int (num a))
  | [Sym "r"; a; b] -> Range (n_of_int (num a), n_of_int (num b))
  | _ -> failwith "range"

(* NOTE = none | (ATTS PROMPTS); ATTS = ((PATH (HASH RANGE...)...)...);
   PROMPTS = ((HASH TOOL MODEL TADD TDEL ACCEPTED OVERRIDEN)...) *)
let note_of x = match x with
  | Sym "none" -> None
  | _ -> (match list x with
      | [a; p] ->
          let atts = List.map (fun f -> match list f with
              | pth :: es ->
                  { f_path = str_of pth;
                    f_entries = List.map (fun e -> match list e with
                        | h :: rs -> { e_hash = str_of h; e_ranges = List.map range_of rs }
                        | [] -> failwith "entry") es }
              | [] -> failwith "fatt") (list a) in
          let prompts = List.map (fun q -> match list q with
              | [h; tool; model; ta; td; _acc; ov] ->
                  (str_of h, { p_tool = str_of tool; p_model = str_of model;
                               p_total_add = n_of_int (num ta); p_total_del = n_of_int (num td);
                               p_overriden = n_of_int (num ov) })
              | _ -> failwith "prompt") (list p) in
          Some { n_atts = atts; n_prompts = prompts }
      | _ -> failwith "note")

let added_of x =
  List.map (fun f -> match list f with
      | [p; ls] -> (str_of p, List.map (fun l -> n_of_int (num l)) (list ls))
      | _ -> failwith "added") (list x)

let ignored_of x =
  let ps = List.map str_of (list x) in
  fun p -> List.mem p ps

let ni x = string_of_int (int_of_n x)

let show_stats s =
  let tools = List.map (fun (k, t) ->
      L [show_str k; N (int_of_n t.t_ai_additions); N (int_of_n t.t_mixed); N (int_of_n t.t_accepted);
         N (int_of_n t.t_total_add); N (int_of_n t.t_total_del)]) s.s_tools in
  show (L [Sym "ok"; N (int_of_n s.s_human); N (int_of_n s.s_mixed); N (int_of_n s.s_ai_additions);
           N (int_of_n s.s_accepted); N (int_of_n s.s_total_add); N (int_of_n s.s_total_del);
           N (int_of_n s.s_deleted); N (int_of_n s.s_added); L tools])

(* in: NOTE ADDED MERGE GA GD IGNORED_PATHS
   out: RES (noteok b) (known b) (inter n) (addedcount n) (sums b)       RES = (ok ...) | panic *)
let c19_stats_mode m body =
  match parse_many body with
  | [n; a; mg; ga; gd; ig] ->
      let note = note_of n and added = added_of a and merge = (num mg = 1) in
      let ga = n_of_int (num ga) and gd = n_of_int (num gd) and ign = ignored_of ig in
      let r = commit_stats m ign note added merge ga gd in
      let res, acc, sums = match r with
        | SOk s -> show_stats s, s.s_accepted, bool_s (tools_sum_ok s)
        | SPanic -> "panic", N0, "0" in
      Printf.sprintf "%s (noteok %s) (known %s) (inter %s) (addedcount %s) (sums %s)" res
        (bool_s (onote_ok note)) (bool_s (known_C19 note ga acc))
        (ni (inter_count ign note added)) (ni (added_count ign added)) sums
  | _ -> failwith "c19-stats: bad case"

(* in: TEXT IGNORED_PATHS   out: (ok A D) | panic *)
let c19_numstat_mode m body =
  match parse_many body with
  | [t; ig] ->
      (match parse_numstat m (ignored_of ig) (str_of t) with
       | SOk (a, d) -> Printf.sprintf "(ok %s %s)" (ni a) (ni d)
       | SPanic -> "panic")
  | _ -> failwith "c19-numstat: bad case"

(* in: NUMSTAT_TEXT NOTE ADDED MERGE IGNORED_PATHS   out: (ok ...) | panic
   the whole of stats_for_commit_stats given git's two outputs *)
let c19_commit_mode m body =
  match parse_many body with
  | [t; n; a; mg; ig] ->
      (match stats_for_commit m (ignored_of ig) (str_of t) (note_of n) (added_of a) (num mg = 1) with
       | SOk s -> show_stats s
       | SPanic -> "panic")
  | _ -> failwith "c19-commit: bad case"

(* in: RANGE (l...)   out: n     (the list must be strictly increasing, as after sort + dedup) *)
let c19_overlap body =
  match parse_many body with
  | [r; ls] -> ni (overlap_len (range_of r) (List.map (fun l -> n_of_int (num l)) (list ls)))
  | _ -> failwith "c19-overlap: bad case"

let () = run_driver
    ["c19-overlap", c19_overlap; "c19-stats", c19_stats_mode Checked; "c19-stats-wrap", c19_stats_mode Wrapping;
     "c19-commit", c19_commit_mode Checked; "c19-numstat", c19_numstat_mode Checked; "c19-numstat-wrap", c19_numstat_mode Wrapping] []
