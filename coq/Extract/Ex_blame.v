(* Extraction of Model/Blame.v (with the note codec of Model/Serial.v it composes with).
   ExtrOcamlBasic only; no Extract Constant. *)
From Coq Require Extraction ExtrOcamlBasic.
From Verif Require Import Base.Str Base.RangeSet Gen.GenSerial Gen.GenBlame Model.Serial Model.Blame.
Extraction Language OCaml.
Extraction "Extract/m_blame.ml"
  Serial.deserialize
  Blame.parse_line_porcelain Blame.blame_hunks Blame.blame_lines Blame.overlay
  Blame.line_authors Blame.prompt_records Blame.ai_lines Blame.json_lines Blame.expand_json
  Blame.default_author Blame.parse_line_range Blame.prepare_ranges
  Blame.print_line_porcelain Blame.wf_entries Blame.glines Blame.spec_line Blame.hunk_of_entry.
