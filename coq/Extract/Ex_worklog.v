From Coq Require Extraction ExtrOcamlBasic.
From Verif Require Import Base.Str Gen.GenWorkLog Model.WorkLog Gen.GenCheckpoint Model.InitialAnchor.
Extraction Language OCaml.
Extraction "Extract/m_worklog.ml"
  WorkLog.va_from_log WorkLog.va_from_log_gen WorkLog.spec_lookup WorkLog.prune
  WorkLog.write_initial WorkLog.read_initial WorkLog.alookup
  InitialAnchor.first_checkpoint InitialAnchor.by_content.
