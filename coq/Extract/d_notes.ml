(* d_notes.ml — driver for Model/NotesTree.v and Model/NoteOk.v (C05).
   Built as: sexp.ml m_notes.ml (open M_notes + prelude.ml + this file) *)
let ints_of (s : n list) : int list = List.map int_of_n s

(* in: OID(bytes)   out: (ok BYTES) | panic *)
let c05_path body =
  match parse_many body with
  | [o] -> (match notes_path_for_object (str_of o) with
      | Ok s -> show (L [Sym "ok"; show_str s])
      | Panic -> "panic")
  | _ -> failwith "c05-path: bad case"

(* in: LINE(code points)   out: (some CPS) | none *)
let c05_batchcheck body =
  match parse_many body with
  | [l] -> (match parse_batch_check_blob_oid (str_of l) with
      | Some o -> show (L [Sym "some"; show_str o])
      | None -> "none")
  | _ -> failwith "c05-batchcheck: bad case"

let las_of x =
  List.map (fun a -> match list a with
      | [s; e; au] -> ((n_of_int (num s), n_of_int (num e)), str_of au)
      | _ -> failwith "lattr") (list x)

let show_range = function
  | LSingle a -> L [Sym "s"; N (int_of_n a)]
  | LRange (a, b) -> L [Sym "r"; N (int_of_n a); N (int_of_n b)]

(* entries sorted by author, as on the Rust side *)
let show_fatt ((p, es) : n list * (n list * lrange list) list) =
  let es = List.sort (fun (a, _) (b, _) -> compare (ints_of a) (ints_of b)) es in
  L (show_str p :: List.map (fun (h, rs) -> L (show_str h :: List.map show_range rs)) es)

(* in: PATH LAS   out: none | FATT *)
let c05_att body =
  match parse_many body with
  | [p; l] -> (match build_file_attestation (str_of p) (las_of l) with
      | None -> "none"
      | Some f -> show (show_fatt f))
  | _ -> failwith "c05-att: bad case"

(* in: ((PATH LAS)...)   out: (FATT...) sorted by path, then 1 (base kept) *)
let c05_valog body =
  match parse_many body with
  | [fs] ->
      let files = List.map (fun f -> match list f with
          | [p; l] -> (str_of p, las_of l) | _ -> failwith "file") (list fs) in
      let out = to_authorship_log files in
      let out = List.sort (fun (a, _) (b, _) -> compare (ints_of a) (ints_of b)) out in
      show (L (List.map show_fatt out)) ^ " 1"
  | _ -> failwith "c05-valog: bad case"

(* in: (PATH...) PATH LAS EXISTS   out: (PATH...) after upsert, then the new FATT or none *)
let c05_upsert body =
  match parse_many body with
  | [ps; p; l; ex] ->
      let atts = List.map (fun q -> (str_of q, [])) (list ps) in
      let path = str_of p in
      let out = upsert atts path (las_of l) (num ex <> 0) in
      let names = L (List.map (fun (q, _) -> show_str q) out) in
      let last = match List.rev out with
        | (q, es) :: _ when ints_of q = ints_of path && es <> [] -> show (show_fatt (q, es))
        | _ -> "none" in
      show names ^ " " ^ last
  | _ -> failwith "c05-upsert: bad case"

(* in: NOTE(bytes) TARGET(bytes)   out: (some BYTES) | none *)
let c05_remap body =
  match parse_many body with
  | [nt; tg] -> (match try_remap (str_of nt) (str_of tg) with
      | Some s -> show (L [Sym "some"; show_str s])
      | None -> "none")
  | _ -> failwith "c05-remap: bad case"

let tree_of x =
  List.map (fun e -> match list e with
      | [p; b] -> (List.map str_of (list p), n_of_int (num b))
      | _ -> failwith "tree entry") (list x)
let show_tree t =
  let t = List.sort compare (List.map (fun (p, b) -> (List.map ints_of p, int_of_n b)) t) in
  L (List.map (fun (p, b) -> L [L (List.map (fun c -> L (List.map (fun i -> N i) c)) p); N b]) t)

(* in: TREE ((SHA BLOB)...) (SHA...)
   out: (tree TREE') (lookup (SHA b|none)...) (git (SHA (b...))...) (unique b b') (le1 b b') (long b) *)
let c05_tree body =
  match parse_many body with
  | [t; es; qs] ->
      let t = tree_of t in
      let es = List.map (fun e -> match list e with
          | [s; b] -> (str_of s, n_of_int (num b)) | _ -> failwith "entry") (list es) in
      let t' = batch_write t es in
      let qs = List.map str_of (list qs) in
      let lk tr = L (Sym "lookup" :: List.map (fun q -> match lookup tr q with
          | Some b -> N (int_of_n b) | None -> Sym "none") qs) in
      let gl tr = L (Sym "git" :: List.map (fun q ->
          L (List.sort compare (List.map (fun b -> N (int_of_n b)) (git_lookup tr q)))) qs) in
      String.concat " " [
        show (L [Sym "tree"; show_tree t']);
        show (L [Sym "before"; lk t; gl t]);
        show (L [Sym "after"; lk t'; gl t']);
        show (L [Sym "unique"; Sym (bool_s (unique_keysb t)); Sym (bool_s (unique_keysb t'))]);
        show (L [Sym "le1"; Sym (bool_s (layout_le1 t)); Sym (bool_s (layout_le1 t'))]);
        show (L [Sym "long"; Sym (bool_s (long_keys t))]) ]
  | _ -> failwith "c05-tree: bad case"

(* in: (PRIMARY-PATHS) (SECONDARY-PATHS) (FINAL-PATHS)   (every input file carries its content)
   out: (PATH...) sorted — the files merge_attributions_favoring_first emits, with the skip read from the source *)
let c05_merge body =
  match parse_many body with
  | [p; s; f] ->
      let names x = List.map str_of (list x) in
      let pr = List.map (fun n -> (n, [])) (names p) and se = List.map (fun n -> (n, [])) (names s) in
      let fs = List.map (fun n -> (n, n_of_int 1)) (names f) in
      let own q = if List.exists (fun (n, _) -> ints_of n = ints_of q) (pr @ se) then Some (n_of_int 1) else None in
      let out = merge_favoring_first gn_merge_skips_absent (fun _ _ -> []) own pr se fs in
      let out = List.sort compare (List.map (fun (q, _) -> ints_of q) out) in
      show (L (List.map (fun q -> L (List.map (fun i -> N i) q)) out))
  | _ -> failwith "c05-merge: bad case"

let () = run_driver ["c05-path", c05_path; "c05-batchcheck", c05_batchcheck; "c05-att", c05_att;
                     "c05-valog", c05_valog; "c05-upsert", c05_upsert; "c05-remap", c05_remap;
                     "c05-tree", c05_tree; "c05-merge", c05_merge] []
