(* d_split.ml -- driver for Model/Split.v (C04).  Built as: sexp.ml m_split.ml (open M_split + prelude.ml + this file) *)
let nlist x = List.map (fun c -> n_of_int (num c)) (list x)
let show_nlist l = L (List.map (fun c -> N (int_of_n c)) l)
(* ATTRS = ((start end AUTHOR) ...) *)
let attrs_of x =
  List.map (fun a -> match list a with
      | [s; e; au] -> { la_start = n_of_int (num s); la_end = n_of_int (num e); la_author = str_of au }
      | _ -> failwith "attr") (list x)
let show_range = function
  | LSingle a -> L [Sym "s"; N (int_of_n a)]
  | LRange (a, b) -> L [Sym "r"; N (int_of_n a); N (int_of_n b)]
let show_note note =
  L (Sym "note" :: List.map (fun (a, rs) -> L (show_str a :: List.map show_range rs)) note)
let show_init ini =
  L (Sym "init" :: List.map (fun la -> L [show_str la.la_author; N (int_of_n la.la_start); N (int_of_n la.la_end)]) ini)
let show_res = function
  | SPanic -> "panic"
  | SOk (note, ini) -> show (show_note note) ^ " " ^ show (show_init ini)

let hunks_of_sx x =
  List.map (fun h -> match list h with
      | [o; s; n] -> ((n_of_int (num o), n_of_int (num s)), n_of_int (num n))
      | _ -> failwith "hunk") (list x)
let show_hunks hs =
  L (List.map (fun ((o, s), n) -> L [N (int_of_n o); N (int_of_n s); N (int_of_n n)]) hs)

(* in: ATTRS COMMITTED UNSTAGED HUNKS   (HUNKS = ((old_count new_start new_count) ...))
   out: (note (AUTHOR RANGE...)...) (init (AUTHOR start end)...) | panic *)
let c04_split body =
  match parse_many body with
  | [a; k; u; h] -> show_res (split_file (attrs_of a) (nlist k) (nlist u) (hunks_of_sx h))
  | _ -> failwith "c04-split: bad case"

(* in: P C W ATTRS
   out: (committed ..) (unstaged ..) (hunks ..) RES (wf3 b) (awf b) (nohidden b) (v panic note_ok init_ok nodup) *)
let c04_spec body =
  match parse_many body with
  | [p; c; w; a] ->
      let p = nlist p and c = nlist c and w = nlist w and a = attrs_of a in
      let r = run_spec p c w a in
      let v = spec_verdict p c w a r in
      Printf.sprintf "%s %s %s %s (wf3 %s) (awf %s) (nohidden %s) (v %s %s %s %s)"
        (show (L [Sym "committed"; show_nlist (committed p c)]))
        (show (L [Sym "unstaged"; show_nlist (unstaged c w)]))
        (show (L [Sym "hunks"; show_hunks (hunks_of c w)]))
        (show_res r)
        (bool_s (wf3 p c w)) (bool_s (attrs_wfb w a)) (bool_s (no_hidden p c w))
        (bool_s v.v_panic) (bool_s v.v_note_ok) (bool_s v.v_init_ok) (bool_s v.v_nodup)
  | _ -> failwith "c04-spec: bad case"

(* in: ATTRS   out: (note ...)  -- to_authorship_log for one file *)
let c04_log body =
  match parse_many body with
  | [a] -> show (show_note (log_of_attrs (attrs_of a)))
  | _ -> failwith "c04-log: bad case"

(* in: LINES   out: ranges of compress_lines, then expand of them *)
let c04_compress body =
  match parse_many body with
  | [l] -> let rs = compress_lines (nlist l) in
      show (L (List.map show_range rs)) ^ " " ^ show (show_nlist (List.concat_map expand rs))
  | _ -> failwith "c04-compress: bad case"

let () = run_driver ["c04-split", c04_split; "c04-spec", c04_spec; "c04-log", c04_log; "c04-compress", c04_compress] []
