(* d_remap.ml — driver for Model/Remap.v (C15).  Built as: sexp.ml m_remap.ml (open M_remap + prelude.ml + this file) *)
let rec nat_of_int (k : int) : nat = if k <= 0 then O else S (nat_of_int (k - 1))

let rec_of x = match list x with
  | [a; b; c; d; e; p; p2] ->
      { r_omode = str_of a; r_nmode = str_of b; r_ooid = str_of c; r_noid = str_of d; r_status = str_of e;
        r_path = str_of p;
        r_path2 = (match list p2 with [] -> None | [q] -> Some (str_of q) | _ -> failwith "path2") }
  | _ -> failwith "rec"
let sec_of x = match list x with
  | [h; rs] -> { s_header = str_of h; s_recs = List.map rec_of (list rs) }
  | _ -> failwith "sec"
let show_rec r =
  L [show_str r.r_omode; show_str r.r_nmode; show_str r.r_ooid; show_str r.r_noid; show_str r.r_status;
     show_str r.r_path; (match r.r_path2 with None -> L [] | Some q -> L [show_str q])]
let show_sec d = L [show_str d.s_header; L (List.map show_rec d.s_recs)]

(* in: OUT NPAIRS    out: 1|0 *)
let c15_cmp body =
  match parse_many body with
  | [o; n] -> bool_s (matches (str_of o) (nat_of_int (num n)))
  | _ -> failwith "c15-cmp: bad case"

(* in: DS TRACKED    out: (out BYTES) (lim BYTES) (ok b) (m b)   m = matches (print (limit tracked ds)) (length ds) *)
let c15_print body =
  match parse_many body with
  | [ds; tr] ->
      let ds = List.map sec_of (list ds) in
      let tr = List.map str_of (list tr) in
      let lim = print_out (limit tr ds) in
      Printf.sprintf "%s %s (ok %s) (m %s)"
        (show (L [Sym "out"; show_str (print_out ds)])) (show (L [Sym "lim"; show_str lim]))
        (bool_s (out_ok ds)) (bool_s (matches lim (nat_of_int (List.length ds))))
  | _ -> failwith "c15-print: bad case"

(* in: OUT    out: (ok SECS) (rt b) (wf b) | none *)
let c15_gram body =
  match parse_many body with
  | [o] ->
      let o = str_of o in
      (match parse_out o with
       | None -> "none"
       | Some ds ->
           Printf.sprintf "%s (rt %s) (wf %s)" (show (L (Sym "ok" :: List.map show_sec ds)))
             (bool_s (print_out ds = o)) (bool_s (out_ok ds)))
  | _ -> failwith "c15-gram: bad case"

(* in: NOTE TARGET
   out: (try none|(some BYTES)) (wf b) (hb b) (rb BYTES) (sc none|(some BYTES)) (un none|(some BYTES)) (ms b)
   try = the shape the source has now; sc / un = repaired / historical shape; ms = meta_split s = split_note s *)
let c15_remap body =
  match parse_many body with
  | [s; t] ->
      let s = str_of s and t = str_of t in
      let o = function None -> Sym "none" | Some r -> L [Sym "some"; show_str r] in
      Printf.sprintf "%s (wf %s) (hb %s) %s %s %s (ms %s)" (show (L [Sym "try"; o (try_remap s t)])) (bool_s (wf_note s))
        (bool_s (has_base_field s)) (show (L [Sym "rb"; show_str (replace_base s t)]))
        (show (L [Sym "sc"; o (try_remap_scoped s t)])) (show (L [Sym "un"; o (remap_in s t)]))
        (bool_s (meta_split s = split_note s))
  | _ -> failwith "c15-remap: bad case"

(* out: 1 when the source has the repaired shape *)
let c15_fact _ = bool_s remap_below_divider

(* in: (CONTENT ...) code points of commit objects
   out: ((tree (parent)?) ...) as scanned by the source's loop, then (spec ...) the header-only reading *)
let c15_meta body =
  match parse_many body with
  | [cs] ->
      let one f c = let (t, p) = f (str_of c) in
        L [show_str t; (match p with None -> L [] | Some q -> L [show_str q])] in
      show (L (List.map (one commit_meta) (list cs))) ^ " " ^
      show (L (Sym "spec" :: List.map (one header_meta) (list cs)))
  | _ -> failwith "c15-meta: bad case"

let () = run_driver ["c15-cmp", c15_cmp; "c15-print", c15_print; "c15-gram", c15_gram; "c15-remap", c15_remap; "c15-fact", c15_fact; "c15-meta", c15_meta] []
