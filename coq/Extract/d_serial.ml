(* d_serial.ml — driver for Model/Serial.v (C17).  Built as: sexp.ml m_serial.ml (open M_serial + prelude.ml + this file) *)
(* ---------------- C17 ---------------- *)
let range_of x = match list x with
  | [Sym "s"; a] -> Single (n_of_int (num a))
  | [Sym "r"; a; b] -> Range (n_of_int (num a), n_of_int (num b))
  | _ -> failwith "range"
let atts_of x =
  List.map (fun f -> match list f with
      | p :: es ->
          { f_path = str_of p;
            f_entries = List.map (fun e -> match list e with
                | h :: rs -> { e_hash = str_of h; e_ranges = List.map range_of rs }
                | [] -> failwith "entry") es }
      | [] -> failwith "fatt") (list x)
let show_range = function
  | Single a -> L [Sym "s"; N (int_of_n a)]
  | Range (a, b) -> L [Sym "r"; N (int_of_n a); N (int_of_n b)]
let show_atts fs =
  L (List.map (fun f ->
      L (show_str f.f_path ::
         List.map (fun e -> L (show_str e.e_hash :: List.map show_range e.e_ranges)) f.f_entries)) fs)
let show_res = function
  | Ok l -> show (L [Sym "ok"; show_atts l.atts])
  | Err -> "err"
  | Panic -> "panic"

(* in: ATTS MD   out: (ser CPS) RES (wf b) (norm ATTS) *)
let c17_rt body =
  match parse_many body with
  | [a; m] ->
      let l = { atts = atts_of a; md = str_of m } in
      let s = serialize l in
      Printf.sprintf "%s %s (wf %s) %s"
        (show (L [Sym "ser"; show_str s])) (show_res (deserialize s))
        (bool_s (wf_log l)) (show (L [Sym "norm"; show_atts (normalize l).atts]))
  | _ -> failwith "c17-rt: bad case"

(* in: TEXT   out: (ok ATTS) (md CPS) | err | panic *)
let c17_de body =
  match parse_many body with
  | [t] -> (match deserialize (str_of t) with
      | Ok l -> show (L [Sym "ok"; show_atts l.atts]) ^ " " ^ show (L [Sym "md"; show_str l.md])
      | Err -> "err" | Panic -> "panic")
  | _ -> failwith "c17-de: bad case"

let ws_table () =
  for c = 0 to 0x10FFFF do
    if not (c >= 0xD800 && c <= 0xDFFF) && is_ws (n_of_int c) then Printf.printf "%d\n" c
  done

let () = run_driver ["c17-rt", c17_rt; "c17-de", c17_de] ["ws-table", ws_table]
