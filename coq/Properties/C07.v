(* Properties/C07.v — a failure inside git-ai never damages or silently alters a git operation.
   Statements only.  Layer covered by theorems: the proxy's control flow under ARBITRARY behaviour of
   the hook bodies (Ok, Err, panic) and of the child (any exit code, any signal):
   - dichotomy: git runs with the expected arguments and its own status is what the caller gets, or
     the wrapper refuses before git starts with a non-zero status (only `commit`, only through the
     pre-commit exit site);
   - the wrapper never dies before git runs.  This was false before fix (GenProxy.storage_init_panics):
     a repository whose private directory cannot be prepared killed every wrapped command.
   The hypothesis hook_cannot_exit is what the translator reads from the source (no process::exit in any
   hook body except the commit pre hook).  That repository state after an injected failure / kill /
   corruption equals what plain git produces is decided by the fault-injection runs of the check. *)
From Coq Require Import List NArith Bool.
From Verif Require Import Base.Str Gen.GenProxy Model.Proxy Proofs.ProxyProofs.
Import ListNotations.
Open Scope N_scope.

Theorem C07_dichotomy : forall f, hook_cannot_exit f ->
  (exists hp argv pr, handle_git f = Ran hp argv (f_child f) pr
       /\ (argv = f_argv_user f \/ argv = f_argv_parsed f \/ Some argv = f_argv_alias f)
       /\ hp = (if f_completion f then None else
                if is_cmd (f_command f) c_clone && negb (f_is_help f) && f_allowed f then None else hooks_override f))
  \/ (handle_git f = Refused commit_pre_hook_exit_code /\ commit_pre_hook_exit_code <> 0
      /\ is_cmd (f_command f) c_commit = true).
Proof. exact dichotomy. Qed.
Print Assumptions C07_dichotomy.

Theorem C07_status_after_git : forall f hp argv st pr,
  handle_git f = Ran hp argv st pr -> st = f_child f /\ wrapper_exit (handle_git f) = f_child f.
Proof. exact status_after_git. Qed.
Print Assumptions C07_status_after_git.

Theorem C07_never_dies_before_git : forall f, hook_cannot_exit f -> handle_git f <> Died.
Proof. exact never_dies. Qed.
Print Assumptions C07_never_dies_before_git.

Theorem C07_source_has_no_other_exit_site : other_hook_exit_sites = 0 /\ pre_hooks_guarded = true
  /\ post_hooks_guarded = true /\ storage_init_panics = false.
Proof. repeat split. Qed.
Print Assumptions C07_source_has_no_other_exit_site.

Example C07_nonvacuous : handle_git wit_refuse = Refused 1 /\ handle_git wit_commit = Ran (Some null_hooks) [c_commit] (Exited 0) true.
Proof. split; [exact wit_refuse_refuses|exact wit_commit_runs]. Qed.
