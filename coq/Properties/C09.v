(* Properties/C09.v -- AI blame is git blame plus the notes, in every output format.
   Only statements; every proof is `exact <lemma>` followed by Print Assumptions.

   Model (Model/Blame.v): the inline parser of `git blame --line-porcelain` output, hunk
   splitting by AI human author, get_line_attribution and the overlay, the JSON grouping,
   the -L argument reader and the range validation.  git itself (which commit a line comes
   from, under which options) is the environment: its statement about the file is the list
   of blame groups `es` that print_line_porcelain prints.

   Full-strength statement (every history, every file), C09_overlay_spec:
       forall dq o notes foreign path es, wf_entries es = true -> names_agree dq es ->
         blame_lines dq o notes foreign path (print_line_porcelain es)
         = Ok (map (spec_line o notes foreign) (glines es))
   where spec_line looks a line up in the note of its commit under the path the file had IN THAT
   COMMIT (porcelain `filename`) and its original line number, last listing entry with a prompt
   record winning.  The requested path plays no role (C09_path_independent): renaming a file without
   editing it changes no line's attribution.  [Before the repair of the lookup path this statement
   was false of the code: the note was looked up under the requested path and `filename` was never
   read.]  names_agree is the environment fact that utils::unescape_git_path undoes git's C-style
   quoting of the paths it prints (its quoted branch is the parameter dq; monitored on every real
   porcelain text).
   -L arguments: `n` is n to the end of the file and `n,+k` is k lines from n, as git reads them
   (C09_single_number_range, C09_plus_count_range).  One deviation of the command line from git
   remains and is stated as a fact of the model: an empty file is rejected
   (C09_empty_file_rejected; git prints nothing and exits 0; an existing test pins the error). *)
From Coq Require Import List NArith Bool.
From Verif Require Import Base.Str Base.RangeSet Gen.GenBlame Model.Serial Model.Blame Proofs.BlameProofs.
Import ListNotations.
Open Scope N_scope.

(* every line is assigned the commit, original line and final line that git printed *)
Theorem C09_porcelain_roundtrip :
  forall dq es, wf_entries es = true -> names_agree dq es ->
    parse_line_porcelain dq (print_line_porcelain es) = Ok (map hunk_of_entry es).
Proof. exact porcelain_roundtrip. Qed.
Print Assumptions C09_porcelain_roundtrip.

Theorem C09_same_commit :
  forall es, wf_entries es = true ->
    flat_map hunk_lines (map hunk_of_entry es) = map bline_of_gline (glines es).
Proof. exact roundtrip_lines. Qed.
Print Assumptions C09_same_commit.

(* splitting hunks by AI human author never changes which commit / original line a line has *)
Theorem C09_split_preserves_lines :
  forall split notes foreign path hs, Forall hunk_wf hs ->
    flat_map hunk_lines (split_hunks split notes foreign path hs) = flat_map hunk_lines hs.
Proof. exact split_hunks_lines. Qed.
Print Assumptions C09_split_preserves_lines.

(* the reverse scan of get_line_attribution = the last listing entry in file order *)
Theorem C09_attribution_reverse_scan :
  forall log foreign path line,
    get_line_attribution log foreign path line = note_attribution log foreign path line.
Proof. exact attribution_is_note_attribution. Qed.
Print Assumptions C09_attribution_reverse_scan.

Theorem C09_later_entry_wins :
  forall log foreign path line h p,
    note_attribution log foreign path line = Some (h, p) <->
    exists fa pre e post,
      first_att log path = Some fa /\ f_entries fa = pre ++ e :: post
      /\ entry_contains e line = true /\ e_hash e = h /\ find_prompt log foreign h = Some p
      /\ (forall e', In e' post -> ~ listed log foreign e' line).
Proof. exact later_entry_wins. Qed.
Print Assumptions C09_later_entry_wins.

Theorem C09_not_listed_is_human :
  forall log foreign path line,
    note_attribution log foreign path line = None <->
    (first_att log path = None \/
     exists fa, first_att log path = Some fa /\ forall e, In e (f_entries fa) -> ~ listed log foreign e line).
Proof. exact not_listed_is_human. Qed.
Print Assumptions C09_not_listed_is_human.

(* the pipeline on git's output = the specification, whatever path was requested *)
Theorem C09_overlay_spec :
  forall dq o notes foreign path es,
    wf_entries es = true -> names_agree dq es ->
    blame_lines dq o notes foreign path (print_line_porcelain es)
    = Ok (map (spec_line o notes foreign) (glines es)).
Proof. exact overlay_spec. Qed.
Print Assumptions C09_overlay_spec.

(* renaming a file without editing it changes no line's attribution *)
Theorem C09_path_independent :
  forall dq o notes foreign path path' es,
    wf_entries es = true -> names_agree dq es ->
    blame_lines dq o notes foreign path (print_line_porcelain es)
    = blame_lines dq o notes foreign path' (print_line_porcelain es).
Proof. exact path_independent. Qed.
Print Assumptions C09_path_independent.

(* --json: expanding the a-b keys gives back the AI lines, also under a -L restriction *)
Theorem C09_json_expand :
  forall ai, (forall kv, In kv ai -> fst kv <= u32_max) -> expand_json (json_lines ai) = Some ai.
Proof. exact json_expand. Qed.
Print Assumptions C09_json_expand.

Theorem C09_json_restrict :
  forall rs ai, (forall kv, In kv ai -> fst kv <= u32_max) ->
    expand_json (json_lines (restrict rs ai)) = option_map (restrict rs) (expand_json (json_lines ai)).
Proof. exact json_restrict. Qed.
Print Assumptions C09_json_restrict.

Theorem C09_json_output_expands :
  forall o notes foreign path bl,
    (forall b, In b bl -> bl_final b <= u32_max) ->
    expand_json (json_lines (json_ai_lines o notes foreign path bl))
    = Some (json_ai_lines o notes foreign path bl).
Proof. exact json_output_expands. Qed.
Print Assumptions C09_json_output_expands.

(* --json and the author column of the default format agree line by line, for any set of lines
   (in particular the lines left by a -L restriction) *)
Theorem C09_json_default_agree :
  forall o notes foreign path bl,
    NoDup (map bl_final bl) ->
    names_not_hashes o notes foreign path bl ->
    forall b, In b bl ->
      match attribution_of notes foreign path b with
      | Some (h, p) =>
          In (bl_final b, h) (json_ai_lines o notes foreign path bl)
          /\ default_column o notes foreign path bl b = p_tool p
      | None =>
          (forall h, ~ In (bl_final b, h) (json_ai_lines o notes foreign path bl))
          /\ default_column o notes foreign path bl b = fallback_name (tool_opts o) notes b
      end.
Proof. exact json_default_agree. Qed.
Print Assumptions C09_json_default_agree.

(* git is only ever asked for ranges inside the file *)
Theorem C09_ranges_validated :
  forall total requested rs,
    prepare_ranges total requested = Ok rs ->
    forall r, In r rs -> 1 <= fst r /\ fst r <= snd r /\ snd r <= total.
Proof. exact ranges_validated. Qed.
Print Assumptions C09_ranges_validated.

Theorem C09_empty_file_rejected : prepare_ranges 0 [] = Err.
Proof. exact empty_file_rejected. Qed.
Print Assumptions C09_empty_file_rejected.

(* the default range, the open `-L n` end and the validation are sized by the content of the revision
   that git blames (--json: HEAD unless a revision is given; otherwise the working copy) *)
Theorem C09_request_sized_by_blamed_revision :
  forall count json newest requested rs,
    prepare_request count json newest requested = Ok rs ->
    forall r, In r rs -> 1 <= fst r /\ fst r <= snd r /\ snd r <= count (effective_revision json newest).
Proof. exact request_sized_by_blamed_revision. Qed.
Print Assumptions C09_request_sized_by_blamed_revision.

Theorem C09_default_range_whole_revision :
  forall count json newest,
    1 <= count (effective_revision json newest) ->
    prepare_request count json newest [] = Ok [(1, count (effective_revision json newest))].
Proof. exact default_range_whole_revision. Qed.
Print Assumptions C09_default_range_whole_revision.

Theorem C09_single_number_range :
  forall count json newest n,
    let total := count (effective_revision json newest) in
    1 <= n -> n <= total -> total < u32_max ->
    exists r, parse_line_range (print_N n) = Some r /\ prepare_request count json newest [r] = Ok [(n, total)].
Proof. exact single_number_range. Qed.
Print Assumptions C09_single_number_range.

Theorem C09_plus_count_range :
  forall n k, 1 <= k -> k <= u32_max -> n + (k - 1) <= u32_max ->
    parse_line_range (print_N n ++ [c_comma; c_plus] ++ print_N k) = Some (n, n + (k - 1)).
Proof. exact plus_count_range. Qed.
Print Assumptions C09_plus_count_range.

(* ---- non-vacuity ---- *)
Example C09_nonvacuous :
  wf_entries w_plain = true
  /\ names_agree w_dq w_plain
  /\ blame_lines w_dq w_opts w_notes w_foreign w_f (print_line_porcelain w_plain)
     = Ok [mkOline 1 w_user None; mkOline 2 w_h1 (Some w_h1); mkOline 3 w_h2 (Some w_h2);
           mkOline 4 w_user None; mkOline 5 w_user None].
Proof. exact nonvacuous_plain. Qed.

Example C09_rename_keeps_attribution :
  blame_lines w_dq w_opts w_notes w_foreign w_g (print_line_porcelain w_renamed)
  = Ok [mkOline 1 w_user None; mkOline 2 w_h1 (Some w_h1); mkOline 3 w_h2 (Some w_h2); mkOline 4 w_user None].
Proof. exact rename_keeps_attribution. Qed.

Example C09_nonvacuous_json :
  json_lines (ai_lines [(1, w_user); (2, w_h1); (3, w_h1); (4, w_h2); (6, w_h2)] [w_h1; w_h2])
  = [([50; 45; 51], w_h1); ([52], w_h2); ([54], w_h2)].
Proof. exact nonvacuous_json. Qed.

Example C09_nonvacuous_split :
  blame_hunks w_dq w_opts w_notes w_foreign w_f (print_line_porcelain w_plain)
  = Ok [mkHunk 1 1 1 1 w_sha1 w_user true None w_f; mkHunk 2 2 2 2 w_sha1 w_user true (Some w_user) w_f;
        mkHunk 3 4 3 4 w_sha1 w_user true None w_f; mkHunk 5 5 1 1 w_sha2 w_user false None w_f].
Proof. exact nonvacuous_split. Qed.
