(* Properties/C19.v -- commit statistics add up and agree with the note and the diff.
   Only statements; every proof is `exact <lemma>` followed by Print Assumptions.
   Statements are pinned in /verif/statements.lock.

   The model describes stats.rs with the repairs of the findings C19-K1 (per-tool cap), C19-K2
   (a line listed twice counts once) and C19-K4 (saturating counters).

   Objects.  commit_stats m ignored n raw is_merge ga gd is steps 3-5 of stats_for_commit_stats:
   n the note (None = no note), raw the map path -> added line numbers that repo.diff_added_lines
   returns, ga / gd the numstat totals, m the behaviour of the remaining plain `+` on u32
   (Checked = panic on overflow, Wrapping = wrap around).  stats_for_commit prepends the numstat
   loop.  added_count ignored raw = number of distinct added lines of the non-ignored files;
   attributed ignored n raw p x = line x of the non-ignored file p was added by the commit and the
   note attributes it to AI.

   Hypotheses the proofs force, per theorem (the note may be ANY note: overlapping sessions,
   duplicate sections, inverted ranges are all covered):
     accepted <= added, human + accepted = added, ai <= added :
         ga = added_count (numstat agrees with the diff) and ga is a u32
     ai = accepted + mixed : ga is a u32, nothing else
     accepted = cardinality of the attributed set : added_count is a u32, not a merge commit
         (for a merge commit accepted is 0 by the short cut in the code: C19_merge_accepted_zero)
     per-tool mixed sums to the total : nothing
     per-tool accepted sums to the total : note_prompts_present, added_count is a u32
     per-tool ai_additions sum to the total and none exceeds added : the two above and the agreement
     per-tool generated / deleted sums : the totals fit in a u32 (they saturate otherwise)
     no panic : added_count and ga are u32
     numstat totals : git prints one `added TAB deleted TAB path` row per file (`-` for binary),
         paths without newline / tab / trailing CR (others are quoted by git), totals fit in a u32
   Still false of the model (open finding C19-K3): C19_missing_prompt_refuted, a session without
   prompt record is in no tool's breakdown, so note_prompts_present is necessary for the per-tool
   accepted sum. *)
From Coq Require Import List NArith Bool.
From Verif Require Import Base.Str Model.Stats Proofs.StatsProofs.
Import ListNotations.
Open Scope N_scope.

Theorem C19_accepted_le_added :
  forall m ignored n raw is_merge ga gd s,
    commit_stats m ignored n raw is_merge ga gd = SOk s ->
    added_count ignored raw <= u32_max -> ga = added_count ignored raw ->
    s_accepted s <= s_added s.
Proof. exact accepted_le_added. Qed.
Print Assumptions C19_accepted_le_added.

Theorem C19_human_plus_accepted_eq_added :
  forall m ignored n raw is_merge ga gd s,
    commit_stats m ignored n raw is_merge ga gd = SOk s ->
    added_count ignored raw <= u32_max -> ga = added_count ignored raw ->
    s_human s + s_accepted s = s_added s.
Proof. exact human_plus_accepted. Qed.
Print Assumptions C19_human_plus_accepted_eq_added.

Theorem C19_ai_eq_accepted_plus_mixed :
  forall m ignored n raw is_merge ga gd s,
    commit_stats m ignored n raw is_merge ga gd = SOk s -> ga <= u32_max ->
    s_ai_additions s = s_accepted s + s_mixed s.
Proof. exact ai_eq_accepted_plus_mixed. Qed.
Print Assumptions C19_ai_eq_accepted_plus_mixed.

Theorem C19_ai_le_added :
  forall m ignored n raw is_merge ga gd s,
    commit_stats m ignored n raw is_merge ga gd = SOk s ->
    added_count ignored raw <= u32_max -> ga = added_count ignored raw ->
    s_ai_additions s <= s_added s.
Proof. exact ai_le_added. Qed.
Print Assumptions C19_ai_le_added.

(* accepted is the cardinality of the set of added lines that the note attributes to AI,
   for ANY note *)
Theorem C19_accepted_is_intersection :
  forall m ignored n raw is_merge ga gd s,
    commit_stats m ignored n raw is_merge ga gd = SOk s ->
    added_count ignored raw <= u32_max -> is_merge = false ->
    exists G, NoDup G /\ (forall p x, In (p, x) G <-> attributed ignored n raw p x) /\
              s_accepted s = N.of_nat (length G).
Proof. exact accepted_is_intersection. Qed.
Print Assumptions C19_accepted_is_intersection.

Theorem C19_tool_accepted_sums :
  forall m ignored n raw is_merge ga gd s,
    commit_stats m ignored n raw is_merge ga gd = SOk s ->
    added_count ignored raw <= u32_max -> olift note_prompts_present n = true ->
    sum_tools t_accepted (s_tools s) = s_accepted s.
Proof. exact tool_accepted_sums. Qed.
Print Assumptions C19_tool_accepted_sums.

(* formerly refuted (C19-K1): the breakdown is capped like the total *)
Theorem C19_tool_mixed_sums :
  forall m ignored n raw is_merge ga gd s,
    commit_stats m ignored n raw is_merge ga gd = SOk s ->
    sum_tools t_mixed (s_tools s) = s_mixed s.
Proof. exact tool_mixed_sums. Qed.
Print Assumptions C19_tool_mixed_sums.

Theorem C19_tool_ai_sums :
  forall m ignored n raw is_merge ga gd s,
    commit_stats m ignored n raw is_merge ga gd = SOk s ->
    added_count ignored raw <= u32_max -> ga = added_count ignored raw ->
    olift note_prompts_present n = true ->
    sum_tools t_ai_additions (s_tools s) = s_ai_additions s /\
    forall kt, In kt (s_tools s) -> t_ai_additions (snd kt) <= s_added s.
Proof. exact tool_ai_sums. Qed.
Print Assumptions C19_tool_ai_sums.

Theorem C19_tool_totals_sum :
  forall m ignored n raw is_merge ga gd s,
    commit_stats m ignored n raw is_merge ga gd = SOk s ->
    sumP p_total_add (note_prompts n) <= u32_max -> sumP p_total_del (note_prompts n) <= u32_max ->
    sum_tools t_total_add (s_tools s) = s_total_add s /\ sum_tools t_total_del (s_tools s) = s_total_del s.
Proof. exact tool_totals_sum. Qed.
Print Assumptions C19_tool_totals_sum.

Theorem C19_added_deleted_passthrough :
  forall m ignored n raw is_merge ga gd s,
    commit_stats m ignored n raw is_merge ga gd = SOk s -> s_added s = ga /\ s_deleted s = gd.
Proof. exact added_deleted_passthrough. Qed.
Print Assumptions C19_added_deleted_passthrough.

(* merge commits: accepted is 0 by the short cut of the code, every added line counts as human *)
Theorem C19_merge_accepted_zero :
  forall m ignored n raw ga gd s,
    commit_stats m ignored n raw true ga gd = SOk s ->
    s_accepted s = 0 /\ s_human s = s_added s /\ sum_tools t_accepted (s_tools s) = 0.
Proof. exact merge_accepted_zero. Qed.
Print Assumptions C19_merge_accepted_zero.

(* formerly refuted (C19-K4): with a diff that fits in a u32 nothing overflows, in either mode *)
Theorem C19_never_panics :
  forall m ignored n raw is_merge ga gd,
    added_count ignored raw <= u32_max -> ga <= u32_max ->
    exists s, commit_stats m ignored n raw is_merge ga gd = SOk s.
Proof. exact never_panics. Qed.
Print Assumptions C19_never_panics.

(* the numstat loop returns the totals of what git printed, minus the ignored files *)
Theorem C19_numstat_totals :
  forall m ignored rows, Forall row_ok rows ->
    sumN (row_added ignored) rows <= u32_max -> sumN (row_deleted ignored) rows <= u32_max ->
    parse_numstat m ignored (numstat_text rows)
    = SOk (sumN (row_added ignored) rows, sumN (row_deleted ignored) rows).
Proof. exact numstat_totals. Qed.
Print Assumptions C19_numstat_totals.

Theorem C19_numstat_never_panics :
  forall m ignored text, exists r, parse_numstat m ignored text = SOk r.
Proof. exact numstat_never_panics. Qed.
Print Assumptions C19_numstat_never_panics.

(* the witnesses of the former findings K1, K2 (two sessions / two sections) and K4 *)
Theorem C19_regressions : forall m,
  commit_stats m no_ignore wit_cap w_raw false 1 0
    = SOk (mkStats 0 0 1 1 1 0 0 1 [(w_key, mkTool 1 0 1 1 0)]) /\
  commit_stats m no_ignore wit_overlap w_raw false 1 0
    = SOk (mkStats 0 0 1 1 2 0 0 1 [(w_key, mkTool 1 0 1 1 0); ([117; 58; 58; 109], mkTool 0 0 0 1 0)]) /\
  commit_stats m no_ignore wit_dup w_raw false 1 0
    = SOk (mkStats 0 0 1 1 1 0 0 1 [(w_key, mkTool 1 0 1 1 0)]) /\
  commit_stats m no_ignore wit_ovf w_raw false 1 0
    = SOk (mkStats 0 0 1 1 2 0 0 1 [(w_key, mkTool 1 0 1 2 0)]).
Proof. exact regressions. Qed.
Print Assumptions C19_regressions.

Theorem C19_missing_prompt_refuted :
  exists n raw ga, olift note_prompts_present n = false /\ ga = added_count no_ignore raw /\ ga <= u32_max /\
    forall m, exists s, commit_stats m no_ignore n raw false ga 0 = SOk s /\
      sum_tools t_accepted (s_tools s) <> s_accepted s.
Proof. exact missing_prompt_refuted. Qed.
Print Assumptions C19_missing_prompt_refuted.

(* the two inputs of the model are produced without pairing of renamed paths: `git diff -U0` and
   `git show --numstat` both run with --no-renames (literal options read from the source by the
   translator, Gen/GenStats.v) *)
Theorem C19_inputs_unpaired : inputs_unpaired = true.
Proof. exact inputs_unpaired_true. Qed.
Print Assumptions C19_inputs_unpaired.

(* non-vacuity: a commit with two files (one ignored), two sessions of two tools listing one line
   twice, a human line, a binary file and an overridden line, through the whole of
   stats_for_commit_stats (numstat text included) *)
Theorem C19_nonvacuous :
  olift note_prompts_present nv_note = true /\ added_count nv_ignore nv_raw = 5 /\ inter_count nv_ignore nv_note nv_raw = 3 /\
  forall m, stats_for_commit m nv_ignore nv_text nv_note nv_raw false
    = SOk (mkStats 2 1 4 3 5 2 1 5
             [(w_key, mkTool 3 1 2 1 0); ([117; 58; 58; 109], mkTool 1 0 1 4 2)]).
Proof. exact nonvacuous. Qed.
Print Assumptions C19_nonvacuous.

Example C19_ex_numstat :
  parse_numstat Checked (fun p => str_eqb p [108]) (numstat_text [NumRow 5 1 [102]; NumRow 3 0 [108]; BinRow [98]])
  = SOk (5, 1).
Proof. vm_compute. reflexivity. Qed.

Example C19_ex_overlap : overlap_len (Range 4 8) [3; 5; 7; 9] = 2 /\ overlap_len (Single 5) [3; 5; 7] = 1 /\
  line_range_overlap (Range 8 4) [3; 5; 7; 9] = [].
Proof. vm_compute. split; [|split]; reflexivity. Qed.
