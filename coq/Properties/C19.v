(* Properties/C19.v -- commit statistics add up and agree with the note and the diff.
   Only statements; every proof is `exact <lemma>` followed by Print Assumptions.
   Statements are pinned in /verif/statements.lock.

   Objects.  commit_stats m ignored n raw is_merge ga gd is steps 3-5 of stats_for_commit_stats:
   n the note (None = no note), raw the map path -> added line numbers that repo.diff_added_lines
   returns, ga / gd the numstat totals, m the behaviour of `+` on u32 (Checked = panic on
   overflow, Wrapping = wrap around).  stats_for_commit prepends the numstat loop.
   added_count ignored raw = number of distinct added lines of the non-ignored files;
   inter_count ignored n raw = number of those lines that the note attributes to AI.

   Full-strength statement: for every commit (every n, raw, numstat text) all the equalities of
   the property hold.  It is FALSE of the faithful model in five ways, each a theorem below:
     C19_tool_mixed_refuted            the per-tool mixed_additions / ai_additions are not capped while
                                       the totals are (class Known_C19, finding C19-K1): holds for
                                       notes satisfying every hypothesis;
     C19_overlap_double_count_refuted  two sessions listing the same line are counted twice
                                       (hypothesis note_disjoint is necessary; ties C19 to C05);
     C19_duplicate_section_refuted     two sections for one file (note_paths_unique is necessary);
     C19_missing_prompt_refuted        a session without prompt record is in no tool's breakdown
                                       (note_prompts_present is necessary for the per-tool sum);
     C19_overflow_refuted              a prompt counter near u32::MAX panics (Checked) or yields a
                                       per-tool ai_additions that is not accepted + mixed (Wrapping).
   Hypotheses the proofs force, per theorem:
     accepted <= added, human + accepted = added, ai <= added :
         note_disjoint, note_paths_unique, ga = added_count (numstat agrees with the diff), ga u32
     ai = accepted + mixed : ga is a u32, nothing else
     accepted = intersection : note_disjoint, note_paths_unique, added_count u32, not a merge commit
         (for a merge commit accepted is 0 by the short cut in the code)
     per-tool accepted sums : note_ok (all three parts), added_count u32
     per-tool mixed / ai_additions sums : the above, ga = added_count, and Known_C19 = false
     per-tool generated / deleted sums : the totals fit in a u32
     numstat totals : git prints one `added TAB deleted TAB path` row per file (`-` for binary),
         paths without newline / tab / trailing CR (others are quoted by git), totals fit in a u32 *)
From Coq Require Import List NArith Bool.
From Verif Require Import Base.Str Model.Stats Proofs.StatsProofs.
Import ListNotations.
Open Scope N_scope.

Theorem C19_accepted_le_added :
  forall m ignored n raw is_merge ga gd s,
    commit_stats m ignored n raw is_merge ga gd = SOk s ->
    olift note_disjoint n = true -> olift note_paths_unique n = true ->
    ga = added_count ignored raw -> ga <= u32_max ->
    s_accepted s <= s_added s.
Proof. exact accepted_le_added. Qed.
Print Assumptions C19_accepted_le_added.

Theorem C19_human_plus_accepted_eq_added :
  forall m ignored n raw is_merge ga gd s,
    commit_stats m ignored n raw is_merge ga gd = SOk s ->
    olift note_disjoint n = true -> olift note_paths_unique n = true ->
    ga = added_count ignored raw -> ga <= u32_max ->
    s_human s + s_accepted s = s_added s.
Proof. exact human_plus_accepted. Qed.
Print Assumptions C19_human_plus_accepted_eq_added.

Theorem C19_ai_eq_accepted_plus_mixed :
  forall m ignored n raw is_merge ga gd s,
    commit_stats m ignored n raw is_merge ga gd = SOk s -> ga <= u32_max ->
    s_ai_additions s = s_accepted s + s_mixed s.
Proof. exact ai_eq_accepted_plus_mixed. Qed.
Print Assumptions C19_ai_eq_accepted_plus_mixed.

Theorem C19_ai_le_added :
  forall m ignored n raw is_merge ga gd s,
    commit_stats m ignored n raw is_merge ga gd = SOk s ->
    olift note_disjoint n = true -> olift note_paths_unique n = true ->
    ga = added_count ignored raw -> ga <= u32_max ->
    s_ai_additions s <= s_added s.
Proof. exact ai_le_added. Qed.
Print Assumptions C19_ai_le_added.

Theorem C19_accepted_is_intersection :
  forall m ignored n raw ga gd s,
    commit_stats m ignored n raw false ga gd = SOk s ->
    olift note_disjoint n = true -> olift note_paths_unique n = true ->
    added_count ignored raw <= u32_max ->
    s_accepted s = inter_count ignored n raw.
Proof. exact accepted_is_intersection. Qed.
Print Assumptions C19_accepted_is_intersection.

Theorem C19_tool_accepted_sums :
  forall m ignored n raw is_merge ga gd s,
    commit_stats m ignored n raw is_merge ga gd = SOk s ->
    onote_ok n = true -> added_count ignored raw <= u32_max ->
    sum_tools t_accepted (s_tools s) = s_accepted s.
Proof. exact tool_accepted_sums. Qed.
Print Assumptions C19_tool_accepted_sums.

Theorem C19_tool_mixed_sums_when_uncapped :
  forall m ignored n raw is_merge ga gd s,
    commit_stats m ignored n raw is_merge ga gd = SOk s ->
    onote_ok n = true -> ga = added_count ignored raw -> ga <= u32_max ->
    Known_C19 n ga (s_accepted s) = false ->
    sum_tools t_mixed (s_tools s) = s_mixed s /\ sum_tools t_ai_additions (s_tools s) = s_ai_additions s.
Proof. exact tool_mixed_sums_no_cap. Qed.
Print Assumptions C19_tool_mixed_sums_when_uncapped.

Theorem C19_tool_totals_sum :
  forall m ignored n raw is_merge ga gd s,
    commit_stats m ignored n raw is_merge ga gd = SOk s ->
    sumP p_total_add (note_prompts n) <= u32_max -> sumP p_total_del (note_prompts n) <= u32_max ->
    sum_tools t_total_add (s_tools s) = s_total_add s /\ sum_tools t_total_del (s_tools s) = s_total_del s.
Proof. exact tool_totals_sum. Qed.
Print Assumptions C19_tool_totals_sum.

Theorem C19_added_deleted_passthrough :
  forall m ignored n raw is_merge ga gd s,
    commit_stats m ignored n raw is_merge ga gd = SOk s -> s_added s = ga /\ s_deleted s = gd.
Proof. exact added_deleted_passthrough. Qed.
Print Assumptions C19_added_deleted_passthrough.

(* merge commits: accepted is 0 by the short cut of the code, every added line counts as human *)
Theorem C19_merge_accepted_zero :
  forall m ignored n raw ga gd s,
    commit_stats m ignored n raw true ga gd = SOk s ->
    s_accepted s = 0 /\ s_human s = s_added s /\ sum_tools t_accepted (s_tools s) = 0.
Proof. exact merge_accepted_zero. Qed.
Print Assumptions C19_merge_accepted_zero.

(* the numstat loop returns the totals of what git printed, minus the ignored files *)
Theorem C19_numstat_totals :
  forall m ignored rows, Forall row_ok rows ->
    sumN (row_added ignored) rows <= u32_max -> sumN (row_deleted ignored) rows <= u32_max ->
    parse_numstat m ignored (numstat_text rows)
    = SOk (sumN (row_added ignored) rows, sumN (row_deleted ignored) rows).
Proof. exact numstat_totals. Qed.
Print Assumptions C19_numstat_totals.

Theorem C19_tool_mixed_refuted :
  exists n raw ga, onote_ok n = true /\ ga = added_count no_ignore raw /\ ga <= u32_max /\
    forall m, exists s, commit_stats m no_ignore n raw false ga 0 = SOk s /\
      Known_C19 n ga (s_accepted s) = true /\
      sum_tools t_mixed (s_tools s) <> s_mixed s /\
      sum_tools t_ai_additions (s_tools s) <> s_ai_additions s /\
      s_added s < sum_tools t_ai_additions (s_tools s).
Proof. exact tool_mixed_refuted. Qed.
Print Assumptions C19_tool_mixed_refuted.

Theorem C19_overlap_double_count_refuted :
  exists n raw ga, olift note_disjoint n = false /\ olift note_paths_unique n = true /\
    olift note_prompts_present n = true /\ ga = added_count no_ignore raw /\ ga <= u32_max /\
    forall m, exists s, commit_stats m no_ignore n raw false ga 0 = SOk s /\
      s_added s < s_accepted s /\ s_human s + s_accepted s <> s_added s /\
      s_added s < s_ai_additions s /\ s_accepted s <> inter_count no_ignore n raw.
Proof. exact overlap_double_count_refuted. Qed.
Print Assumptions C19_overlap_double_count_refuted.

Theorem C19_duplicate_section_refuted :
  exists n raw ga, olift note_disjoint n = true /\ olift note_paths_unique n = false /\
    olift note_prompts_present n = true /\ ga = added_count no_ignore raw /\ ga <= u32_max /\
    forall m, exists s, commit_stats m no_ignore n raw false ga 0 = SOk s /\
      s_added s < s_accepted s /\ s_human s + s_accepted s <> s_added s /\ s_added s < s_ai_additions s.
Proof. exact duplicate_section_refuted. Qed.
Print Assumptions C19_duplicate_section_refuted.

Theorem C19_missing_prompt_refuted :
  exists n raw ga, olift note_disjoint n = true /\ olift note_paths_unique n = true /\
    olift note_prompts_present n = false /\ ga = added_count no_ignore raw /\ ga <= u32_max /\
    forall m, exists s, commit_stats m no_ignore n raw false ga 0 = SOk s /\
      sum_tools t_accepted (s_tools s) <> s_accepted s.
Proof. exact missing_prompt_refuted. Qed.
Print Assumptions C19_missing_prompt_refuted.

Theorem C19_overflow_refuted :
  exists n raw ga, onote_ok n = true /\ ga = added_count no_ignore raw /\ ga <= u32_max /\
    commit_stats Checked no_ignore n raw false ga 0 = SPanic /\
    exists s, commit_stats Wrapping no_ignore n raw false ga 0 = SOk s /\
      exists kt, In kt (s_tools s) /\ t_ai_additions (snd kt) <> t_accepted (snd kt) + t_mixed (snd kt).
Proof. exact overflow_refuted. Qed.
Print Assumptions C19_overflow_refuted.

(* non-vacuity: a commit with two files (one ignored), two sessions of two tools, a human line, a
   binary file and an overridden line, through the whole of stats_for_commit_stats (numstat
   text included): every hypothesis above holds and every number is non-trivial *)
Theorem C19_nonvacuous :
  onote_ok nv_note = true /\ added_count nv_ignore nv_raw = 5 /\ inter_count nv_ignore nv_note nv_raw = 3 /\
  Known_C19 nv_note 5 3 = false /\
  forall m, stats_for_commit m nv_ignore nv_text nv_note nv_raw false
    = SOk (mkStats 2 1 4 3 5 2 1 5
             [([116; 58; 58; 109], mkTool 3 1 2 1 0); ([117; 58; 58; 109], mkTool 1 0 1 4 2)]).
Proof. exact nonvacuous. Qed.
Print Assumptions C19_nonvacuous.

Example C19_ex_numstat :
  parse_numstat Checked (fun p => str_eqb p [108]) (numstat_text [NumRow 5 1 [102]; NumRow 3 0 [108]; BinRow [98]])
  = SOk (5, 1).
Proof. vm_compute. reflexivity. Qed.

Example C19_ex_overlap : overlap_len (Range 4 8) [3; 5; 7; 9] = 2 /\ overlap_len (Single 5) [3; 5; 7] = 1.
Proof. vm_compute. split; reflexivity. Qed.
