(* Properties/C10.v -- notes converge across clones and are never lost by sync.
   Only statements; every proof is `exact <lemma>` followed by Print Assumptions.

   Model: Model/Sync.v.  A notes ref is a node of a DAG kept in one append-only store; each of
   the n clones has refs/notes/ai (local) and refs/notes/ai-remote/origin (tracking); the remote
   has its tip.  Transitions: Commit c k v, FetchTracking r c, TestLocal r c, MergeLocal r c,
   PushRef r c (non-forced; a rejection is recorded in the clone's flag).  One round is
   attempt r c = [FetchTracking r c; TestLocal r c; MergeLocal r c; PushRef r c]; r = true marks
   the rounds of the retry loop of push_authorship_notes, which run only while the clone's
   latest push stands rejected.  FetchNotes c = the first three steps with r = false,
   PushNotes c = attempt false c ++ (NOTES_PUSH_ATTEMPTS - 1) x attempt true c; the sub-steps are separate
   transitions, so every interleaving with other clones' steps AND with the same clone's own
   commits is a schedule.  The existence test of refs/notes/ai is its own transition TestLocal c
   (result kept in pending); MergeLocal acts on that result (copy_ref = update-ref overwrites).
   The order of FetchTracking / TestLocal inside PushNotes / FetchNotes is read from the source
   (Gen/GenSync.v): today [FetchTracking; TestLocal; MergeLocal; PushRef], three rounds.

   Full-strength statement (property C10): for ANY schedule, once every clone has pushed and then
   fetched, all holders have, for every commit, the note its author wrote; no push or fetch
   deletes a note or replaces it by a note written for another commit.
   * The second half holds for all schedules and any number of clones: C10_no_loss.
   * The first half holds for every schedule in which each clone's final PushNotes runs without
     another step in between (then it always succeeds: C10_push_atomic_succeeds), for any prefix
     whatsoever (including earlier races and skipped pushes): C10_converge; the property's own
     suffix is C10_converge_sequential.
   * When pushes overlap a round is rejected (non-fast-forward); the loop goes round again, and
     a round is rejected only when some notes push falls between its fetch and its push
     (C10_rejected_only_when_pushes_overlap).  Hence, for ANY interleaving of other steps into a
     user-level push: if fewer of its rounds have a notes push inside them than it has rounds,
     the clone's notes are on the remote when the push returns (C10_retry_succeeds, any number of
     rounds); convergence then follows from C10_converge_from_pushed.  The bound is tight:
     C10_retry_budget_tight (three overlapping pushes exhaust three rounds; the note is missing
     until the next push).  The former witness of the silent skip now converges: C10_race_repaired.
   * Keys of a CLONE never disappear and convergence hold for schedules outside the copy window
     (no_commit_in_copy_window: no commit of clone c between an existence test of c that saw no
     notes ref and the copy acting on it -- in the code two consecutive git processes, show-ref
     and update-ref).  Inside it the note is lost for good: C10_copy_window_refuted (class K2).
     A commit of the same clone while the sync's fetch is in flight is OUTSIDE the window in the
     code's order: C10_commit_during_sync_safe (false when the test is hoisted above the fetch). *)
From Coq Require Import List NArith Bool.
From Verif Require Import Base.Str Gen.GenSync Model.Sync Proofs.SyncProofs.
Import ListNotations.

(* whatever any ref (remote tip, any clone's notes ref or tracking ref) holds for commit k was
   written FOR k by some clone; keys on the remote and in every clone never disappear; the
   ancestor test never runs out of fuel *)
Theorem C10_no_loss : forall (n : nat) (sched : list step),
  (forall o k v, In o (holders (run (init n) sched)) ->
     lookup k (map_of (store_of (run (init n) sched)) o) = Some v -> written n sched k v) /\
  (forall pre post k, sched = pre ++ post ->
     has_key k (remote_map (run (init n) pre)) = true -> has_key k (remote_map (run (init n) sched)) = true) /\
  (no_commit_in_copy_window n sched = true -> forall pre post c k, sched = pre ++ post ->
     has_key k (local_map (run (init n) pre) c) = true -> has_key k (local_map (run (init n) sched) c) = true) /\
  fuel_out (run (init n) sched) = false.
Proof. exact no_loss. Qed.
Print Assumptions C10_no_loss.

Theorem C10_single_writer_values : forall (n : nat) (sched : list step) o k v w,
  single_writer_per_key sched ->
  lookup k (map_of (store_of (run (init n) sched)) o) = Some v -> written n sched k w -> v = w.
Proof. exact single_writer_values. Qed.
Print Assumptions C10_single_writer_values.

(* after ANY prefix, a PushNotes of clone c whose three sub-steps are not interleaved succeeds:
   the remote tip is c's notes tip, it has every key c had and every key the remote had *)
Theorem C10_push_atomic_succeeds : forall (n : nat) (pre : list step) (c : nat), (c < n)%nat ->
  remote (run (init n) (pre ++ PushNotes c)) = local_of (run (init n) (pre ++ PushNotes c)) c /\
  (no_commit_in_copy_window n pre = true ->
   sub_keys (local_map (run (init n) pre) c) (remote_map (run (init n) (pre ++ PushNotes c)))) /\
  sub_keys (remote_map (run (init n) pre)) (remote_map (run (init n) (pre ++ PushNotes c))).
Proof. exact push_atomic_succeeds. Qed.
Print Assumptions C10_push_atomic_succeeds.

(* the exact extent of the known class: a notes push whose own pre-push fetch and merge were not
   followed by ANY notes push (whatever else all clones do in between, commits included) is never
   rejected -- a rejection needs another clone's push between this clone's fetch and push *)
Theorem C10_rejected_only_when_pushes_overlap :
  forall (n : nat) (pre : list step) (r : bool) (mid1 mid2 : list step) (c : nat),
  (c < n)%nat -> skip (run (init n) pre) r c = false ->
  no_push mid1 = true -> no_push mid2 = true ->
  no_commit_in_copy_window n (pre ++ [FetchTracking r c] ++ mid1 ++ [TestLocal r c; MergeLocal r c] ++ mid2) = true ->
  let s := run (init n) (pre ++ [FetchTracking r c] ++ mid1 ++ [TestLocal r c; MergeLocal r c] ++ mid2) in
  push_outcome s c = PCreated \/ push_outcome s c = PUpdated \/ push_outcome s c = PNoLocal.
Proof. exact no_reject_without_overlap. Qed.
Print Assumptions C10_rejected_only_when_pushes_overlap.

(* any prefix pre (any interleaving, races included); then a commit-free phase q1 in which every
   clone has an uninterleaved PushNotes somewhere, then a commit-free phase q2 in which every
   clone has an uninterleaved FetchNotes somewhere (anything else may happen in between):
   the remote and every clone hold exactly the union of all writes *)
Theorem C10_converge : forall (n : nat) (pre q1 q2 : list step),
  single_writer_per_key pre -> no_commit_in_copy_window n pre = true ->
  no_commit q1 = true -> no_commit q2 = true ->
  (forall c, (c < n)%nat -> has_block (PushNotes c) q1) ->
  (forall c, (c < n)%nat -> has_block (FetchNotes c) q2) ->
  same_map (remote_map (run (init n) (pre ++ q1 ++ q2))) (writes n pre) /\
  forall c, (c < n)%nat -> same_map (local_map (run (init n) (pre ++ q1 ++ q2)) c) (writes n pre).
Proof. exact converge. Qed.
Print Assumptions C10_converge.

Theorem C10_converge_sequential : forall (n : nat) (pre : list step),
  single_writer_per_key pre -> no_commit_in_copy_window n pre = true ->
  let s := run (init n) (pre ++ flat_map PushNotes (seq 0 n) ++ flat_map FetchNotes (seq 0 n)) in
  same_map (remote_map s) (writes n pre) /\
  forall c, (c < n)%nat -> same_map (local_map s c) (writes n pre).
Proof. exact converge_sequential. Qed.
Print Assumptions C10_converge_sequential.

(* when a git fetch / git pull through the proxy returns -- by whichever exit of the post hook --
   the clone has every note the remote had when the command started (the background notes fetch is
   joined on every exit: Gen/GenSync.v; false as soon as one exit does not join) *)
Theorem C10_pull_returns_synced : forall (n : nat) (pre : list step) (e : pull_exit) (c : nat), (c < n)%nat ->
  sub_keys (remote_map (run (init n) pre)) (local_map (run (init n) (pre ++ PullNotes e c)) c) /\
  sub_keys (remote_map (run (init n) pre)) (local_map (run (init n) (pre ++ FetchNotes c)) c).
Proof. exact (fun n pre e c H => conj (pull_returns_synced n pre e c H) (fetch_returns_synced n pre c H)). Qed.
Print Assumptions C10_pull_returns_synced.

(* one side without a notes ref takes the other side's tip (copy branch / creating push); holds
   in every state, reachable or not *)
Theorem C10_first_sync :
  (forall s c cl t, nth_error (clones s) c = Some cl -> local cl = None -> remote s = Some t ->
     local_of (run s (FetchNotes c)) c = Some t) /\
  (forall s c cl l, nth_error (clones s) c = Some cl -> local cl = Some l -> remote s = None ->
     remote (exec s (PushRef false c)) = Some l) /\
  (forall n q, remote (run (init n) q) = None ->
     forall c cl, nth_error (clones (run (init n) q)) c = Some cl -> tracking cl = None).
Proof. exact first_sync. Qed.
Print Assumptions C10_first_sync.

(* a user-level push spread over any interleaving: rounds (steps between the fetch and the
   test, steps between the merge and the push, steps after the round); foreign c ms: none of the
   interleaved steps is a notes push of c itself; overlaps ms: the rounds with a notes push inside *)
Theorem C10_retry_succeeds : forall (n : nat) (pre : list step) (c : nat) ms, (c < n)%nat ->
  foreign c ms = true ->
  no_commit_in_copy_window n (pre ++ spreads true c ms) = true ->
  (overlaps ms < length ms)%nat ->
  flag_of (run (init n) (pre ++ spreads true c ms)) c = false /\
  sub_keys (local_map (run (init n) pre) c) (remote_map (run (init n) (pre ++ spreads true c ms))).
Proof. exact retry_succeeds. Qed.
Print Assumptions C10_retry_succeeds.

Theorem C10_PushNotes_is_spreads :
  forall c, PushNotes c = spreads true c [([], [], []); ([], [], []); ([], [], [])].
Proof. exact PushNotes_spreads. Qed.
Print Assumptions C10_PushNotes_is_spreads.

Theorem C10_retry_budget_tight :
  overlaps [(busy 10, [], []); (busy 12, [], []); (busy 13, [], [])] = 3%nat /\
  no_commit_in_copy_window 2 exhausted = true /\
  flag_of (run (init 2) exhausted) 1 = true /\
  lookup 11 (remote_map (run (init 2) exhausted)) = None /\
  lookup 11 (remote_map (run (init 2) (exhausted ++ PushNotes 1))) = Some 101.
Proof. exact retry_exhausted. Qed.
Print Assumptions C10_retry_budget_tight.

(* convergence from the fact that every clone's notes reached the remote, however it came about
   (an uninterleaved PushNotes: C10_push_atomic_succeeds; an interleaved one: C10_retry_succeeds) *)
Theorem C10_converge_from_pushed : forall (n : nat) (pre q1 q2 : list step),
  single_writer_per_key pre -> no_commit_in_copy_window n pre = true ->
  no_commit q1 = true -> no_commit q2 = true ->
  (forall c, (c < n)%nat ->
     sub_keys (local_map (run (init n) pre) c) (remote_map (run (init n) (pre ++ q1)))) ->
  (forall c, (c < n)%nat -> has_block (FetchNotes c) q2) ->
  same_map (remote_map (run (init n) (pre ++ q1 ++ q2))) (writes n pre) /\
  forall c, (c < n)%nat -> same_map (local_map (run (init n) (pre ++ q1 ++ q2)) c) (writes n pre).
Proof. exact converge_from_pushed. Qed.
Print Assumptions C10_converge_from_pushed.

(* the former witness of the silent skip: both clones' first rounds overlap, the second clone's
   first push is rejected, its retry lands the note; after the fetches everybody has everything *)
Theorem C10_race_repaired :
  Known_C10 race2 = true /\
  single_writer_per_key race2_users /\
  fst (run_trace (init 2) race2)
    = [None; None; None; None; None; None; None; None; Some PCreated; Some PRejected] /\
  lookup 11 (remote_map (run (init 2) race2)) = None /\
  lookup 11 (remote_map (run (init 2) race2_users)) = Some 101 /\
  flag_of (run (init 2) race2_users) 1 = false /\
  (let s := run (init 2) (race2_users ++ FetchNotes 0 ++ FetchNotes 1) in
   canon (remote_map s) = canon (local_map s 0) /\ canon (local_map s 0) = canon (local_map s 1) /\
   lookup 10 (local_map s 1) = Some 100 /\ lookup 11 (local_map s 0) = Some 101).
Proof. exact race_repaired. Qed.
Print Assumptions C10_race_repaired.

(* the order of the sub-steps the theorems are about, as read from the source *)
Theorem C10_code_order : forall c,
  (forall r, attempt r c = [FetchTracking r c; TestLocal r c; MergeLocal r c; PushRef r c]) /\
  PushNotes c = attempt false c ++ attempt true c ++ attempt true c /\
  FetchNotes c = [FetchTracking false c; TestLocal false c; MergeLocal false c].
Proof. exact (fun c => conj (fun r => attempt_eq r c) (conj (PushNotes_eq c) (FetchNotes_eq c))). Qed.
Print Assumptions C10_code_order.

(* a commit of the SAME clone while its own push / fetch has its notes fetch in flight (before the
   fetch lands, or right after it) is outside the copy window and its note is kept *)
Theorem C10_commit_during_sync_safe : forall (n : nat) (pre : list step) (c : nat) k v, (c < n)%nat ->
  no_commit_in_copy_window n pre = true -> pending_of (run (init n) pre) c = None ->
  forall blk, In blk [PushNotes_commit_on_wire c k v; PushNotes_commit_after_fetch c k v;
                      FetchNotes_commit_on_wire c k v; FetchNotes_commit_after_fetch c k v] ->
  no_commit_in_copy_window n (pre ++ blk) = true /\
  has_key k (local_map (run (init n) (pre ++ blk)) c) = true.
Proof. exact commit_during_sync_safe. Qed.
Print Assumptions C10_commit_during_sync_safe.

(* inside the copy window the clone's own note is overwritten and lost everywhere, for good *)
Theorem C10_copy_window_refuted :
  no_commit_in_copy_window 2 window2 = false /\
  single_writer_per_key window2 /\
  lookup 11 (local_map (run (init 2) window2) 1) = None /\
  (let s := run (init 2) (window2 ++ flat_map PushNotes (seq 0 2) ++ flat_map FetchNotes (seq 0 2)) in
   lookup 11 (remote_map s) = None /\ lookup 11 (local_map s 0) = None /\
   lookup 11 (local_map s 1) = None).
Proof. exact copy_window_refuted. Qed.
Print Assumptions C10_copy_window_refuted.

(* multi-writer keys are outside the claim; what -s ours does is documented by an example *)
Theorem C10_ours_example :
  lookup 10 (remote_map (run (init 2) ([Commit 0 10 100; Commit 1 10 200] ++ PushNotes 0 ++ PushNotes 1))) = Some 200 /\
  lookup 10 (local_map (run (init 2) multi) 0) = Some 200 /\
  lookup 10 (local_map (run (init 2) multi) 1) = Some 200.
Proof. exact ours_example. Qed.
Print Assumptions C10_ours_example.

(* non-vacuity: three clones, a race between 1 and 2 after 0 pushed; the hypotheses of
   C10_converge are satisfiable and the conclusion is what one computes *)
Theorem C10_nonvacuous :
  single_writer_per_key race3 /\
  existsb rejected (fst (run_trace (init 3) race3)) = true /\
  Known_C10 race3 = true /\
  lookup 11 (remote_map (run (init 3) race3)) = None /\
  (let s := run (init 3) (race3 ++ flat_map PushNotes (seq 0 3) ++ flat_map FetchNotes (seq 0 3)) in
   canon (remote_map s) = canon (local_map s 0) /\ canon (local_map s 0) = canon (local_map s 1) /\
   canon (local_map s 1) = canon (local_map s 2) /\
   lookup 10 (remote_map s) = Some 100 /\ lookup 11 (remote_map s) = Some 101 /\
   lookup 12 (remote_map s) = Some 102 /\ fuel_out s = false).
Proof. exact race3_example. Qed.
Print Assumptions C10_nonvacuous.

Example C10_writes_race3 : canon (writes 3 race3) = [(10, 100); (11, 101); (12, 102)].
Proof. vm_compute. reflexivity. Qed.
