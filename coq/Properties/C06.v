(* Properties/C06.v — running git through git-ai is indistinguishable from running git.
   Statements only.  Layer covered by theorems: the proxy's control flow (Model/Proxy.v): which argument
   vector reaches git, with which extra `-c core.hooksPath=...`, and which status the caller sees.
   That the vector equals what the user typed (up to the documented help/version normalisation) is
   C18's subject (f_argv_parsed = to_invocation_vec (parse argv)).  Equality of stdout, refs, index,
   work tree, stash, in-progress state and user-hook effects is decided by the twin-repository
   differential of the check (git is the environment). *)
From Coq Require Import List NArith Bool.
From Verif Require Import Base.Str Gen.GenProxy Model.Proxy Proofs.ProxyProofs.
Import ListNotations.
Open Scope N_scope.

Theorem C06_status : forall f hp argv st pr,
  handle_git f = Ran hp argv st pr -> st = f_child f /\ wrapper_exit (handle_git f) = f_child f.
Proof. exact status_after_git. Qed.
Print Assumptions C06_status.

Theorem C06_argv_and_hooks_path : forall f, hook_cannot_exit f ->
  (exists hp argv pr, handle_git f = Ran hp argv (f_child f) pr
       /\ (argv = f_argv_user f \/ argv = f_argv_parsed f \/ Some argv = f_argv_alias f)
       /\ hp = (if f_completion f then None else
                if is_cmd (f_command f) c_clone && negb (f_is_help f) && f_allowed f then None else hooks_override f))
  \/ (handle_git f = Refused commit_pre_hook_exit_code /\ commit_pre_hook_exit_code <> 0
      /\ is_cmd (f_command f) c_commit = true).
Proof. exact dichotomy. Qed.
Print Assumptions C06_argv_and_hooks_path.

Theorem C06_hooks_override_spec : forall f p,
  hooks_override f = Some p ->
  uses_managed_hooks (f_command f) = true /\ f_hook_state f = true /\ f_explicit_hooks_override f = false
  /\ (p = null_hooks \/ f_prev_hooks f = Some p).
Proof. exact hooks_override_spec. Qed.
Print Assumptions C06_hooks_override_spec.

Example C06_nonvacuous : handle_git wit_commit = Ran (Some null_hooks) [c_commit] (Exited 0) true.
Proof. exact wit_commit_runs. Qed.

(* ---- where git-ai's own git invocations may write (Model/Confine.v) ----
   The inventory of internal git call sites is regenerated from the source on every run
   (Gen/GenInternalGit.v); the domain is finite, the classification is decided by computation and lifted
   to every call site.  A new call site that writes anything but objects and refs/notes/ai*, and is not one
   of the listed dynamic-target sites (which the argv log monitors at run time), breaks these theorems. *)
From Verif Require Import Gen.GenInternalGit Model.ConfineTables Model.Confine Proofs.ConfineProofs.

Theorem C06_internal_sites_classified : forall e,
  In e gen_inventory ->
  classify_site e = ReadOnly \/ classify_site e = ObjectStore \/ classify_site e = OwnRefsLiteral
  \/ classify_site e = CiOnly
  \/ (classify_site e = DynamicTarget /\ in_pairs (inv_file e) (inv_fn e) dynamic_sites = true).
Proof. exact writers_are_listed. Qed.
Print Assumptions C06_internal_sites_classified.

Theorem C06_dynamic_sites_exist : dynamic_sites_exist = true.
Proof. exact dynamic_sites_all_exist. Qed.
Print Assumptions C06_dynamic_sites_exist.

Example C06_site_classes_inhabited :
  (0 <? count_class (fun c => match c with ReadOnly => true | _ => false end)) = true /\
  (0 <? count_class (fun c => match c with ObjectStore => true | _ => false end)) = true /\
  (0 <? count_class (fun c => match c with OwnRefsLiteral => true | _ => false end)) = true /\
  (0 <? count_class (fun c => match c with DynamicTarget => true | _ => false end)) = true.
Proof. exact classes_inhabited. Qed.
