(* Properties/C03.v — nothing a person wrote is ever attributed to an AI session.
   Statements only.  Layer covered by theorems: the pending-attribution stores.
   INITIAL claims are line numbers only, valid while the file content is unchanged; every
   operation that discards work-tree content rewrites INITIAL without the file.  The theorem
   says that such a rewrite leaves exactly the non-empty claims it was given (in particular
   NOTHING when all were filtered away).  It was false before fix (see C03_stale_refuted):
   an empty write returned early and left the previous file — with its claims — in place. *)
From Coq Require Import List NArith Bool.
From Verif Require Import Base.Str Gen.GenWorkLog Model.WorkLog Proofs.WorkLogProofs.
Import ListNotations.
Open Scope N_scope.

Theorem C03_write_initial_exact : forall old m,
  read_initial (write_initial old m) = filter_nonempty m.
Proof. exact write_initial_exact. Qed.
Print Assumptions C03_write_initial_exact.

Theorem C03_stale_initial_refuted :
  exists old m, read_initial (write_initial_gen false old m) <> filter_nonempty m.
Proof. exact write_initial_stale_refuted. Qed.
Print Assumptions C03_stale_initial_refuted.

(* the working-log reader cannot resurrect a claim that the newest entry of a file dropped *)
Theorem C03_latest_entry_decides : forall f initial cps,
  alookup f (va_from_log initial cps) = spec_lookup f initial cps.
Proof. exact latest_wins. Qed.
Print Assumptions C03_latest_entry_decides.

(* ---- carried-over claims meeting the file again (Model/InitialAnchor.v) ----
   INITIAL claims are bare line numbers; at the first checkpoint that sees the file again the code
   reads them against the CURRENT content (Gen.GenCheckpoint.initial_anchored_to_current).  That is
   exact as long as the file is what it was when the claims were written, and blind to what a person
   typed otherwise: known class C03-K2, whose witness is k2_claims / k2_snapshot / k2_current. *)
From Verif Require Import Gen.GenCheckpoint Model.InitialAnchor Proofs.InitialAnchorProofs.

Theorem C03_initial_exact_when_unchanged : forall cl snapshot i,
  NoDup snapshot -> forallb (fits (len snapshot)) cl = true ->
  positional cl snapshot i = by_content cl snapshot snapshot i.
Proof. exact positional_exact_when_unchanged. Qed.
Print Assumptions C03_initial_exact_when_unchanged.

Theorem C03_first_checkpoint_is_positional : forall cl snapshot current i,
  first_checkpoint cl snapshot current i = positional cl current i.
Proof. exact first_checkpoint_now. Qed.
Print Assumptions C03_first_checkpoint_is_positional.

Theorem C03_initial_claims_ignore_content : forall cl cur cur' i,
  len cur = len cur' -> positional cl cur i = positional cl cur' i.
Proof. exact positional_ignores_content. Qed.
Print Assumptions C03_initial_claims_ignore_content.

Theorem C03_initial_positional_refuted :
  first_checkpoint k2_claims k2_snapshot k2_current 2 = Some 7 /\
  by_content k2_claims k2_snapshot k2_current 2 = None /\
  first_checkpoint k2_claims k2_snapshot k2_current 3 = Some 7 /\
  by_content k2_claims k2_snapshot k2_current 3 = None.
Proof. exact k2_refuted. Qed.
Print Assumptions C03_initial_positional_refuted.
