(* Properties/C03.v — nothing a person wrote is ever attributed to an AI session.
   Statements only.  Layer covered by theorems: the pending-attribution stores.
   INITIAL claims are line numbers only, valid while the file content is unchanged; every
   operation that discards work-tree content rewrites INITIAL without the file.  The theorem
   says that such a rewrite leaves exactly the non-empty claims it was given (in particular
   NOTHING when all were filtered away).  It was false before fix (see C03_stale_refuted):
   an empty write returned early and left the previous file — with its claims — in place. *)
From Coq Require Import List NArith Bool.
From Verif Require Import Base.Str Gen.GenWorkLog Model.WorkLog Proofs.WorkLogProofs.
Import ListNotations.
Open Scope N_scope.

Theorem C03_write_initial_exact : forall old m,
  read_initial (write_initial old m) = filter_nonempty m.
Proof. exact write_initial_exact. Qed.
Print Assumptions C03_write_initial_exact.

Theorem C03_stale_initial_refuted :
  exists old m, read_initial (write_initial_gen false old m) <> filter_nonempty m.
Proof. exact write_initial_stale_refuted. Qed.
Print Assumptions C03_stale_initial_refuted.

(* the working-log reader cannot resurrect a claim that the newest entry of a file dropped *)
Theorem C03_latest_entry_decides : forall f initial cps,
  alookup f (va_from_log initial cps) = spec_lookup f initial cps.
Proof. exact latest_wins. Qed.
Print Assumptions C03_latest_entry_decides.
