(* Properties/C14.v — attribution does not depend on how often or how finely checkpoints are taken.
   Statements only.  Layer covered by theorems: the working-log reader (Model/WorkLog.v).
   - a checkpoint that recorded nothing (repeated checkpoint with no intervening change, or a
     read-only command) does not change what is read back;
   - pruning the char attributions of older entries (done on every append) never changes what
     is read back, provided the newest entry of the file is one that carries data.
   The tracker-level part of the property (splitting one agent edit into several checkpoints,
   extra human checkpoints) is decided by the metamorphic oracle of the check; it is not a
   theorem because it depends on the diff heuristics (see DESIGN.md C14). *)
From Coq Require Import List NArith Bool.
From Verif Require Import Base.Str Gen.GenWorkLog Model.WorkLog Proofs.WorkLogProofs.
Import ListNotations.
Open Scope N_scope.

Theorem C14_empty_checkpoint_noop : forall initial cps1 cps2 k,
  va_from_log initial (cps1 ++ mkCheckpoint k [] :: cps2) = va_from_log initial (cps1 ++ cps2).
Proof. exact empty_checkpoint_noop. Qed.
Print Assumptions C14_empty_checkpoint_noop.

Theorem C14_prune_irrelevant : forall f initial cps,
  last_not_skipped f cps ->
  alookup f (va_from_log initial (prune cps)) = alookup f (va_from_log initial cps).
Proof. exact prune_irrelevant. Qed.
Print Assumptions C14_prune_irrelevant.

(* repeating any checkpoint with no intervening change records nothing for the file ... *)
Theorem C14_repeat_records_nothing : forall f,
  cf_from_checkpoint f = true -> cf_equal f = true -> decide_entry f = NoEntry.
Proof. exact repeat_records_nothing. Qed.
Print Assumptions C14_repeat_records_nothing.

(* ... and an extra human checkpoint of a file no AI session touched cannot change what is read back *)
Theorem C14_human_only_entry_is_inert : forall f file computed initial cps1 cps2 k,
  cf_human f = true -> cf_prior_ai f = false -> cf_has_initial f = false ->
  va_from_log initial (cps1 ++ mkCheckpoint k (entry_of_decision (decide_entry f) file computed) :: cps2)
  = va_from_log initial (cps1 ++ cps2).
Proof. exact human_only_entry_is_inert. Qed.
Print Assumptions C14_human_only_entry_is_inert.

Example C14_nonvacuous : last_not_skipped [97] wit_log /\ last_not_skipped [98] wit_log.
Proof. exact wit_log_last. Qed.
