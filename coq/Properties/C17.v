(* Properties/C17.v — authorship logs survive a write/read round trip unchanged.
   This file contains only statements; every proof is `exact <lemma>` and is followed
   by Print Assumptions.  Statements are pinned in /verif/statements.lock.

   Full-strength statement (all logs whose paths are non-empty and NUL-free, i.e. what a git
   tree can hold):
       forall l, deserialize (serialize l) = Ok (normalize l)
   It is FALSE of the faithful model (C17_full_statement_refuted, witness: a path containing a
   newline); C17_roundtrip is the statement under the exact boolean side condition wf_log,
   C17_roundtrip_simple the same under its plain-terms form, and the excluded logs are the known
   classes C17-K4, K8 and the residual K7 (an entry without ranges whose hash is empty or ends in a
   blank) of known_findings.json (K1, K3, K5 and the main case of K7 were repaired in /repo). *)
From Coq Require Import List NArith Bool.
From Verif Require Import Base.Str Gen.GenSerial Model.Serial Proofs.SerialProofs Base.StrFacts.
Import ListNotations.
Open Scope N_scope.

Theorem C17_print_parse_u32 : forall n, n <= u32_max -> parse_u32 (print_N n) = Some n.
Proof. exact parse_u32_print. Qed.
Print Assumptions C17_print_parse_u32.

Theorem C17_roundtrip : forall l, wf_log l = true -> deserialize (serialize l) = Ok (normalize l).
Proof. exact roundtrip. Qed.
Print Assumptions C17_roundtrip.

Theorem C17_roundtrip_serde :
  forall (M : Type) (print_md : M -> list N) (parse_md : list N -> option M),
  (forall m, parse_md (print_md m) = Some m) ->
  (forall m, md_ok (print_md m) = true) ->
  forall a m, forallb fatt_ok a = true ->
    fdeserialize M parse_md (fserialize M print_md a m)
    = Ok (map norm_fatt (filter has_entries a), m).
Proof. exact roundtrip_serde. Qed.
Print Assumptions C17_roundtrip_serde.

Theorem C17_grammar : forall l, wf_log l = true -> has_ranges l = true -> grammar (serialize l).
Proof. exact serialize_grammar. Qed.
Print Assumptions C17_grammar.

Theorem C17_no_divider_rejected :
  forall s, (forall ln, In ln (lines s) -> ln <> divider) -> deserialize s = Err.
Proof. exact no_divider_rejected. Qed.
Print Assumptions C17_no_divider_rejected.

Theorem C17_never_panics : forall s, deserialize s <> Panic.
Proof. exact never_panics. Qed.
Print Assumptions C17_never_panics.

Theorem C17_full_statement_refuted :
  exists l, (forall f, In f (atts l) -> f_path f <> [] /\ ~ In 0 (f_path f))
            /\ deserialize (serialize l) <> Ok (normalize l).
Proof. exact full_statement_refuted. Qed.
Print Assumptions C17_full_statement_refuted.

Theorem C17_known_classes_fail :
  rt_fails wit_newline = true /\ rt_fails wit_hash_space = true /\
  rt_fails wit_empty_hash_no_ranges = true.
Proof. exact known_classes_fail. Qed.
Print Assumptions C17_known_classes_fail.

(* the side condition in plain terms (repaired writer and reader): every log whose paths are non-empty
   and newline-free, whose hashes contain no blank, and whose ranges fit u32 survives the round trip *)
Theorem C17_roundtrip_simple :
  forall l, wf_simple l = true -> deserialize (serialize l) = Ok (normalize l).
Proof. exact roundtrip_simple. Qed.
Print Assumptions C17_roundtrip_simple.

(* former known classes K1, K3, K5, K7 (repaired in /repo): their witnesses now round-trip *)
Theorem C17_repaired_classes_roundtrip :
  rt_fails wit_divider_path = false /\ rt_fails wit_quoted_like = false /\
  rt_fails wit_trailing_nbsp = false /\ rt_fails wit_empty_ranges = false /\
  wf_log wit_divider_path = true /\ wf_log wit_quoted_like = true /\
  wf_log wit_trailing_nbsp = true /\ wf_log wit_empty_ranges = true.
Proof. exact repaired_classes_roundtrip. Qed.
Print Assumptions C17_repaired_classes_roundtrip.

(* non-vacuity: a non-trivial log (quoted path, unsorted ranges, an empty file, a file named
   with a lone double quote, a path of dashes, duplicate lines) meets the hypothesis *)
Example C17_nonvacuous : wf_log wit_ok = true.
Proof. exact wit_ok_wf. Qed.
