(* Properties/C16.v -- the attribution tracker is total, bounded and conservative.
   Statements only; every proof is `exact <lemma>` followed by Print Assumptions.

   Full-strength statement (for ANY previous text, previous attributions and new text, with the
   diff facts of the real compute_diffs / detect_moves):
     update never panics; every output range r satisfies start <= end <= |new|;
     bytes of Equal segments keep their (author, ts) cover; new text belongs to the reporting author;
     an identical text keeps its line attributions; line -> char -> line keeps the AI lines.
   It is FALSE of the faithful model for four classes of inputs, each with a witness whose facts
   come from a real run (C16_bounded_refuted / C16_equal_keeps_refuted: a moved block whose
   whitespace changed, class C16-K1; C16_identity_tie_refuted: class C16-K2;
   C16_identity_marker_refuted: class C16-K3; C16_update_inverted_panics: class C16-K4).
   The theorems below carry exactly the hypotheses their proofs use:
     wf_diff    the script re-concatenates to the two texts (C16_valid_script); only C16_bounded
                needs it, to speak about |new|
     moves_fit  each move mapping names an existing insertion and its source text fits there
                (true of real facts outside class K1; monitored)
     attr_ordered on the priors (start <= end) for totality of update (class K4 otherwise)
     valid_utf8 of the content for attributions_to_line_attributions. *)
From Coq Require Import List NArith Bool.
From Verif Require Import Base.Str Model.Tracker Proofs.TrackerProofs.
Import ListNotations.
Open Scope N_scope.

(* C16_valid_script: what the contract wf_diff says of the facts *)
Theorem C16_valid_script : forall old new f, wf_diff old new f = true ->
  cat_old (f_segs f) = old /\ cat_new (f_segs f) = new /\
  seg_bounds_ok old new (f_segs f) 0 0 = true /\
  Forall (fun r => fst r <= snd r /\ snd r <= blen new) (f_subst f).
Proof. exact wf_diff_spec. Qed.
Print Assumptions C16_valid_script.

Theorem C16_bounded : forall old new attrs author ts f out,
  wf_diff old new f = true -> moves_fit f = true ->
  update attrs author ts f = Ok out ->
  Forall (fun a => a_start a <= a_end a /\ a_end a <= blen new) out.
Proof. exact bounded. Qed.
Print Assumptions C16_bounded.

Theorem C16_bounded_refuted :
  exists old new attrs author ts f out,
    wf_diff old new f = true /\ moves_ok f = true /\ forallb attr_ordered attrs = true /\
    valid_utf8 old = true /\ valid_utf8 new = true /\
    update attrs author ts f = Ok out /\ exists a, In a out /\ blen new < a_end a.
Proof. exact bounded_refuted. Qed.
Print Assumptions C16_bounded_refuted.

Theorem C16_update_total : forall attrs author ts f,
  moves_fit f = true -> forallb attr_ordered attrs = true -> update attrs author ts f <> Panic.
Proof. exact update_total. Qed.
Print Assumptions C16_update_total.

Theorem C16_update_inverted_panics :
  exists old new attrs author ts f,
    wf_diff old new f = true /\ moves_ok f = true /\ moves_fit f = true /\
    update attrs author ts f = Panic.
Proof. exact update_inverted_panics. Qed.
Print Assumptions C16_update_inverted_panics.

(* never slices off a char boundary, for ANY attributions *)
Theorem C16_to_lines_total : forall c attrs, valid_utf8 c = true -> to_lines attrs c <> Panic.
Proof. exact to_lines_total. Qed.
Print Assumptions C16_to_lines_total.

Theorem C16_line_char_roundtrip : forall c la ts,
  valid_utf8 c = true -> wf_lattrs la (line_count c) = true ->
  exists out, to_lines (to_chars la c ts) c = Ok out /\ ai_lines out = ai_lines la.
Proof. exact line_char_roundtrip. Qed.
Print Assumptions C16_line_char_roundtrip.

(* overlapping line attributions / a range ending beyond the last line are not round-tripped *)
Theorem C16_roundtrip_refuted :
  rt_same w_rt_text [mkLattr 1 2 w_ai1 None; mkLattr 2 3 w_ai2 None] 0 = false /\
  rt_same w_rt_text [mkLattr 2 9 w_ai1 None] 0 = false /\
  rt_same w_rt_text [mkLattr 1 1 w_ai1 None; mkLattr 3 3 w_ai2 None] 0 = true.
Proof. exact roundtrip_refuted. Qed.
Print Assumptions C16_roundtrip_refuted.

Theorem C16_merge_preserves_coverage : forall l p au ts,
  covers (merge l) p au ts <-> covers l p au ts.
Proof. exact merge_coverage. Qed.
Print Assumptions C16_merge_preserves_coverage.

Theorem C16_merge_keeps_markers : forall l a, In a l -> a_start a = a_end a -> In a (merge l).
Proof. exact merge_markers. Qed.
Print Assumptions C16_merge_keeps_markers.

(* text that did not change keeps its authors: in the OUTPUT OF UPDATE, byte k of an Equal
   segment is covered by exactly the (author, ts) pairs that covered the corresponding old byte *)
Theorem C16_equal_keeps : forall attrs author ts f out pre d post,
  moves_fit f = true -> f_segs f = pre ++ (DEq, d) :: post ->
  update attrs author ts f = Ok out ->
  forall k au t, k < blen d ->
    (covers out (blen (cat_new pre) + k) au t <-> covers attrs (blen (cat_old pre) + k) au t).
Proof. exact equal_keeps. Qed.
Print Assumptions C16_equal_keeps.

Theorem C16_equal_keeps_refuted :
  exists old new attrs author ts f out pre d post,
    wf_diff old new f = true /\ moves_ok f = true /\ f_segs f = pre ++ (DEq, d) :: post /\
    update attrs author ts f = Ok out /\
    exists k au t, k < blen d /\ covers out (blen (cat_new pre) + k) au t /\
                   ~ covers attrs (blen (cat_old pre) + k) au t.
Proof. exact equal_keeps_refuted. Qed.
Print Assumptions C16_equal_keeps_refuted.

(* new text belongs to the reporting author: byte k of an Insert segment that is not inside a move
   target is covered by (author, ts) whenever the insertion has move targets, contains a newline
   or intersects a substantive range *)
Theorem C16_new_is_authors : forall attrs author ts f out pre d post,
  f_segs f = pre ++ (DIns, d) :: post ->
  update attrs author ts f = Ok out ->
  forall k, k < blen d ->
    in_target (f_moves f) (nins pre) k = false ->
    (has_targets (f_moves f) (nins pre) = true \/ mem 10 d = true \/
     ranges_intersect (f_subst f) (blen (cat_new pre)) (blen (cat_new pre) + blen d) = true) ->
    covers out (blen (cat_new pre) + k) author ts.
Proof. exact new_is_authors. Qed.
Print Assumptions C16_new_is_authors.

(* an identical text does NOT always keep its line attributions *)
Theorem C16_identity_tie_refuted :
  exists old attrs author ts f,
    wf_diff old old f = true /\ f_segs f = [(DEq, old)] /\ f_moves f = [] /\
    forallb attr_ordered attrs = true /\
    res_lines_eqb (update_lines old attrs author ts f) (to_lines attrs old) = false.
Proof. exact identity_tie_refuted. Qed.
Print Assumptions C16_identity_tie_refuted.

Theorem C16_identity_marker_refuted :
  exists old attrs author ts f,
    wf_diff old old f = true /\ f_segs f = [(DEq, old)] /\ f_moves f = [] /\
    forallb attr_ordered attrs = true /\
    res_lines_eqb (update_lines old attrs author ts f) (to_lines attrs old) = false.
Proof. exact identity_marker_refuted. Qed.
Print Assumptions C16_identity_marker_refuted.

(* what does hold for an identical text (weaker than C16_identity_keeps_lines, which is tested but
   not proved): a list in merge-normal form with non-empty ranges inside the text -- the shape of
   every marker-free output of update -- is returned unchanged, so its line attributions are too *)
Theorem C16_identity_fixpoint : forall old attrs author ts,
  merge attrs = attrs ->
  Forall (fun a => a_start a < a_end a /\ a_end a <= blen old) attrs ->
  update attrs author ts (mkFacts [(DEq, old)] [] []) = Ok attrs.
Proof. exact identity_fixpoint. Qed.
Print Assumptions C16_identity_fixpoint.

(* non-vacuity: the facts of a real run with a moved block meet every contract *)
Example C16_nonvacuous :
  wf_diff wOK_old wOK_new wOK_facts = true /\ moves_ok wOK_facts = true /\ moves_fit wOK_facts = true /\
  f_moves wOK_facts <> [] /\ forallb attr_ordered wOK_attrs = true /\
  valid_utf8 wOK_old = true /\ valid_utf8 wOK_new = true /\
  wf_lattrs [mkLattr 1 1 w_ai1 None; mkLattr 3 3 w_ai2 None] (line_count w_rt_text) = true.
Proof. exact contracts_nonvacuous. Qed.
