(* Properties/C16.v -- the attribution tracker is total, bounded and conservative.
   Statements only; every proof is `exact <lemma>` followed by Print Assumptions.

   The model describes the tracker WITH the repairs of the former classes C16-K1, K2, K4
   (per-line move mappings clamped to their target; position-only stable order in
   merge_attributions and at the boundary of update_attributions; saturating length comparison).
   The repair of C16-K3 (carrying zero-length markers through Equal segments) was reverted: a marker
   at a line start slid into the line when the line was re-indented; K3 is a known class again
   (C16_identity_marker_refuted).  The statements that were refuted
   for those classes are now the positive theorems below, and the old witnesses are the
   regression lemmas C16_regression_*, whose facts and outputs come from real runs.
   The theorems carry exactly the hypotheses their proofs use:
     wf_diff    the script re-concatenates to the two texts (C16_valid_script); only C16_bounded
                needs it, to speak about |new|
     moves_fit  each move mapping names an existing insertion and its target range ends inside it
                (implied by the monitored contract moves_ok: C16_moves_ok_fit)
     valid_utf8 of the content for attributions_to_line_attributions.
   Still open (tested by the oracle, not proved): C16_boundaries, C16_ws_reformat (known class
   C16-K5, a property of the line-level diff, which is an oracle in this slice). *)
From Coq Require Import List NArith Bool.
From Verif Require Import Base.Str Model.Tracker Proofs.TrackerProofs.
Import ListNotations.
Open Scope N_scope.

(* C16_valid_script: what the contract wf_diff says of the facts *)
Theorem C16_valid_script : forall old new f, wf_diff old new f = true ->
  cat_old (f_segs f) = old /\ cat_new (f_segs f) = new /\
  seg_bounds_ok old new (f_segs f) 0 0 = true /\
  Forall (fun r => fst r <= snd r /\ snd r <= blen new) (f_subst f).
Proof. exact wf_diff_spec. Qed.
Print Assumptions C16_valid_script.

Theorem C16_bounded : forall old new attrs author ts f out,
  wf_diff old new f = true -> moves_fit f = true ->
  update attrs author ts f = Ok out ->
  Forall (fun a => a_start a <= a_end a /\ a_end a <= blen new) out.
Proof. exact bounded. Qed.
Print Assumptions C16_bounded.

Theorem C16_moves_ok_fit : forall f, moves_ok f = true -> moves_fit f = true.
Proof. exact moves_ok_fit. Qed.
Print Assumptions C16_moves_ok_fit.

(* for ANY priors: out of range, zero-length, start > end *)
Theorem C16_update_total : forall attrs author ts f,
  moves_fit f = true -> update attrs author ts f <> Panic.
Proof. exact update_total. Qed.
Print Assumptions C16_update_total.

(* never slices off a char boundary, for ANY attributions *)
Theorem C16_to_lines_total : forall c attrs, valid_utf8 c = true -> to_lines attrs c <> Panic.
Proof. exact to_lines_total. Qed.
Print Assumptions C16_to_lines_total.

Theorem C16_line_char_roundtrip : forall c la ts,
  valid_utf8 c = true -> wf_lattrs la (line_count c) = true ->
  exists out, to_lines (to_chars la c ts) c = Ok out /\ ai_lines out = ai_lines la.
Proof. exact line_char_roundtrip. Qed.
Print Assumptions C16_line_char_roundtrip.

(* overlapping line attributions / a range ending beyond the last line are not round-tripped *)
Theorem C16_roundtrip_refuted :
  rt_same w_rt_text [mkLattr 1 2 w_ai1 None; mkLattr 2 3 w_ai2 None] 0 = false /\
  rt_same w_rt_text [mkLattr 2 9 w_ai1 None] 0 = false /\
  rt_same w_rt_text [mkLattr 1 1 w_ai1 None; mkLattr 3 3 w_ai2 None] 0 = true.
Proof. exact roundtrip_refuted. Qed.
Print Assumptions C16_roundtrip_refuted.

Theorem C16_merge_preserves_coverage : forall l p au ts,
  covers (merge l) p au ts <-> covers l p au ts.
Proof. exact merge_coverage. Qed.
Print Assumptions C16_merge_preserves_coverage.

Theorem C16_merge_keeps_markers : forall l a, In a l -> a_start a = a_end a -> In a (merge l).
Proof. exact merge_markers. Qed.
Print Assumptions C16_merge_keeps_markers.

(* text that did not change keeps its authors: in the OUTPUT OF UPDATE, byte k of an Equal
   segment is covered by exactly the (author, ts) pairs that covered the corresponding old byte *)
Theorem C16_equal_keeps : forall attrs author ts f out pre d post,
  moves_fit f = true -> f_segs f = pre ++ (DEq, d) :: post ->
  update attrs author ts f = Ok out ->
  forall k au t, k < blen d ->
    (covers out (blen (cat_new pre) + k) au t <-> covers attrs (blen (cat_old pre) + k) au t).
Proof. exact equal_keeps. Qed.
Print Assumptions C16_equal_keeps.

(* new text belongs to the reporting author: byte k of an Insert segment that is not inside a move
   target is covered by (author, ts) whenever the insertion has move targets, contains a newline
   or intersects a substantive range *)
Theorem C16_new_is_authors : forall attrs author ts f out pre d post,
  f_segs f = pre ++ (DIns, d) :: post ->
  update attrs author ts f = Ok out ->
  forall k, k < blen d ->
    in_target (f_moves f) (nins pre) k = false ->
    (has_targets (f_moves f) (nins pre) = true \/ mem 10 d = true \/
     ranges_intersect (f_subst f) (blen (cat_new pre)) (blen (cat_new pre) + blen d) = true) ->
    covers out (blen (cat_new pre) + k) author ts.
Proof. exact new_is_authors. Qed.
Print Assumptions C16_new_is_authors.

(* merge_attributions (sort, dedup, coalesce) changes no line's (author, overrode) *)
Theorem C16_merge_keeps_lines : forall c l, valid_utf8 c = true -> to_lines (merge l) c = to_lines l c.
Proof. exact merge_keeps_lines. Qed.
Print Assumptions C16_merge_keeps_lines.

(* an identical text keeps all line attributions: for ANY priors that are proper ranges, start < end
   (out of range, overlapping, unsorted, duplicated, equal ts), the facts being the single Equal segment *)
Theorem C16_identity_keeps_lines : forall old attrs author ts,
  valid_utf8 old = true -> Forall ordered attrs ->
  update_lines old attrs author ts (mkFacts [(DEq, old)] [] []) = to_lines attrs old.
Proof. exact identity_keeps_lines_any. Qed.
Print Assumptions C16_identity_keeps_lines.

(* the hypothesis start < end is needed: zero-length priors (deletion markers) are dropped by the
   update -- known class C16-K3 -- and so are priors with start > end *)
Theorem C16_identity_marker_refuted :
  exists old attrs author ts f,
    wf_diff old old f = true /\ f_segs f = [(DEq, old)] /\ f_moves f = [] /\
    forallb attr_ordered attrs = true /\ valid_utf8 old = true /\
    res_lines_eqb (update_lines old attrs author ts f) (to_lines attrs old) = false.
Proof. exact identity_marker_refuted. Qed.
Print Assumptions C16_identity_marker_refuted.

Theorem C16_identity_inverted_refuted :
  exists old attrs author ts,
    valid_utf8 old = true /\
    res_lines_eqb (update_lines old attrs author ts (mkFacts [(DEq, old)] [] [])) (to_lines attrs old) = false.
Proof. exact identity_inverted_refuted. Qed.
Print Assumptions C16_identity_inverted_refuted.

(* a list in merge-normal form whose entries are non-empty ranges inside the text is returned unchanged *)
Theorem C16_identity_fixpoint : forall old attrs author ts,
  merge attrs = attrs -> Forall (in_text (blen old)) attrs ->
  update attrs author ts (mkFacts [(DEq, old)] [] []) = Ok attrs.
Proof. exact identity_fixpoint. Qed.
Print Assumptions C16_identity_fixpoint.

(* regression witnesses of the repaired classes; facts and outputs from real runs *)
Theorem C16_regression_moved_block :
  wf_diff wK1b_old wK1b_new wK1b_facts = true /\ moves_ok wK1b_facts = true /\
  update wK1b_attrs wK1b_author 100 wK1b_facts = Ok wK1b_out /\
  forallb (fun a => a_end a <=? blen wK1b_new) wK1b_out = true /\
  res_lines_eqb (to_lines wK1b_out wK1b_new)
    (Ok [mkLattr 4 4 [97; 105; 95; 49] None; mkLattr 5 5 [97; 105; 95; 50] None; mkLattr 6 6 [97; 105; 95; 49] None]) = true.
Proof. exact regression_moved_block. Qed.
Print Assumptions C16_regression_moved_block.

Theorem C16_regression_inverted_prior :
  forallb attr_ordered wK4_attrs = false /\ update wK4_attrs wK4_author 100 wK4_facts = Ok wK4_out.
Proof. exact regression_inverted_prior. Qed.
Print Assumptions C16_regression_inverted_prior.

Theorem C16_regression_tie :
  update wK2_attrs wK2_author 100 wK2_facts = Ok wK2_attrs /\
  res_lines_eqb (update_lines wK2_old wK2_attrs wK2_author 100 wK2_facts) (to_lines wK2_attrs wK2_old) = true /\
  update wK2b_attrs wK2b_author 100 wK2b_facts = Ok wK2b_attrs /\
  res_lines_eqb (update_lines wK2b_old wK2b_attrs wK2b_author 100 wK2b_facts) (to_lines wK2b_attrs wK2b_old) = true.
Proof. exact regression_tie. Qed.
Print Assumptions C16_regression_tie.

(* non-vacuity: the facts of a real run with a moved block meet every contract *)
Example C16_nonvacuous :
  wf_diff wOK_old wOK_new wOK_facts = true /\ moves_ok wOK_facts = true /\ moves_fit wOK_facts = true /\
  f_moves wOK_facts <> [] /\ forallb attr_ordered wOK_attrs = true /\
  valid_utf8 wOK_old = true /\ valid_utf8 wOK_new = true /\
  wf_lattrs [mkLattr 1 1 w_ai1 None; mkLattr 3 3 w_ai2 None] (line_count w_rt_text) = true.
Proof. exact contracts_nonvacuous. Qed.
