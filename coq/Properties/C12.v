(* Properties/C12.v — results do not depend on the user's git configuration or invocation context.

   Full-strength statement (not a theorem: it runs through git itself):
     for every history, every configuration and every invocation context, the notes written and
     the blame reported equal those of the baseline environment.
   What is proved here is the part git-ai controls: the argv it hands to git for the commands whose
   text it parses.  With the git-side table of Model/Profile.v (trusted, validated against
   /usr/bin/git by vlib/c12.py):

     C12_profile_pins / C12_config_independent
        for EVERY configuration and EVERY argument vector in which every option the strip leaves in
        place is tame (does not take a separate value and does not override a pinned component),
        the format components the profile pins have their canonical values — whatever the
        configuration says, and whatever stands before the subcommand or after `--`.
     C12_pins_present   every pinned option is in the option region of the result, for every
        argument vector with a subcommand (the already-present test looks at the option region
        only: C12_pin_not_shadowed is the former counterexample, a pathspec named --no-ext-diff).
     C12_drop_complete   tameness is automatic for single-token options, for every pinned component
        of every profile except (PatchParse, diff algorithm): every overriding token is dropped.
     C12_nodash_tame     tokens that do not start with a dash (revisions, object names) are tame.
     The tameness hypothesis is necessary: C12_algorithm_override_refuted (--patience survives),
     C12_split_value_override_refuted (`--inter-hunk-context 3` as two tokens survives); hence the
     unrestricted statement is false: C12_profile_pins_all_args_refuted.  No internal caller passes
     such options (C12_inventory_pinned: lits_ok).
     C12_inventory_pinned  every internal invocation template of the generated inventory whose
        output is parsed fixes the components its parser depends on (by the profile, by a literal
        option, or because the command is plumbing); status is run with an explicit
        --untracked-files; up to the listed exceptions, each of which is needed.
     C12_global_args_normalised / C12_global_args_end_in_root   find_repository turns [] and [-C x]
        into [-C root]; every other shape keeps its options (relative --git-dir / --work-tree made
        absolute) and gets a final `-C root`, so that a well-formed vector always ends up in root.

   NOT pinned (residual assumptions, see vlib/c12.py ASSUMPTIONS): core.quotePath for patch text
   (handled by the unquoting parser: Properties/C01_fmt.v C01_fmt_quotepath_independent; path
   LISTS are read with -z: nul_paths_ok); the number of context lines and rename detection for
   PatchParse and RawDiffParse (passed literally by the callers: -U0 --no-renames, checked per
   template by C12_inventory_pinned); the pager (global --no-pager: C12_no_pager); abbreviated
   long options (git accepts unambiguous prefixes such as --no-pref; the table knows full
   spellings only). *)
From Coq Require Import List NArith Bool.
From Verif Require Import Base.Str Gen.GenProfile Gen.GenInternalGit Gen.GenStateProbes Model.Profile Proofs.ProfileProofs.
Import ListNotations.
Open Scope N_scope.

Theorem C12_strip_safe :
  (forall p args g s r, find_sub args = Some (g, s, r) ->
     exists r', strip_profile_conflicts p args = g ++ s :: r' /\ from_dd r' = from_dd r /\
                (forall t, In t (before_dd r') -> In t (before_dd r) /\ should_drop p t = false)) /\
  (forall p args g s r, find_sub args = Some (g, s, r) ->
     exists r', args_with_internal_git_profile p args = g ++ s :: r' /\ from_dd r' = from_dd r) /\
  (forall args, strip_profile_conflicts General args = args /\ args_with_internal_git_profile General args = args) /\
  (forall p args, find_sub args = None ->
     strip_profile_conflicts p args = args /\ args_with_internal_git_profile p args = args) /\
  (forall g s r, globals_ok g -> is_dash s = false -> find_sub (g ++ s :: r) = Some (g, s, r)).
Proof. exact strip_safe. Qed.
Print Assumptions C12_strip_safe.

Theorem C12_pins_present : forall p args g s r o,
  find_sub args = Some (g, s, r) -> In o (profile_options p) ->
  exists r', find_sub (args_with_internal_git_profile p args) = Some (g, s, r') /\
             In o (before_dd r') /\ from_dd r' = from_dd r /\
             (~ In o (before_dd r) -> count_str o (before_dd r') = 1%nat).
Proof. exact pins_present. Qed.
Print Assumptions C12_pins_present.

Theorem C12_profile_pins : forall p cfg args g s r,
  find_sub args = Some (g, s, r) ->
  survivors_tame p r ->
  fmt_agree_on (pinned_comps p) (effective_fmt cfg (args_with_internal_git_profile p args)) (canonical_fmt p).
Proof. exact profile_pins. Qed.
Print Assumptions C12_profile_pins.

Theorem C12_config_independent : forall p cfg1 cfg2 args g s r,
  find_sub args = Some (g, s, r) -> survivors_tame p r ->
  fmt_agree_on (pinned_comps p)
    (effective_fmt cfg1 (args_with_internal_git_profile p args))
    (effective_fmt cfg2 (args_with_internal_git_profile p args)).
Proof. exact config_independent. Qed.
Print Assumptions C12_config_independent.

Theorem C12_drop_complete : forall p c t v w,
  ~ (p = PatchParse /\ c = CAlgorithm) ->
  canonical p c = Some v -> tok_effect c t = Some w -> w <> v -> should_drop p t = true.
Proof. exact drop_complete. Qed.
Print Assumptions C12_drop_complete.

Theorem C12_nodash_tame : forall p t, is_dash t = false -> tame p t = true.
Proof. exact nodash_tame. Qed.
Print Assumptions C12_nodash_tame.

(* ---- the hypothesis is necessary *)

Definition wit_patience : list str := [s2l "diff"; s2l "--patience"; s2l "HEAD"].
Definition wit_split : list str := [s2l "diff"; s2l "--inter-hunk-context"; s2l "3"; s2l "HEAD"].
(* a pathspec equal to a pinned option *)
Definition wit_shadow : list str := [s2l "diff"; s2l "-U0"; s2l "HEAD"; s2l "--"; s2l "--no-ext-diff"].

Theorem C12_algorithm_override_refuted :
  exists g s r, find_sub wit_patience = Some (g, s, r) /\
    canonical PatchParse CAlgorithm = Some (s2l "default") /\
    effective [] (args_with_internal_git_profile PatchParse wit_patience) CAlgorithm = Some (s2l "patience").
Proof.
  exists [], (s2l "diff"), [s2l "--patience"; s2l "HEAD"].
  split; [vm_compute; reflexivity|]. split; vm_compute; reflexivity.
Qed.
Print Assumptions C12_algorithm_override_refuted.

Theorem C12_split_value_override_refuted :
  exists g s r, find_sub wit_split = Some (g, s, r) /\
    canonical PatchParse CInterHunk = Some (s2l "0") /\
    effective [] (args_with_internal_git_profile PatchParse wit_split) CInterHunk = Some (s2l "3").
Proof.
  exists [], (s2l "diff"), [s2l "--inter-hunk-context"; s2l "3"; s2l "HEAD"].
  split; [vm_compute; reflexivity|]. split; vm_compute; reflexivity.
Qed.
Print Assumptions C12_split_value_override_refuted.

(* the former counterexample of class C12-K2 (a pathspec equal to a pinned option): the pin is inserted *)
Theorem C12_pin_not_shadowed :
  exists g s r, find_sub wit_shadow = Some (g, s, r) /\ survivors_tame PatchParse r /\
    In (s2l "--no-ext-diff") (before_dd (match find_sub (args_with_internal_git_profile PatchParse wit_shadow) with
                                         | Some (_, _, r') => r' | None => [] end)) /\
    effective [(s2l "diff.external", s2l "/bin/x")] (args_with_internal_git_profile PatchParse wit_shadow) CExtDiff = Some v_off.
Proof.
  exists [], (s2l "diff"), [s2l "-U0"; s2l "HEAD"; s2l "--"; s2l "--no-ext-diff"].
  split; [vm_compute; reflexivity|]. split.
  - intros t Ht _. vm_compute in Ht. destruct Ht as [Ht|[Ht|[]]]; subst; vm_compute; reflexivity.
  - split; [vm_compute; tauto|vm_compute; reflexivity].
Qed.
Print Assumptions C12_pin_not_shadowed.

Theorem C12_profile_pins_all_args_refuted :
  exists p cfg args g s r c, find_sub args = Some (g, s, r) /\ In c (pinned_comps p) /\
    fmt_get (effective_fmt cfg (args_with_internal_git_profile p args)) c <> fmt_get (canonical_fmt p) c.
Proof.
  exists PatchParse, [], wit_patience, [], (s2l "diff"), [s2l "--patience"; s2l "HEAD"], CAlgorithm.
  split; [vm_compute; reflexivity|]. split; [vm_compute; tauto|]. vm_compute. discriminate.
Qed.
Print Assumptions C12_profile_pins_all_args_refuted.

(* ---- the inventory *)

Theorem C12_inventory_pinned :
  inventory_ok gen_inventory = true /\ inventory_exceptions_tight gen_inventory = true /\
  nul_paths_ok gen_inventory = true.
Proof. vm_compute. repeat split. Qed.
Print Assumptions C12_inventory_pinned.

(* ---- invocation context *)

Theorem C12_global_args_normalised : forall ga root base gd,
  (normalised_shape ga = true -> normalize_global_args ga root base gd = [gen_norm_flag; root]) /\
  (normalised_shape ga = false -> normalize_global_args ga root base gd = other_shape_args ga root base gd).
Proof. intros ga root base gd. split; [apply normalize_shape|apply normalize_other]. Qed.
Print Assumptions C12_global_args_normalised.

(* the repair of class C12-K1 (F15): whatever the shape of the user's global args, internal commands
   end up in the repository root (git's own reading of -C), provided the vector is well formed *)
Theorem C12_global_args_end_in_root : forall ga root base gd cur,
  path_is_relative root = false -> globals_ok (normalize_global_args ga root base gd) ->
  final_dir git_value_globals cur (normalize_global_args ga root base gd) false = root.
Proof. exact normalized_final_dir. Qed.
Print Assumptions C12_global_args_end_in_root.

Example C12_ex_global_mix :
  normalize_global_args [s2l "-c"; s2l "k=v"; s2l "-C"; s2l "sub"; s2l "--git-dir=../.git"; s2l "--work-tree"; s2l ".."]
                        (s2l "/w") (s2l "/w/sub") (s2l "/w/.git")
  = [s2l "-c"; s2l "k=v"; s2l "-C"; s2l "sub"; s2l "--git-dir=/w/sub/../.git"; s2l "--work-tree"; s2l "/w/sub/.."; s2l "-C"; s2l "/w"]
  /\ normalize_global_args [s2l "--work-tree=.."] (s2l "/w") (s2l "/w/sub") (s2l "../.git")
     = [s2l "--work-tree=/w/sub/.."; s2l "--git-dir=/w/sub/../.git"; s2l "-C"; s2l "/w"]
  /\ final_dir git_value_globals (s2l "/w")
       (normalize_global_args [s2l "-c"; s2l "k=v"; s2l "-C"; s2l "sub"] (s2l "/w") (s2l "/w/sub") (s2l "/w/.git")) false = s2l "/w"
  /\ final_dir git_value_globals (s2l "/w") [s2l "-c"; s2l "k=v"; s2l "-C"; s2l "sub"] false = s2l "/w/sub".
Proof. vm_compute. repeat split. Qed.

(* resolve_command_base_dir consults the process working directory only while no absolute -C has been seen:
   (a) with a known working directory d the result is the one obtained by walking the -C options from d;
   (b) once a base is known (an absolute -C came first) the working directory — even a removed one — does not matter.
   C12_global_args_end_in_root takes base as a parameter and needs no hypothesis about the working directory. *)
Theorem C12_base_dir_cwd_only_when_needed :
  (forall d ga, resolve_command_base_dir (Some d) ga = resolve_base_from (Some d) (Some d) ga) /\
  (forall cwd1 cwd2 ga b, resolve_base_from cwd1 (Some b) ga = resolve_base_from cwd2 (Some b) ga).
Proof. split; [exact resolve_base_cwd | exact resolve_base_known]. Qed.
Print Assumptions C12_base_dir_cwd_only_when_needed.

Example C12_ex_base_dir :
  resolve_command_base_dir None [s2l "-C"; s2l "/w"; s2l "-C"; s2l "sub"; s2l "status"] = Some (s2l "/w/sub") /\
  resolve_command_base_dir None [s2l "-C"; s2l "sub"] = None /\
  resolve_command_base_dir None [s2l "-c"; s2l "k=v"] = None /\
  resolve_command_base_dir (Some (s2l "/d")) [s2l "-C"; s2l "sub"; s2l "-C"; s2l ".."] = Some (s2l "/d/sub/..").
Proof. vm_compute. repeat split. Qed.

Theorem C12_no_pager : forall ga, In gen_exec_global_opt (global_args_for_exec ga).
Proof. exact exec_globals_no_pager. Qed.
Print Assumptions C12_no_pager.

(* the hook-disabling prefix `-c core.hooksPath=/dev/null` does not hide the subcommand *)
Theorem C12_hooks_prefix_keeps_subcommand : forall args g s r,
  find_sub args = Some (g, s, r) ->
  find_sub (args_with_disabled_hooks_if_needed true args) =
    Some ((if already_overrides_hooks args then [] else [gen_hooks_flag; gen_hooks_key_eq ++ gen_null_hooks_path]) ++ g, s, r).
Proof. exact hooks_prefix_find_sub. Qed.
Print Assumptions C12_hooks_prefix_keeps_subcommand.

(* ---- linked work trees: every probe of git's per-work-tree operation state (CHERRY_PICK_HEAD, sequencer/,
   rebase-merge/, MERGE_HEAD ...) found by the scan goes through the work tree's own git directory, never through
   the shared one; in particular all probes of the cherry-pick and rebase hooks *)
Theorem C12_state_probes_per_worktree :
  state_probes_ok gen_state_probes = true /\ hook_probes_per_worktree gen_state_probes = true /\
  Nat.leb 10 (length gen_state_probes) = true.
Proof. vm_compute. repeat split. Qed.
Print Assumptions C12_state_probes_per_worktree.

(* ---- non-vacuity *)

Example C12_ex_canonical_patch :
  map (canonical PatchParse) [CExtDiff; CTextconv; CSrcPrefix; CDstPrefix; CRelative; CColor; CAlgorithm; CIndent; CInterHunk]
  = [Some v_off; Some v_off; Some (s2l "a/"); Some (s2l "b/"); Some v_off; Some (s2l "never");
     Some (s2l "default"); Some v_on; Some (s2l "0")]
  /\ map (canonical PatchParse) [CRenames; CContext; CWordDiff; CQuotePath] = [None; None; None; None]
  /\ pinned_comps NumstatParse = [CExtDiff; CTextconv; CRelative; CColor; CRenames]
  /\ pinned_comps RawDiffParse = [CExtDiff; CTextconv; CRelative; CColor]
  /\ pinned_comps General = [].
Proof. vm_compute. repeat split. Qed.

(* the configuration does matter when nothing is pinned: the semantics is not trivial *)
Definition ex_cfg : config :=
  [(s2l "diff.noprefix", s2l "true"); (s2l "color.ui", s2l "always"); (s2l "diff.renames", s2l "copies");
   (s2l "diff.interhunkcontext", s2l "3"); (s2l "diff.relative", s2l "true"); (s2l "diff.algorithm", s2l "patience")].
Definition ex_args : list str :=
  [s2l "-C"; s2l "/w"; s2l "--no-pager"; s2l "diff"; s2l "-U0"; s2l "--no-color"; s2l "--no-renames";
   s2l "--color=always"; s2l "--src-prefix"; s2l "x/"; s2l "--ext-diff"; s2l "HEAD~1"; s2l "HEAD"; s2l "--"; s2l "--color"].

Example C12_ex_config_matters_unpinned :
  effective ex_cfg ex_args CSrcPrefix = Some (s2l "x/") /\
  effective ex_cfg ex_args CDstPrefix = Some [] /\
  effective ex_cfg ex_args CColor = Some (s2l "always") /\
  effective ex_cfg ex_args CInterHunk = Some (s2l "3") /\
  effective ex_cfg ex_args CExtDiff = Some v_on /\
  effective [] ex_args CDstPrefix = Some (s2l "b/").
Proof. vm_compute. repeat split. Qed.

Example C12_ex_pinned :
  args_with_internal_git_profile PatchParse ex_args =
    [s2l "-C"; s2l "/w"; s2l "--no-pager"; s2l "diff";
     s2l "--no-ext-diff"; s2l "--no-textconv"; s2l "--src-prefix=a/"; s2l "--dst-prefix=b/"; s2l "--no-relative";
     s2l "--diff-algorithm=default"; s2l "--indent-heuristic"; s2l "--inter-hunk-context=0";
     s2l "-U0"; s2l "--no-color"; s2l "--no-renames"; s2l "HEAD~1"; s2l "HEAD"; s2l "--"; s2l "--color"]
  /\ effective_fmt ex_cfg (args_with_internal_git_profile PatchParse ex_args) =
     effective_fmt [] (args_with_internal_git_profile PatchParse ex_args).
Proof. vm_compute. split; reflexivity. Qed.

(* the hypothesis of C12_profile_pins holds for the example *)
Example C12_ex_hyps :
  exists g s r, find_sub ex_args = Some (g, s, r) /\ survivors_tame PatchParse r.
Proof.
  eexists _, _, _. split; [vm_compute; reflexivity|].
  intros t Ht Hd. vm_compute in Ht.
  repeat (destruct Ht as [Ht|Ht]; [subst; first [reflexivity | vm_compute in Hd; discriminate]|]). destruct Ht.
Qed.
