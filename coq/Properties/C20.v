(* Properties/C20.v — agent hook ingestion never fails the agent and never escapes the repository.
   Only statements; every proof is `exact <lemma>` followed by Print Assumptions.  Pinned in statements.lock.

   Full-strength statement over the model (Model/Ingest.v), for every environment E (repositories that
   exist, process cwd, file-system answers incl. symbolic links, which checkpoint passes fail), every
   preset p and every hook input h (absent, blank, unreadable, not JSON, any JSON value):
      (S) status_of (handle_checkpoint E p h) = 0   and   handle_checkpoint E p h <> Panicked
      (R) recorded_in E o q r  ->  innermost (e_layout E) q = Some r            (only in the right repository)
      (O) innermost (e_layout E) q = None -> recorded nowhere                     (orphans ignored)
      (C) every listed file with innermost q = Some r is recorded in r            (nothing lost)
   (R) and (O) hold as stated.  (S) holds for every command line that is valid UTF-8, the process cwd may be
   gone (C20_status0, C20_never_panics: the repaired tree no longer unwraps current_dir(); the fact is
   read from the source, so the proofs stop compiling if the unwrap comes back).  The unconditional (S)
   is FALSE (C20_status0_refuted): a command line that is not UTF-8 is refused by clap with exit 2
   (class C20-K4).  (C) is FALSE (C20_nested_complete_refuted, class C20-K1): a file of a nested
   repository reported with the outer repository as working directory is recorded nowhere;
   C20_complete_* give the classes in which (C) holds.  Repaired and now proved: a request that names
   files never turns into a scan of the whole work tree (C20_listed_request_never_scans_all, was C20-K2);
   a listed spelling git refuses (`../o/a`, empty, NUL) is resolved or left out instead of failing the
   pass (Model.keeps / usable, was C20-K7; C20_ex_dotdot_reentry).  C20_failed_pass_records_nothing: a
   repository whose pass fails for other reasons records nothing.  Not modelled, found by the system-level
   oracle: C20-K6 (symlink read through by a whole-tree scan). *)
From Coq Require Import List NArith Bool.
From Verif Require Import Base.Str Gen.GenIngest Model.Ingest Proofs.IngestProofs.
Import ListNotations.
Open Scope N_scope.

Theorem C20_status0 : forall E p h, h <> HArgvNotUtf8 -> status_of (handle_checkpoint E p h) = 0.
Proof. exact status0. Qed.
Print Assumptions C20_status0.

Theorem C20_never_panics : forall E p h, handle_checkpoint E p h <> Panicked.
Proof. exact never_panics. Qed.
Print Assumptions C20_never_panics.

Theorem C20_status0_refuted : exists E p h, e_cwd E <> None /\ status_of (handle_checkpoint E p h) <> 0.
Proof. exact status0_refuted. Qed.
Print Assumptions C20_status0_refuted.

Theorem C20_exit_table_zero :
  exit_hook_empty = 0 /\ exit_hook_missing_value = 0 /\ exit_local_failed = 0 /\
  exit_main_after_git_ai = 0 /\ exit_no_repo_for_files = 0 /\ exit_no_repo_no_files = 0 /\
  exit_repo_excluded = 0 /\ exit_stdin_empty = 0 /\ exit_stdin_read_err = 0 /\
  forallb (fun e => snd e =? 0) hc_exits = true /\
  forallb (fun e => snd e =? 0) preset_table = true.
Proof. exact exits_all_zero. Qed.
Print Assumptions C20_exit_table_zero.

Theorem C20_routing : forall E p h q r,
  recorded_in E (handle_checkpoint E p h) q r -> innermost (e_layout E) q = Some r.
Proof. exact routing_hc. Qed.
Print Assumptions C20_routing.

Theorem C20_orphans_ignored : forall E p h q,
  innermost (e_layout E) q = None -> forall r, ~ recorded_in E (handle_checkpoint E p h) q r.
Proof. exact orphans_hc. Qed.
Print Assumptions C20_orphans_ignored.

Theorem C20_no_escape : forall E p h q r,
  recorded_in E (handle_checkpoint E p h) q r ->
  exists f, q = resolve E f /\ in_wd E r f = true /\ prefixb (workdir r) q = true.
Proof. exact no_escape. Qed.
Print Assumptions C20_no_escape.

Theorem C20_in_wd_componentwise : forall E r f,
  in_wd E r f = true <-> exists rest, resolve E f = workdir r ++ rest.
Proof. exact in_wd_componentwise. Qed.
Print Assumptions C20_in_wd_componentwise.

Theorem C20_sibling_not_inside : forall (w : path) (c c' : str) (rest : path),
  c' <> c -> prefixb (w ++ [c]) (w ++ c' :: rest) = false.
Proof. exact sibling_not_inside. Qed.
Print Assumptions C20_sibling_not_inside.

Theorem C20_recorded_componentwise : forall E p h q r,
  recorded_in E (handle_checkpoint E p h) q r -> exists rest, q = workdir r ++ rest.
Proof. exact recorded_componentwise. Qed.
Print Assumptions C20_recorded_componentwise.

Theorem C20_failed_pass_records_nothing : forall E p h q r,
  recorded_in E (handle_checkpoint E p h) q r -> is_bare r = false /\ e_run_fails E r = false.
Proof. exact failed_pass_records_nothing. Qed.
Print Assumptions C20_failed_pass_records_nothing.

Theorem C20_lexical_escape : forall E r f,
  e_stat E f = Missing -> prefixb (workdir r) (lexnorm f) = false -> in_wd E r f = false.
Proof. exact lexical_escape. Qed.
Print Assumptions C20_lexical_escape.

Theorem C20_dotdot_to_root : forall base n rest, (length base <= n)%nat ->
  lexnorm (raw_of_path base ++ repeat SUp n ++ raw_of_path rest) = rest.
Proof. exact dotdot_to_root. Qed.
Print Assumptions C20_dotdot_to_root.

Theorem C20_decoder_total : forall j,
  (exists r, decode_agent_v1 j = DOk r) \/ (exists e, decode_agent_v1 j = DErr e).
Proof. exact decoder_total. Qed.
Print Assumptions C20_decoder_total.

Theorem C20_decoder_ok_shape : forall j r, decode_agent_v1 j = DOk r ->
  is_container j = true /\ (rn_kind r = Human \/ rn_kind r = AiAgent) /\ exists w, rn_rwd r = Some w.
Proof. exact decoder_ok_shape. Qed.
Print Assumptions C20_decoder_ok_shape.

Theorem C20_decoder_rejects :
  (forall j, is_container j = false -> decode_agent_v1 j = DErr ENotTagged) /\
  (forall m, (forall k v, In (k, v) m -> k <> v1_tag) -> decode_agent_v1 (JObj m) = DErr EMissingTag) /\
  (forall m name, (forall k v, In (k, v) m -> k <> v1_tag) -> name <> s_human -> name <> s_ai_agent ->
                  decode_agent_v1 (JObj ((v1_tag, JStr name) :: m)) = DErr EUnknownVariant).
Proof. exact (conj decoder_scalar_rejected (conj decoder_missing_tag decoder_unknown_variant)). Qed.
Print Assumptions C20_decoder_rejects.

Theorem C20_complete_file_based : forall E base fl s f q r,
  In s fl -> absolutize_opt base s = Some f ->
  e_stat E f = IsFile q -> canon E (parent_raw f) = Some (removelast q) ->
  q <> [] -> worktree_root_at (e_layout E) q = None ->
  innermost (e_layout E) q = Some r -> is_submodule r = false ->
  match base with Some b => prefixb (resolve E b) (r_root r) = true | None => True end ->
  e_allowed E r = true -> e_run_fails E r = false ->
  recorded_in E (file_based_mode E base (Some fl)) q r.
Proof. exact complete_file_based. Qed.
Print Assumptions C20_complete_file_based.

Theorem C20_complete_primary : forall E p fl s f q,
  In s fl -> f = absolutize (raw_of_path (workdir p)) s ->
  keeps E p f = true -> resolve E f = q -> innermost (e_layout E) q = Some p ->
  e_run_fails E p = false ->
  recorded_in E (primary_mode E p (Some fl)) q p.
Proof. exact complete_primary. Qed.
Print Assumptions C20_complete_primary.

Theorem C20_complete_external : forall E p fl s f q r,
  In s fl -> f = absolutize (raw_of_path (workdir p)) s ->
  in_wd E p f = false ->
  e_stat E f = IsFile q -> canon E (parent_raw f) = Some (removelast q) ->
  q <> [] -> worktree_root_at (e_layout E) q = None ->
  innermost (e_layout E) q = Some r -> is_submodule r = false ->
  e_allowed E r = true -> e_run_fails E r = false ->
  recorded_in E (primary_mode E p (Some fl)) q r.
Proof. exact complete_external. Qed.
Print Assumptions C20_complete_external.

Theorem C20_nested_complete_refuted :
  exists E j s q r,
    decode_agent_v1 j = DOk (mkRun Human (Some s_ws_o) (Some [s]) None) /\
    q = resolve E (absolutize (raw_of_path (workdir w_outer)) s) /\
    innermost (e_layout E) q = Some r /\ e_run_fails E r = false /\ e_allowed E r = true /\
    status_of (handle_checkpoint E PAgentV1 (HText (Some j))) = 0 /\
    forall r', ~ recorded_in E (handle_checkpoint E PAgentV1 (HText (Some j))) q r'.
Proof. exact nested_dropped. Qed.
Print Assumptions C20_nested_complete_refuted.

Theorem C20_listed_request_never_scans_all : forall E cwd ov rn fl,
  rn_files rn = Some fl -> fl <> [] -> has_scope_all (route E cwd ov (Some rn)) = false.
Proof. exact listed_request_never_scans_all. Qed.
Print Assumptions C20_listed_request_never_scans_all.

Theorem C20_foreign_request_records_nothing :
  exists E j fs,
    decode_agent_v1 j = DOk (mkRun Human (Some s_ws_o) (Some fs) None) /\
    collapsed E w_outer (map (absolutize (raw_of_path (workdir w_outer))) fs) = true /\
    exists st ps, handle_checkpoint E PAgentV1 (HText (Some j)) = Exit st ps /\
                  In (mkPass w_outer ScopeNone false) ps /\ has_scope_all (Exit st ps) = false.
Proof. exact foreign_request_records_nothing. Qed.
Print Assumptions C20_foreign_request_records_nothing.

Theorem C20_foreign_guard_fields : foreign_guard_fields = [s_will; s_edited].
Proof. exact guard_fields_fact. Qed.
Print Assumptions C20_foreign_guard_fields.

Theorem C20_foreign_request_both_kinds :
  let E := w_env (Some (r_root w_outer)) in
  (exists st ps, handle_checkpoint E PAgentV1 (HText (Some (w_payload s_ws_o [s_abs_s_x]))) = Exit st ps /\
                 In (mkPass w_outer ScopeNone false) ps /\ has_scope_all (Exit st ps) = false /\
                 records E (Exit st ps) = [(w_sib, q_s_x)]) /\
  (exists rn, decode_agent_v1 (w_payload_ai s_ws_o [s_abs_s_x]) = DOk rn /\ rn_kind rn = AiAgent) /\
  (exists st ps, handle_checkpoint E PAgentV1 (HText (Some (w_payload_ai s_ws_o [s_abs_s_x]))) = Exit st ps /\
                 In (mkPass w_outer ScopeNone false) ps /\ has_scope_all (Exit st ps) = false /\
                 records E (Exit st ps) = [(w_sib, q_s_x)]).
Proof. exact foreign_request_both_kinds. Qed.
Print Assumptions C20_foreign_request_both_kinds.

(* non-vacuity: the nested layout /ws/{o,o/i,s} *)
Example C20_ex_workspace :
  records (w_env (Some w_ws)) (handle_checkpoint (w_env (Some w_ws)) PAgentV1 (HText (Some (w_payload s_ws w_all4))))
  = [(w_sib, q_s_x); (w_inner, q_i_x); (w_outer, q_o_a)].
Proof. exact ex_workspace. Qed.

Example C20_ex_dotdot :
  records (w_env (Some (r_root w_outer)))
          (handle_checkpoint (w_env (Some (r_root w_outer))) PAgentV1 (HText (Some (w_payload s_ws_o [[97]; s_up_s_x]))))
  = [(w_outer, q_o_a); (w_sib, q_s_x)].
Proof. exact ex_dotdot. Qed.

Example C20_ex_gone_cwd :
  let E := w_env None in
  let o := handle_checkpoint E PAgentV1 (HText (Some (w_payload s_ws_o [[97]; s_abs_s_x]))) in
  status_of o = 0 /\ records E o = [(w_outer, q_o_a); (w_sib, q_s_x)].
Proof. exact ex_gone_cwd. Qed.

Example C20_ex_dotdot_reentry :
  let E := w_env (Some (r_root w_outer)) in
  records E (handle_checkpoint E PAgentV1 (HText (Some (w_payload s_ws_o [[46; 46; 47; 111; 47; 97]]))))
  = [(w_outer, q_o_a)].
Proof. exact ex_dotdot_reentry. Qed.

Example C20_ex_complete_hyps :
  let E := w_env (Some w_ws) in
  let base := raw_of_path w_ws in
  let f := absolutize base [111; 47; 105; 47; 120] in
  e_stat E f = IsFile q_i_x /\ canon E (parent_raw f) = Some (removelast q_i_x) /\ q_i_x <> [] /\
  worktree_root_at (e_layout E) q_i_x = None /\ innermost (e_layout E) q_i_x = Some w_inner /\
  is_submodule w_inner = false /\ prefixb (resolve E base) (r_root w_inner) = true.
Proof. exact ex_complete_hyps. Qed.

Example C20_ex_decoder :
  decode_agent_v1 (w_payload s_ws_o [s_i_x]) = DOk (mkRun Human (Some s_ws_o) (Some [s_i_x]) None) /\
  decode_agent_v1 (JArr [JStr s_human; JStr s_ws_o; JNull]) = DOk (mkRun Human (Some s_ws_o) None None) /\
  decode_agent_v1 (JArr [JStr s_human; JStr s_ws_o]) = DErr ELength /\
  decode_agent_v1 (JObj [(v1_tag, JNum (NumU 0)); (s_rwd, JStr s_ws_o)]) = DErr ETagType /\
  decode_agent_v1 (JObj [(v1_tag, JStr s_human); (s_rwd, JNull)]) = DErr EType /\
  decode_agent_v1 (JObj [(v1_tag, JStr s_human); (s_rwd, JStr s_ws); (s_rwd, JStr s_ws)]) = DErr EDupField /\
  decode_agent_v1 (JObj [(v1_tag, JStr s_ai_agent); (s_rwd, JStr s_ws)]) = DErr EMissingField.
Proof. exact ex_decoder. Qed.
