(* Properties/C01_fmt.v — C01, format slice: the text protocol between
   `git diff -U0 --no-color --no-renames` (prefixes a/ b/) and git-ai's scanners of added lines.
   Statements only; every proof is `exact <lemma>` followed by Print Assumptions.

   Composition:   stdout bytes  = render qp d          (what git prints for the document d)
                  &str          = dec bytes            (String::from_utf8_lossy, as the callers do)
                  result        = parse_added text     (parse_diff_added_lines)
   Full-strength statement:  forall d, wf_doc d = true ->
                                 parse_added (dec (render true d)) = Ok (added_lines d).
   It is proved as stated (C01_fmt_parse_render).  Before the repairs (hunk-aware scanners, only
   git's TAB stripped from the header path, letter escapes a b v f, no slicing of a one-character
   path) it was false on three classes: an added line beginning with ++ and a space, an unquoted path
   ending in a space, a path containing BEL BS VT FF.  The former counterexamples are regression
   witnesses now (C01_fmt_former_witnesses).

   wf_doc: paths are bytes; mode / object names / body lines / section texts are LF-free; per file
   the new sides of the hunks are strictly increasing and disjoint with every line number (and old
   count, and new start) below 2^31; the paths of the files that have a +++ b/ line are distinct. *)
From Coq Require Import List NArith Bool.
From Verif Require Import Base.Str Model.DiffFmt Proofs.DiffFmtProofs.
Import ListNotations.
Open Scope N_scope.

Theorem C01_fmt_parse_render :
  forall d, wf_doc d = true -> parse_added (dec (render true d)) = Ok (added_lines d).
Proof. exact parse_render. Qed.
Print Assumptions C01_fmt_parse_render.

Theorem C01_fmt_parse_render_with_insertions :
  forall d, wf_doc d = true ->
    parse_added_with_insertions (dec (render true d)) = Ok (added_lines d, insertion_lines d).
Proof. exact parse_render_ins. Qed.
Print Assumptions C01_fmt_parse_render_with_insertions.

(* regression witnesses: the two-hunk example with an added line ++ weird; the path trail+blank;
   the path bel+BEL; the added line consisting of ++, a blank and one double quote *)
Theorem C01_fmt_former_witnesses :
  (wf_doc wit_k1 = true /\ parse_added (dec (render true wit_k1)) = Ok [(p_f, [2; 6])]) /\
  (wf_doc wit_k2 = true /\ parse_added (dec (render true wit_k2)) = Ok [([116;114;97;105;108;32], [1])]) /\
  (wf_doc wit_k3 = true /\ parse_added (dec (render true wit_k3)) = Ok [([98;101;108;7], [1])]) /\
  (wf_doc wit_panic = true /\ parse_added (dec (render true wit_panic)) = Ok [(p_f, [1])]).
Proof. exact former_witnesses. Qed.
Print Assumptions C01_fmt_former_witnesses.

(* C12 corner: core.quotePath does not change a single byte when all paths are ASCII *)
Theorem C01_fmt_quotepath_independent :
  forall d, ascii_paths d = true -> render false d = render true d.
Proof. exact render_qp. Qed.
Print Assumptions C01_fmt_quotepath_independent.

(* a rendered hunk header (any old start, any trailing text T after the closing @@) yields exactly
   ns .. ns+nc-1 and the flag oc = 0 *)
Theorem C01_fmt_hunk_header :
  forall os oc ns nc T, oc <= u32_max -> ns + nc <= u32_max ->
    parse_hunk_header (hh_text os oc ns nc ++ T)
    = Ok (Some (if nc =? 0 then ([], false) else (iota ns (N.to_nat nc), oc =? 0))).
Proof. exact hunk_header_parse. Qed.
Print Assumptions C01_fmt_hunk_header.

Theorem C01_fmt_hunk_header_total :
  forall os oc ns nc T, oc <= u32_max -> ns + nc <= u32_max ->
    parse_hunk_header (hh_text os oc ns nc ++ T) <> Panic.
Proof. intros os oc ns nc T H1 H2. rewrite (hunk_header_parse os oc ns nc T H1 H2). discriminate. Qed.
Print Assumptions C01_fmt_hunk_header_total.

(* start + count is evaluated in u32: the header  @@ -1 +4294967295 @@  panics (debug builds);
   git never prints such a header (line numbers of a blob are far below 2^31) *)
Theorem C01_fmt_hunk_header_overflow_refuted :
  exists line, parse_hunk_header line = Panic.
Proof. eexists. exact hunk_header_overflow. Qed.
Print Assumptions C01_fmt_hunk_header_overflow_refuted.

(* path_ok p: every element is a byte.  The result is the String from_utf8_lossy gives for the
   bytes p (= the file name when p is valid UTF-8). *)
Theorem C01_fmt_unescape_quote :
  forall p, path_ok p = true -> unescape_git_path (quote_c_style true p) = dec p.
Proof. exact unescape_quote. Qed.
Print Assumptions C01_fmt_unescape_quote.

(* the one-character path is returned as is (it used to be sliced [1..0]) *)
Theorem C01_fmt_unescape_lone_quote : unescape_git_path [34] = [34].
Proof. exact unescape_lone_quote. Qed.
Print Assumptions C01_fmt_unescape_lone_quote.

(* dec really is a UTF-8 decoder: it inverts char::encode_utf8 on scalar values *)
Theorem C01_fmt_lossy_roundtrip :
  forall s, forallb is_scalar s = true -> dec (enc s) = s.
Proof. exact dec_enc. Qed.
Print Assumptions C01_fmt_lossy_roundtrip.

(* non-vacuity: a document with a quoted path (space, double quote, backslash, non-ASCII bytes), a
   path with a space (TAB after the label), a path beginning with a/, a deleted file, a new file,
   a section without hunks, a deletion-only hunk, body lines that look like diff syntax (-- y,
   a hunk header, + x, ++, +++, ++ weird, ++ /dev/null followed by a later hunk), CRLF, no-newline
   markers, a function context containing @@, a path ending in two blanks and a path made of BEL
   and FF satisfies the hypothesis, and the scanners return the seven live files *)
Theorem C01_fmt_nonvacuous :
  wf_doc wit_ok = true /\
  parse_added_with_insertions (dec (render true wit_ok))
  = Ok ([([7;12], [1]); ([97;32;34;92;233], [3;4;10;11]); ([97;47;98], [1;2]); ([107;49], [2;3;4;11]);
         ([110], [1]); ([116;32;32], [1]); ([120;32;121], [])],
        [([7;12], [1]); ([97;47;98], [1;2]); ([107;49], [2;3;4]); ([110], [1]); ([116;32;32], [1])]).
Proof. split; [exact wit_ok_inside|exact wit_ok_value]. Qed.
Print Assumptions C01_fmt_nonvacuous.
