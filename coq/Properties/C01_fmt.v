(* Properties/C01_fmt.v — C01, format slice: the text protocol between
   `git diff -U0 --no-color --no-renames` (prefixes a/ b/) and git-ai's scanners of added lines.
   Statements only; every proof is `exact <lemma>` followed by Print Assumptions.

   Composition:   stdout bytes  = render qp d          (what git prints for the document d)
                  &str          = dec bytes            (String::from_utf8_lossy, as the callers do)
                  result        = parse_added text     (parse_diff_added_lines)
   Full-strength statement:  forall d, wf_doc d = true ->
                                 parse_added (dec (render true d)) = Ok (added_lines d).
   It is FALSE of the faithful model (C01_fmt_refuted: the two-hunk example with an added line
   beginning with ++ and a space); C01_fmt_parse_render is the statement outside the decidable class
   Known_C01_fmt (K1 added line beginning with ++ space; K2 unquoted path ending in a space;
   K3 path containing BEL, BS, VT or FF).  A removed line beginning with -- space is harmless
   (it is inside the theorem, see wit_ok).

   wf_doc: paths are bytes; mode / object names / body lines / section texts are LF-free; per file
   the new sides of the hunks are strictly increasing and disjoint with every line number (and old
   count, and new start) below 2^31; the paths of the files that have a +++ b/ line are distinct. *)
From Coq Require Import List NArith Bool.
From Verif Require Import Base.Str Model.DiffFmt Proofs.DiffFmtProofs.
Import ListNotations.
Open Scope N_scope.

Theorem C01_fmt_parse_render :
  forall d, wf_doc d = true -> Known_C01_fmt d = false ->
    parse_added (dec (render true d)) = Ok (added_lines d).
Proof. exact parse_render. Qed.
Print Assumptions C01_fmt_parse_render.

Theorem C01_fmt_parse_render_with_insertions :
  forall d, wf_doc d = true -> Known_C01_fmt d = false ->
    parse_added_with_insertions (dec (render true d)) = Ok (added_lines d, insertion_lines d).
Proof. exact parse_render_ins. Qed.
Print Assumptions C01_fmt_parse_render_with_insertions.

Theorem C01_fmt_refuted :
  exists d, wf_doc d = true /\ Known_C01_fmt d = true /\
            parse_added (dec (render true d)) <> Ok (added_lines d).
Proof. exists wit_k1. exact wit_k1_refutes. Qed.
Print Assumptions C01_fmt_refuted.

(* K1: the later AI line 6 is filed under the bogus path weird; K2, K3: the path is mangled;
   and an added line consisting of ++, a space and one double quote makes the scanner panic (slice [1..0] in unescape_git_path) *)
Theorem C01_fmt_known_classes_fail :
  parse_added (dec (render true wit_k1)) = Ok [(p_f, [2]); ([119;101;105;114;100], [6])] /\
  added_lines wit_k1 = [(p_f, [2; 6])] /\
  (wf_doc wit_k2 = true /\ parse_added (dec (render true wit_k2)) <> Ok (added_lines wit_k2)) /\
  (wf_doc wit_k3 = true /\ parse_added (dec (render true wit_k3)) <> Ok (added_lines wit_k3)) /\
  (wf_doc wit_panic = true /\ parse_added (dec (render true wit_panic)) = Panic).
Proof. exact known_classes_fail. Qed.
Print Assumptions C01_fmt_known_classes_fail.

(* C12 corner: core.quotePath does not change a single byte when all paths are ASCII *)
Theorem C01_fmt_quotepath_independent :
  forall d, ascii_paths d = true -> render false d = render true d.
Proof. exact render_qp. Qed.
Print Assumptions C01_fmt_quotepath_independent.

(* a rendered hunk header (any old start, any trailing text T after the closing @@) yields exactly
   ns .. ns+nc-1 and the flag oc = 0 *)
Theorem C01_fmt_hunk_header :
  forall os oc ns nc T, oc <= u32_max -> ns + nc <= u32_max ->
    parse_hunk_header (hh_text os oc ns nc ++ T)
    = Ok (Some (if nc =? 0 then ([], false) else (iota ns (N.to_nat nc), oc =? 0))).
Proof. exact hunk_header_parse. Qed.
Print Assumptions C01_fmt_hunk_header.

Theorem C01_fmt_hunk_header_total :
  forall os oc ns nc T, oc <= u32_max -> ns + nc <= u32_max ->
    parse_hunk_header (hh_text os oc ns nc ++ T) <> Panic.
Proof. intros os oc ns nc T H1 H2. rewrite (hunk_header_parse os oc ns nc T H1 H2). discriminate. Qed.
Print Assumptions C01_fmt_hunk_header_total.

(* start + count is evaluated in u32: the header  @@ -1 +4294967295 @@  panics (debug builds) *)
Theorem C01_fmt_hunk_header_overflow_refuted :
  exists line, parse_hunk_header line = Panic.
Proof. eexists. exact hunk_header_overflow. Qed.
Print Assumptions C01_fmt_hunk_header_overflow_refuted.

(* path_ok p: every element is a byte and none is BEL, BS, VT, FF.  The result is the String
   from_utf8_lossy gives for the bytes p (= the file name when p is valid UTF-8). *)
Theorem C01_fmt_unescape_quote :
  forall p, path_ok p = true -> unescape_git_path (quote_c_style true p) = Ok (dec p).
Proof. exact unescape_quote. Qed.
Print Assumptions C01_fmt_unescape_quote.

Theorem C01_fmt_unescape_quote_refuted :
  exists p, forallb is_byte p = true /\ unescape_git_path (quote_c_style true p) <> Ok (dec p).
Proof. exact unescape_quote_refuted. Qed.
Print Assumptions C01_fmt_unescape_quote_refuted.

Theorem C01_fmt_unescape_panic_refuted : unescape_git_path [34] = Panic.
Proof. exact unescape_panics. Qed.
Print Assumptions C01_fmt_unescape_panic_refuted.

(* dec really is a UTF-8 decoder: it inverts char::encode_utf8 on scalar values *)
Theorem C01_fmt_lossy_roundtrip :
  forall s, forallb is_scalar s = true -> dec (enc s) = s.
Proof. exact dec_enc. Qed.
Print Assumptions C01_fmt_lossy_roundtrip.

(* non-vacuity: a document with a quoted path (space, double quote, backslash, non-ASCII bytes), a
   path with a space (TAB after the label), a path beginning with a/, a deleted file, a new file,
   a section without hunks, a deletion-only hunk, body lines that look like diff syntax (-- y,
   a hunk header, + x, ++, +++), CRLF, no-newline markers and a function context containing @@
   satisfies the hypotheses, and the scanners return the four live files *)
Theorem C01_fmt_nonvacuous :
  wf_doc wit_ok = true /\ Known_C01_fmt wit_ok = false /\
  parse_added_with_insertions (dec (render true wit_ok))
  = Ok ([([97;32;34;92;233], [3;4;10;11]); ([97;47;98], [1;2]); ([110], [1]); ([120;32;121], [])],
        [([97;47;98], [1;2]); ([110], [1])]).
Proof. split; [apply wit_ok_inside|]. split; [apply wit_ok_inside|exact wit_ok_value]. Qed.
Print Assumptions C01_fmt_nonvacuous.
