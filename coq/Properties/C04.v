(* Properties/C04.v -- uncommitted AI work is carried to the commit that finally contains it, once
   (the pure split at the heart of the property: one file, one commit; and the carry step).
   Only statements; every proof is `exact <lemma>` followed by Print Assumptions.
   Statements are pinned in /verif/statements.lock.

   Setting.  A file version is a list of pairwise distinct line ids: P parent, C commit,
   W work tree.  committed P C / unstaged C W / hunks_of C W are the added-line numbers and the hunk
   extents that `git diff -U0` reports.  split_file is the per-file body of
   VirtualAttributions::to_authorship_log_and_initial_working_log WITH the repair of the work-tree ->
   commit line translation (each hunk that ends before a line shifts it by old_count - new_count);
   split_exact (Model/Split.v) says: every AI-claimed line x of W is in exactly one of
     (i)   x in C, not in P: the note lists x's position in C for x's author, INITIAL does not list it
     (ii)  x not in C: INITIAL lists x's position in W for x's author
     (iii) x in C and in P: listed nowhere
   every listed line comes from such a claim (nothing else, nothing human), no (author, line)
   pair is listed twice and no line is listed for two authors.

   History.  Before the repair the translation subtracted only the unstaged added lines above a
   line; the statement then needed the side condition "deletions / replacements only below every kept
   line" and was refuted by an unstaged deletion (C04-K1) and an unstaged 1:1 modification (C04-K2)
   above staged AI lines.  Those witnesses are now positive theorems (C04_deletion_fixed,
   C04_modify_fixed) and C04_split_exact holds for every order-preserving C, W.

   Full-strength statement (all P C W with wf3 P C W = true and all well-formed attrs) is still
   FALSE of the faithful model in one deliberate case: C04_hidden_refuted (an unstaged rewrite of a
   just-committed line is credited to the commit, C04-K3).  The remaining side condition is the
   boolean no_hidden; Known_C04 = negb no_hidden.  C04_unkept_line_unrecorded states the limit C04-K4. *)
From Coq Require Import List NArith Bool Sorted.
From Verif Require Import Base.Str Base.RangeSet Gen.GenSplit Model.Split Model.SplitCarry
     Proofs.SplitProofs Proofs.SplitCarryProofs.
Import ListNotations.
Open Scope N_scope.

Theorem C04_expand_compress :
  forall l, StronglySorted N.lt l -> flat_map expand (compress_lines l) = l.
Proof. exact expand_compress. Qed.
Print Assumptions C04_expand_compress.

Theorem C04_compress_wf : forall l, StronglySorted N.lt l -> ranges_wf (compress_lines l).
Proof. exact compress_wf. Qed.
Print Assumptions C04_compress_wf.

Theorem C04_split_no_panic : forall attrs K U H, split_file attrs K U H <> SPanic.
Proof. exact split_no_panic. Qed.
Print Assumptions C04_split_no_panic.

(* the repaired translation is exact for every kept line, whatever was inserted, deleted or
   rewritten above it *)
Theorem C04_translation_exact :
  forall C W w x c, ordered C W = true -> at_pos W w x -> index_of x C = Some c ->
  to_commit_line (hunks_of C W) w = Some c.
Proof. exact to_commit_line_exact. Qed.
Print Assumptions C04_translation_exact.

Theorem C04_split_exact :
  forall P C W, NoDup W -> ordered C W = true -> no_hidden P C W = true ->
  forall attrs, attrs_wf W attrs ->
  exists note ini,
    split_file attrs (committed P C) (unstaged C W) (hunks_of C W) = SOk note ini /\
    split_exact P C W attrs note ini.
Proof. exact split_exact_holds. Qed.
Print Assumptions C04_split_exact.

(* the same with every hypothesis decidable *)
Theorem C04_split_exact_decidable :
  forall P C W attrs,
  wf3 P C W = true -> attrs_wfb W attrs = true -> no_hidden P C W = true ->
  exists note ini, run_spec P C W attrs = SOk note ini /\ split_exact P C W attrs note ini.
Proof. exact split_exact_decidable. Qed.
Print Assumptions C04_split_exact_decidable.

(* limit of the split (known class C04-K4): a line of the commit that the work tree no longer has
   is recorded for nobody, whoever wrote it *)
Theorem C04_unkept_line_unrecorded :
  forall P C W attrs note ini, split_exact P C W attrs note ini ->
  forall c y, at_pos C c y -> ~ In y W -> forall a, note_lists note a c = false.
Proof. exact unkept_line_unrecorded. Qed.
Print Assumptions C04_unkept_line_unrecorded.

(* The carry.  post_commit re-examines every file named by the INITIAL of the parent's working log
   (pathspec union; shapes regenerated from post_commit.rs into Gen/GenSplit.v -- a condition on that
   loop flips initial_loop_unconditional and this proof stops checking).  For such a file that the
   commit does not touch (no committed hunk) and whose claimed lines are all still uncommitted, the next
   INITIAL keeps exactly the non-human claims, once, and the note gets nothing: whatever other files
   have checkpoints (cps), whatever else INITIAL names. *)
Theorem C04_carry :
  forall cps ini_files keep f attrs U H,
  In f ini_files -> StronglySorted N.lt U -> (forall a w, claim attrs w a -> In w U) ->
  exists ini, post_commit_file cps ini_files keep f attrs [] U H = SOk [] ini /\
    (forall a w, init_lists ini a w = true <-> a <> human /\ claim attrs w a) /\
    NoDup (init_lines ini).
Proof. exact carry. Qed.
Print Assumptions C04_carry.

(* the carried claims are re-anchored by the pre-commit checkpoint: it is never skipped while INITIAL
   names a file, whatever (human) checkpoints the working log already holds (fact regenerated from
   checkpoint.rs: precommit_runs_on_any_initial) *)
Theorem C04_carry_precommit_runs :
  forall no_ai im ini touched other f,
  In f ini -> precommit_skipped no_ai im ini touched other = false.
Proof. exact precommit_runs_with_initial. Qed.
Print Assumptions C04_carry_precommit_runs.

(* why the pathspec union matters: a file outside the pathspecs loses every claim *)
Theorem C04_carry_needs_pathspec :
  forall cps ini_files keep f attrs K U H,
  path_mem f (post_commit_pathspecs cps ini_files keep) = false ->
  post_commit_file cps ini_files keep f attrs K U H = SOk [] [].
Proof. exact not_in_pathspecs_forgotten. Qed.
Print Assumptions C04_carry_needs_pathspec.

(* regression witnesses of the repaired defects C04-K1 / C04-K2 (formerly C04_deletion_refuted,
   C04_modify_refuted): the side condition holds and the split is exact *)
Theorem C04_deletion_fixed : holds [1] [1; 2] [2] [ai 1 1] [(s1, [LSingle 2])] [].
Proof. exact deletion_fixed. Qed.
Print Assumptions C04_deletion_fixed.

Theorem C04_modify_fixed : holds [1] [1; 2] [3; 2] [ai 2 2] [(s1, [LSingle 2])] [].
Proof. exact modify_fixed. Qed.
Print Assumptions C04_modify_fixed.

Theorem C04_hidden_refuted : refuted [1] [1; 2] [1; 3] [ai 2 2].
Proof. exact hidden_refuted. Qed.
Print Assumptions C04_hidden_refuted.

(* non-vacuity: a partial commit with unstaged pure insertions above, inside and below the
   committed AI lines; and one with an unstaged deletion, modification and insertion above and a
   replaced tail below them *)
Example C04_nonvacuous :
  (committed nv_P nv_C, unstaged nv_C nv_W, hunks_of nv_C nv_W)
    = ([3; 4], [2; 5; 8], [(0, 2, 1); (0, 5, 1); (0, 8, 1)]) /\
  holds nv_P nv_C nv_W nv_attrs [(s1, [LRange 3 4])] [ai 2 2; ai 5 5; ai 8 8].
Proof. exact nonvacuous. Qed.

Example C04_nonvacuous_edits_above :
  hunks_of [1; 2; 4; 10; 11; 3] [20; 4; 21; 10; 11; 22] = [(2, 1, 1); (0, 3, 1); (1, 6, 1)] /\
  holds [1; 2; 4; 3] [1; 2; 4; 10; 11; 3] [20; 4; 21; 10; 11; 22] [ai 3 5]
        [(s1, [LRange 4 5])] [ai 3 3].
Proof. exact nonvacuous_edits_above. Qed.
