(* Properties/C04.v -- uncommitted AI work is carried to the commit that finally contains it, once
   (the pure split at the heart of the property: one file, one commit).
   Only statements; every proof is `exact <lemma>` followed by Print Assumptions.
   Statements are pinned in /verif/statements.lock.

   Setting.  A file version is a list of pairwise distinct line ids: P parent, C commit,
   W work tree.  committed P C / unstaged C W / pure_ins C W are the added-line numbers that
   `git diff -U0` reports (hunks with old_count = 0 for pure_ins).  split_file is the per-file body
   of VirtualAttributions::to_authorship_log_and_initial_working_log; split_exact (Model/Split.v)
   says: every AI-claimed line x of W is in exactly one of
     (i)   x in C, not in P: the note lists x's position in C for x's author, INITIAL does not list it
     (ii)  x not in C: INITIAL lists x's position in W for x's author
     (iii) x in C and in P: listed nowhere
   every listed line comes from such a claim (nothing else, nothing human), no (author, line)
   pair is listed twice and no line is listed for two authors.

   Full-strength statement (all P C W with wf3 P C W = true and all well-formed attrs):
       exists note ini, run_spec P C W attrs = SOk note ini /\ split_exact P C W attrs note ini
   It is FALSE of the faithful model: C04_deletion_refuted (unstaged deletion above staged AI
   lines), C04_modify_refuted (unstaged 1:1 modification of a pre-existing line above staged AI
   lines), C04_hidden_refuted (unstaged rewrite of a just-committed line whose work-tree number is a
   committed line number: the filter step hides it).  C04_split_exact is the statement under the
   boolean side condition shift_consistent = no_hidden && offsets_ok (Model/Split.v);
   C04_struct_implies_consistent gives its structural reading no_hidden && tail_only;
   Known_C04 = negb shift_consistent. *)
From Coq Require Import List NArith Bool Sorted.
From Verif Require Import Base.Str Base.RangeSet Gen.GenSplit Model.Split Model.SplitCarry
     Proofs.SplitProofs Proofs.SplitCarryProofs.
Import ListNotations.
Open Scope N_scope.

Theorem C04_expand_compress :
  forall l, StronglySorted N.lt l -> flat_map expand (compress_lines l) = l.
Proof. exact expand_compress. Qed.
Print Assumptions C04_expand_compress.

Theorem C04_compress_wf : forall l, StronglySorted N.lt l -> ranges_wf (compress_lines l).
Proof. exact compress_wf. Qed.
Print Assumptions C04_compress_wf.

Theorem C04_split_no_panic :
  forall attrs K U Pu, StronglySorted N.lt U -> split_file attrs K U Pu <> SPanic.
Proof. exact split_no_panic. Qed.
Print Assumptions C04_split_no_panic.

Theorem C04_split_exact :
  forall P C W, NoDup W -> shift_consistent P C W = true ->
  forall attrs, attrs_wf W attrs ->
  exists note ini,
    split_file attrs (committed P C) (unstaged C W) (pure_ins C W) = SOk note ini /\
    split_exact P C W attrs note ini.
Proof. exact split_exact_holds. Qed.
Print Assumptions C04_split_exact.

Theorem C04_struct_implies_consistent :
  forall P C W, NoDup C -> NoDup W -> same_order C W = true ->
  shift_consistent_struct P C W = true -> shift_consistent P C W = true.
Proof. exact struct_implies_sc. Qed.
Print Assumptions C04_struct_implies_consistent.

Theorem C04_split_exact_insertions :
  forall P C W attrs, NoDup C -> NoDup W -> same_order C W = true ->
  (forall x, In x C -> In x W) -> attrs_wf W attrs ->
  exists note ini,
    split_file attrs (committed P C) (unstaged C W) (pure_ins C W) = SOk note ini /\
    split_exact P C W attrs note ini.
Proof. exact split_exact_insertions. Qed.
Print Assumptions C04_split_exact_insertions.

(* limit of the split (known class C04-K4): a line of the commit that the work tree no longer has
   is recorded for nobody, whoever wrote it *)
Theorem C04_unkept_line_unrecorded :
  forall P C W attrs note ini, split_exact P C W attrs note ini ->
  forall c y, at_pos C c y -> ~ In y W -> forall a, note_lists note a c = false.
Proof. exact unkept_line_unrecorded. Qed.
Print Assumptions C04_unkept_line_unrecorded.

(* The carry.  post_commit re-examines every file named by the INITIAL of the parent's working log
   (pathspec union; shapes regenerated from post_commit.rs into Gen/GenSplit.v -- a condition on that
   loop flips initial_loop_unconditional and this proof stops checking).  For such a file that the
   commit does not touch (no committed hunk) and whose claimed lines are all still uncommitted, the next
   INITIAL keeps exactly the non-human claims, once, and the note gets nothing: whatever other files
   have checkpoints (cps), whatever else INITIAL names. *)
Theorem C04_carry :
  forall cps ini_files keep f attrs U Pu,
  In f ini_files -> StronglySorted N.lt U -> (forall a w, claim attrs w a -> In w U) ->
  exists ini, post_commit_file cps ini_files keep f attrs [] U Pu = SOk [] ini /\
    (forall a w, init_lists ini a w = true <-> a <> human /\ claim attrs w a) /\
    NoDup (init_lines ini).
Proof. exact carry. Qed.
Print Assumptions C04_carry.

(* why the pathspec union matters: a file outside the pathspecs loses every claim *)
Theorem C04_carry_needs_pathspec :
  forall cps ini_files keep f attrs K U Pu,
  path_mem f (post_commit_pathspecs cps ini_files keep) = false ->
  post_commit_file cps ini_files keep f attrs K U Pu = SOk [] [].
Proof. exact not_in_pathspecs_forgotten. Qed.
Print Assumptions C04_carry_needs_pathspec.

Theorem C04_deletion_refuted : refuted [1] [1; 2] [2] [ai 1 1].
Proof. exact deletion_refuted. Qed.
Print Assumptions C04_deletion_refuted.

Theorem C04_modify_refuted : refuted [1] [1; 2] [3; 2] [ai 2 2].
Proof. exact modify_refuted. Qed.
Print Assumptions C04_modify_refuted.

Theorem C04_hidden_refuted : refuted [1] [1; 2] [1; 3] [ai 2 2].
Proof. exact hidden_refuted. Qed.
Print Assumptions C04_hidden_refuted.

(* non-vacuity: a partial commit with unstaged pure insertions above, inside and below the
   committed AI lines meets the side condition, and the model output is the expected split *)
Example C04_nonvacuous :
  wf3 nv_P nv_C nv_W = true /\ attrs_wfb nv_W nv_attrs = true /\
  shift_consistent nv_P nv_C nv_W = true /\
  (committed nv_P nv_C, unstaged nv_C nv_W, pure_ins nv_C nv_W) = ([3; 4], [2; 5; 8], [2; 5; 8]) /\
  run_spec nv_P nv_C nv_W nv_attrs
  = SOk [(s1, [LRange 3 4])] [ai 2 2; ai 5 5; ai 8 8].
Proof. exact nonvacuous. Qed.

Example C04_nonvacuous_tail :
  wf3 [1; 2] [1; 10; 2] [11; 1; 10; 12] = true /\
  shift_consistent [1; 2] [1; 10; 2] [11; 1; 10; 12] = true /\
  run_spec [1; 2] [1; 10; 2] [11; 1; 10; 12] [ai 1 1; ai 3 4]
  = SOk [(s1, [LSingle 2])] [ai 1 1; ai 4 4].
Proof. exact nonvacuous_tail. Qed.
