(* Properties/C05.v -- every authorship note is well-formed, self-contained and matches its commit.
   Only statements; every proof is `exact <lemma>` followed by Print Assumptions.

   Full-strength statement: at every moment, for every layout of the tree behind refs/notes/ai,
   each annotated object has exactly one note, and that note satisfies note_ok against its commit.
   Proved here:
     (1) notes tree: for EVERY layout git's reader accepts (any fan-out depth) a batch write keeps
         `one entry per object` and the code's lookup agrees with git's reader
         (C05_batch_unique_any_layout, C05_lookup_complete_any_layout; they use the translated fact
         gn_all_layouts: the writers delete and the reader probes every fan-out form).  The code
         before that repair handled depth <= 1 only (C05_batch_unique, C05_lookup_complete hold for
         both versions) and is refuted on deeper trees (C05_fanout2_refuted).
     (2) producers of the attestation section: for ANY line attributions (overlapping, unsorted,
         duplicated) both builders emit, per author, non-empty, sorted, non-overlapping and
         non-adjacent ranges whose line set is exactly the union of that author's intervals, never
         the author `human`, each author once; if all intervals lie in 1..line_count the emitted
         attestation passes the note_ok checks of its file.
     (3) base_commit_sha remap: exactly the value of the metadata field is replaced, whatever the
         attestation section above the divider contains (uses the translated fact
         gn_remap_after_divider); searching the whole note, as the code before that repair did, is
         refuted on a note that names a file containing the literal (C05_remap_marker_fixed).
   The repository-wide invariant over operation sequences is decided by the system-level oracle
   (vlib/c05.py); the rebase / cherry-pick content replay violates it (known class, see there). *)
From Coq Require Import List NArith Bool PeanoNat.
From Verif Require Import Base.Str Base.RangeSet Gen.GenNotes Model.NotesTree Model.NoteOk
  Proofs.NotesTreeProofs Proofs.NoteOkProofs.
Import ListNotations.
Open Scope N_scope.

(* ---------------------------------------------------------------- (1) the notes tree *)
Theorem C05_batch_unique : forall t es,
  layout_le1 t = true -> unique_keys t -> unique_keys (batch_write t es).
Proof. exact batch_unique. Qed.
Print Assumptions C05_batch_unique.

Theorem C05_batch_layout : forall t es,
  layout_le1 t = true -> layout_le1 (batch_write t es) = true.
Proof. exact batch_layout. Qed.
Print Assumptions C05_batch_layout.

Theorem C05_lookup_complete : forall t sha,
  layout_le1 t = true -> unique_keys t -> opt_list (lookup t sha) = git_lookup t sha.
Proof. exact lookup_complete. Qed.
Print Assumptions C05_lookup_complete.

Theorem C05_batch_preserves_others : forall t es k,
  layout_le1 t = true -> long_keys t = true ->
  Forall (fun e => (2 < length (fst e))%nat) es ->
  ~ In k (map fst es) ->
  forall p b, key p = k -> (In (p, b) (batch_write t es) <-> In (p, b) t).
Proof. exact batch_preserves_others. Qed.
Print Assumptions C05_batch_preserves_others.

Theorem C05_all_layouts : gn_all_layouts = true.
Proof. exact all_layouts. Qed.
Print Assumptions C05_all_layouts.

Theorem C05_batch_unique_any_layout : forall t es,
  layout_ok t = true -> unique_keys t ->
  layout_ok (batch_write t es) = true /\ unique_keys (batch_write t es).
Proof. exact batch_unique_any_layout. Qed.
Print Assumptions C05_batch_unique_any_layout.

Theorem C05_lookup_complete_any_layout : forall t sha,
  layout_ok t = true -> unique_keys t -> opt_list (lookup t sha) = git_lookup t sha.
Proof. exact lookup_complete_any_layout. Qed.
Print Assumptions C05_lookup_complete_any_layout.

(* the code before the repair (two layouts only) on a tree holding ab/cd/ef, and the repaired code
   on the same tree *)
Theorem C05_fanout2_refuted :
  exists t sha b,
    Known_C05_fanout t = true /\ layout_ok t = true /\ unique_keysb t = true /\
    unique_keysb (batch_write_with false t [(sha, b)]) = false /\
    length (git_lookup (batch_write_with false t [(sha, b)]) sha) = 2%nat /\
    git_lookup t sha <> [] /\ lookup_with false t sha = None /\
    unique_keysb (batch_write_with true t [(sha, b)]) = true /\ lookup_with true t sha = Some 1.
Proof. exact fanout2_refuted. Qed.
Print Assumptions C05_fanout2_refuted.

Theorem C05_unique_keysb_spec : forall t, unique_keysb t = true <-> unique_keys t.
Proof. exact unique_keysb_spec. Qed.
Print Assumptions C05_unique_keysb_spec.

Theorem C05_notes_path_components : forall oid s,
  notes_path_for_object oid = Ok s -> mem c_slash oid = false ->
  split_on c_slash s = fanout_path oid.
Proof. exact notes_path_components. Qed.
Print Assumptions C05_notes_path_components.

(* ---------------------------------------------------------------- (2) the producers *)
Theorem C05_attestation_wf : forall path las,
  Forall u32_attr las ->
  match build_file_attestation path las with
  | None => forall x, In x las -> la_author x = human
  | Some (p, es) =>
      p = path /\ es <> [] /\ NoDup (map fst es)
      /\ (forall a, In a (map fst es) <-> a <> human /\ exists x, In x las /\ la_author x = a)
      /\ Forall (entry_wf las) es
  end.
Proof. exact attestation_wf. Qed.
Print Assumptions C05_attestation_wf.

Theorem C05_build_ranges_ok : forall path las lc prompts,
  Forall (fun x => 1 <= la_start x /\ la_start x <= la_end x /\ la_end x <= lc) las ->
  lc <= u32_max ->
  (forall x, In x las -> la_author x <> human -> In (la_author x) prompts) ->
  match build_file_attestation path las with
  | None => True
  | Some f => forallb (entry_ok lc prompts) (snd f) = true
  end.
Proof. exact build_ranges_ok. Qed.
Print Assumptions C05_build_ranges_ok.

Theorem C05_to_authorship_log_spec : forall files f,
  In f (to_authorship_log files) <->
  exists p las, In (p, las) files /\ build_file_attestation p las = Some f.
Proof. exact to_authorship_log_spec. Qed.
Print Assumptions C05_to_authorship_log_spec.

Theorem C05_upsert_spec : forall atts path las ex f,
  In f (upsert atts path las ex) <->
  (In f atts /\ fst f <> path) \/ (ex = true /\ build_file_attestation path las = Some f).
Proof. exact upsert_spec. Qed.
Print Assumptions C05_upsert_spec.

(* the content replay of rebase / cherry-pick keeps the attestations of files that the commit being
   written does not contain (known class Known_C05_replay; witness replayed on the real binary) *)
Theorem C05_replay_refuted :
  exists head_state changes files self,
    note_ok (fun p => if str_eqb p [97] then Some 3 else if str_eqb p [98] then Some 2 else None) self
            (mkNote (to_authorship_log head_state) [w_s] self) = true
    /\ note_ok files self (mkNote (replay_commit (to_authorship_log head_state) changes) [w_s] self) = false
    /\ Known_C05_replay true true = true.
Proof. exact replay_refuted. Qed.
Print Assumptions C05_replay_refuted.

(* squash / CI rewrite (git-ai squash-authorship, CI merge handler): every file the note names is a
   file of the merge commit and every listed line exists in it.  The premise that
   merge_attributions_favoring_first skips files missing from the final state is the translated fact
   GenNotes.gn_merge_skips_absent, used by the proof; hypotheses 1 and 3 are about the attribution
   tracker and the prompt map (monitored in-process on every generated case). *)
Theorem C05_squash_note_ok : forall mf own tree changed target source prompts,
  (forall p lc, tree p = Some lc ->
     Forall (fun x => 1 <= la_start x /\ la_start x <= la_end x /\ la_end x <= lc) (mf p lc)) ->
  (forall p lc, tree p = Some lc -> lc <= u32_max) ->
  (forall p lc x, In x (mf p lc) -> la_author x <> human -> In (la_author x) prompts) ->
  forall f, In f (squash_note mf own tree changed target source) -> fatt_ok tree prompts f = true.
Proof. exact squash_note_ok. Qed.
Print Assumptions C05_squash_note_ok.

Theorem C05_merge_skips_absent : gn_merge_skips_absent = true.
Proof. exact merge_skips_absent. Qed.
Print Assumptions C05_merge_skips_absent.

Theorem C05_squash_fallback_refuted :
  exists f,
    In f (to_authorship_log (merge_favoring_first false w_sq_mf w_sq_own [] w_sq_source
                               (committed_files w_sq_tree [[97]; [120]])))
    /\ fatt_ok w_sq_tree [w_s] f = false.
Proof. exact squash_fallback_refuted. Qed.
Print Assumptions C05_squash_fallback_refuted.

(* ---------------------------------------------------------------- (3) the remap *)
Theorem C05_remap_after_divider : gn_remap_after_divider = true.
Proof. exact remap_after_divider. Qed.
Print Assumptions C05_remap_after_divider.

Theorem C05_remap_base : forall att pre ws1 ws2 v post target,
  let meta := pre ++ gn_remap_field ++ ws1 ++ [58] ++ ws2 ++ [c_dq] ++ v ++ [c_dq] ++ post in
  starts_with div_head (att ++ div_mid ++ meta) = false ->
  find_sub div_mid (att ++ div_mid ++ meta) = Some (length att) ->
  find_sub gn_remap_field meta = Some (length pre) ->
  forallb (fun c => mem c gn_remap_ws) ws1 = true ->
  forallb (fun c => mem c gn_remap_ws) ws2 = true ->
  forallb (fun c => negb (c =? 92) && negb (c =? c_dq)) v = true ->
  try_remap (att ++ div_mid ++ meta) target
  = Some (att ++ div_mid ++ pre ++ gn_remap_field ++ ws1 ++ [58] ++ ws2 ++ [c_dq] ++ target ++ [c_dq] ++ post).
Proof. exact remap_exact. Qed.
Print Assumptions C05_remap_base.

Theorem C05_remap_marker_fixed :
  try_remap w_remap_note w_remap_target = Some w_remap_expected
  /\ try_remap_with false w_remap_note w_remap_target <> Some w_remap_expected
  /\ try_remap_with false w_remap_note w_remap_target <> None.
Proof. exact remap_marker_fixed. Qed.
Print Assumptions C05_remap_marker_fixed.

Theorem C05_gen_constants :
  gn_fanout_split = 2%nat /\ gn_batch_cmds = [0; 1; 2] /\ gn_lookup_order = [0; 1]
  /\ gn_human = [104; 117; 109; 97; 110] /\ gn_remap_ws = [32; 10; 9; 13].
Proof. exact gen_constants. Qed.
Print Assumptions C05_gen_constants.

(* ---------------------------------------------------------------- non-vacuity *)
(* a flat and a fanned-out note, a batch that rewrites one of them and adds a third *)
Example C05_nonvacuous_tree :
  let a := [97;97;49;50] in let b := [98;98;51;52] in let c := [99;99;53;54] in
  let t := [([a], 1); ([[98;98]; [51;52]], 2)] in
  layout_le1 t = true /\ unique_keysb t = true /\ long_keys t = true /\
  batch_write t [(a, 7); (c, 8); (a, 9)]
    = [([[98;98]; [51;52]], 2); ([[99;99]; [53;54]], 8); ([[97;97]; [49;50]], 9)] /\
  lookup (batch_write t [(a, 7); (c, 8); (a, 9)]) a = Some 9 /\
  git_lookup (batch_write t [(a, 7); (c, 8); (a, 9)]) b = [2].
Proof. vm_compute. repeat split; reflexivity. Qed.

(* unsorted, overlapping, adjacent and duplicated intervals of two sessions and a person *)
Example C05_nonvacuous_builder :
  build_file_attestation [102]
    [(5,7,[97]); (1,2,[97]); (3,3,[97]); (10,10,[98]); (1,1,gn_human); (6,9,[97]); (20,20,[97]); (5,7,[97])]
  = Some ([102], [([97], [LRange 1 3; LRange 5 9; LSingle 20]); ([98], [LSingle 10])]).
Proof. vm_compute. reflexivity. Qed.

Example C05_nonvacuous_note_ok :
  let files := fun p => if str_eqb p [102] then Some 20 else None in
  let n := mkNote [([102], [([97], [LRange 1 3; LRange 5 9; LSingle 20]); ([98], [LSingle 10])])]
                  [[97]; [98]] [115] in
  note_ok files [115] n = true
  /\ note_ok files [116] n = false                                         (* base <> own commit *)
  /\ note_ok (fun p => if str_eqb p [102] then Some 19 else None) [115] n = false  (* line beyond the end *)
  /\ note_ok (fun _ => None) [115] n = false                               (* file absent *)
  /\ note_ok files [115] (mkNote (n_atts n) [[97]] [115]) = false          (* hash without a prompt record *)
  /\ note_ok files [115] (mkNote [([102], [(gn_human, [LSingle 1])])] [gn_human] [115]) = false
  /\ note_ok files [115] (mkNote [([102], [([97], [LRange 5 9; LRange 1 3])])] [[97]] [115]) = false
  /\ note_ok files [115] (mkNote [([102], [([97], [LRange 1 5; LRange 5 9])])] [[97]] [115]) = false
  /\ note_ok files [115] (mkNote [([102], [([97], [LSingle 0])])] [[97]] [115]) = false.
Proof. vm_compute. repeat split; reflexivity. Qed.
