(* Properties/C13.v — wrapper mode and git-hooks mode record the same authorship.
   Statements only.

   Full-strength statement: for every sequence of commands supported by both modes the two front ends
   hand the shared core the same effectful events (hence, by determinism of the core, equal notes and
   equal blame).  On the faithful model this is FALSE (C13_same_events_unconditional_refuted,
   C13_side_state_leak_refuted, C13_sequences_leak_refuted); what is proved is the exact region of
   agreement:

     wf_firing c f      coherence of the facts of one execution of a command of class c (what git 2.39
                        guarantees: parents, which hooks fire, post-rewrite only after success, ...)
     Known_C13 c f      decidable: the facts are in one of the classes where the translations differ
                        (K2 rebase mapping shapes, K3 commit during a stopped rebase, K4 cherry-pick of
                        several commits, K5 cherry-pick concluded by commit, K6 reset that does not move
                        HEAD backwards, K7 path checkout, K8 stash apply / pop with several entries / drop
                        on a dirty tree, K9 merge --squash with nothing to merge, K10 rebase with a pending
                        working log, K11 missing pre-command human checkpoint)
     leaks c f          decidable: the hook mask outlives the command (K1: a rebase git ends without
                        post-rewrite: --abort, fast-forward, everything dropped)

   effects f l = the events of l that change notes or pending attribution (journal bookkeeping lines
   RebaseStart / RebaseAbort / CherryPickStart / CherryPickAbort / Reset are not acted on by
   rewrite_authorship_if_needed — GenModes.effectful_kinds), without core no-ops (rename of a missing
   working log, human checkpoint with nothing to record, path removal with nothing recorded), with
   is_interactive dropped (never read).  Command classes: Modes.all_classes (23 classes: commit, amend,
   rebase, rebase -i, --continue, --abort, cherry-pick, --continue, --abort, reset --soft/--mixed/--hard,
   reset -- path, stash push/pop/apply/drop, merge --squash, checkout/switch branch, checkout -- path,
   pull fast-forward, pull --rebase); the facts f are universally quantified (lists of any length). *)
From Coq Require Import List NArith Bool.
From Verif Require Import Gen.GenModes Model.Modes Proofs.ModesSimpleProofs Proofs.ModesProofs.
Import ListNotations.
Open Scope N_scope.

Theorem C13_same_events : forall c f, wf_firing c f = true -> Known_C13 c f = false ->
  erase_shas (effects f (fst (hook_events (git_fires c f) (pre_state c)))) = erase_shas (effects f (wrap_events c f)).
Proof. exact same_events_erased. Qed.
Print Assumptions C13_same_events.

(* stronger: equal with the commit ids *)
Theorem C13_same_events_exact : forall c f, wf_firing c f = true -> Known_C13 c f = false ->
  effects f (fst (hook_events (git_fires c f) (pre_state c))) = effects f (wrap_events c f).
Proof. exact same_events. Qed.
Print Assumptions C13_same_events_exact.

Theorem C13_side_state_cleared : forall c f, wf_firing c f = true -> Known_C13 c f = false -> leaks c f = false ->
  snd (hook_events (git_fires c f) (pre_state c)) = post_state f c.
Proof. exact side_state_cleared. Qed.
Print Assumptions C13_side_state_cleared.

Theorem C13_sequences : forall cmds st, chained st cmds -> Forall agreeing cmds ->
  run_hooks cmds st = (run_wrap cmds, final_state st cmds).
Proof. exact sequences. Qed.
Print Assumptions C13_sequences.

Theorem C13_no_double : forall c f st, both_events c f st = (wrap_events c f, st).
Proof. exact no_double. Qed.
Print Assumptions C13_no_double.

Theorem C13_same_events_unconditional_refuted : exists c f, wf_firing c f = true /\
  erase_shas (effects f (fst (hook_events (git_fires c f) (pre_state c)))) <> erase_shas (effects f (wrap_events c f)).
Proof. exact same_events_unconditional_refuted. Qed.
Print Assumptions C13_same_events_unconditional_refuted.

Theorem C13_side_state_leak_refuted : exists c f, wf_firing c f = true /\ Known_C13 c f = false /\
  snd (hook_events (git_fires c f) (pre_state c)) <> post_state f c.
Proof. exact side_state_leak_refuted. Qed.
Print Assumptions C13_side_state_leak_refuted.

Theorem C13_sequences_leak_refuted :
  let cmds := [(CRebase, wit_K1_ff); (CCommit, wit_commit_after)] in
  Forall (fun x => wf_firing (fst x) (snd x) = true /\ Known_C13 (fst x) (snd x) = false) cmds /\
  erase_shas (fst (run_hooks cmds init)) = [] /\
  erase_shas (run_wrap cmds) = [SPreCommitCheckpoint; SCommit true].
Proof. exact sequences_leak_refuted. Qed.
Print Assumptions C13_sequences_leak_refuted.

(* one witness per known class: the facts are coherent, the predicate holds, the effects differ *)
Theorem C13_known_classes_refuted :
  (wf_firing CRebaseI wit_K2_drop = true /\ Known_C13 CRebaseI wit_K2_drop = true /\
   erase_shas (effects wit_K2_drop (fst (hook_events (git_fires CRebaseI wit_K2_drop) (pre_state CRebaseI)))) <>
   erase_shas (effects wit_K2_drop (wrap_events CRebaseI wit_K2_drop))) /\
  (wf_firing CCommit wit_K3 = true /\ Known_C13 CCommit wit_K3 = true /\
   erase_shas (effects wit_K3 (fst (hook_events (git_fires CCommit wit_K3) (pre_state CCommit)))) <>
   erase_shas (effects wit_K3 (wrap_events CCommit wit_K3))) /\
  (wf_firing CCherryPick wit_K4 = true /\ Known_C13 CCherryPick wit_K4 = true /\
   erase_shas (effects wit_K4 (fst (hook_events (git_fires CCherryPick wit_K4) (pre_state CCherryPick)))) <>
   erase_shas (effects wit_K4 (wrap_events CCherryPick wit_K4))) /\
  (wf_firing CCommit wit_K5 = true /\ Known_C13 CCommit wit_K5 = true /\
   erase_shas (effects wit_K5 (fst (hook_events (git_fires CCommit wit_K5) (pre_state CCommit)))) <>
   erase_shas (effects wit_K5 (wrap_events CCommit wit_K5))) /\
  (wf_firing CResetHard wit_K6_hard_head = true /\ Known_C13 CResetHard wit_K6_hard_head = true /\
   erase_shas (effects wit_K6_hard_head (fst (hook_events (git_fires CResetHard wit_K6_hard_head) (pre_state CResetHard)))) <>
   erase_shas (effects wit_K6_hard_head (wrap_events CResetHard wit_K6_hard_head))) /\
  (wf_firing CCheckoutPath wit_K7 = true /\ Known_C13 CCheckoutPath wit_K7 = true /\
   erase_shas (effects wit_K7 (fst (hook_events (git_fires CCheckoutPath wit_K7) (pre_state CCheckoutPath)))) <>
   erase_shas (effects wit_K7 (wrap_events CCheckoutPath wit_K7))) /\
  (wf_firing CStashPop wit_K8_pop2 = true /\ Known_C13 CStashPop wit_K8_pop2 = true /\
   erase_shas (effects wit_K8_pop2 (fst (hook_events (git_fires CStashPop wit_K8_pop2) (pre_state CStashPop)))) <>
   erase_shas (effects wit_K8_pop2 (wrap_events CStashPop wit_K8_pop2))) /\
  (wf_firing CMergeSquash wit_K9 = true /\ Known_C13 CMergeSquash wit_K9 = true /\
   erase_shas (effects wit_K9 (fst (hook_events (git_fires CMergeSquash wit_K9) (pre_state CMergeSquash)))) <>
   erase_shas (effects wit_K9 (wrap_events CMergeSquash wit_K9))) /\
  (wf_firing CRebase wit_K10 = true /\ Known_C13 CRebase wit_K10 = true /\
   erase_shas (effects wit_K10 (fst (hook_events (git_fires CRebase wit_K10) (pre_state CRebase)))) <>
   erase_shas (effects wit_K10 (wrap_events CRebase wit_K10))) /\
  (wf_firing CResetSoft wit_K11 = true /\ Known_C13 CResetSoft wit_K11 = true /\
   erase_shas (effects wit_K11 (fst (hook_events (git_fires CResetSoft wit_K11) (pre_state CResetSoft)))) <>
   erase_shas (effects wit_K11 (wrap_events CResetSoft wit_K11))).
Proof.
  exact (conj refuted_K2_drop (conj refuted_K3 (conj refuted_K4 (conj refuted_K5 (conj refuted_K6_hard_head
        (conj refuted_K7 (conj refuted_K8_pop2 (conj refuted_K9 (conj refuted_K10 refuted_K11))))))))).
Qed.
Print Assumptions C13_known_classes_refuted.

(* K12, and the shapes of pull --rebase with pending attribution on which the modes agree: the working-log
   rename of maybe_handle_pull_post_rewrite is an effect on BOTH of its exits (GenModes.pull_renames_before_early_exits) *)
Theorem C13_pull_pending_refuted : wf_firing CPullRebase wit_K12 = true /\ Known_C13 CPullRebase wit_K12 = true /\
  erase_shas (effects wit_K12 (fst (hook_events (git_fires CPullRebase wit_K12) (pre_state CPullRebase)))) <>
  erase_shas (effects wit_K12 (wrap_events CPullRebase wit_K12)).
Proof. exact refuted_K12. Qed.
Print Assumptions C13_pull_pending_refuted.

Example C13_pull_noop_autostash :
  wf_firing CPullRebase wit_pull_noop_autostash = true /\ Known_C13 CPullRebase wit_pull_noop_autostash = false /\
  effects wit_pull_noop_autostash (fst (hook_events (git_fires CPullRebase wit_pull_noop_autostash) init)) = [ERenameWorkingLog 10 20] /\
  effects wit_pull_noop_autostash (wrap_events CPullRebase wit_pull_noop_autostash) = [ERenameWorkingLog 10 20].
Proof. exact pull_noop_autostash_agrees. Qed.

Example C13_pull_real_autostash :
  wf_firing CPullRebase wit_pull_real_autostash = true /\ Known_C13 CPullRebase wit_pull_real_autostash = false /\
  effects wit_pull_real_autostash (fst (hook_events (git_fires CPullRebase wit_pull_real_autostash) init)) =
    [ERenameWorkingLog 10 21; ERebaseComplete 10 21 false [10] [21]] /\
  effects wit_pull_real_autostash (wrap_events CPullRebase wit_pull_real_autostash) =
    [ERenameWorkingLog 10 21; ERebaseComplete 10 21 false [10] [21]].
Proof. exact pull_real_autostash_agrees. Qed.

(* the cherry_pick_hook_state file: an ordinary commit agrees with the wrapper from ANY unmasked side state and leaves no
   such file (the ordinary pre-commit arm clears a left-over one: GenModes.precommit_ordinary_arm_captures) *)
Theorem C13_commit_clears_cherry_pick_state : forall f st,
  wf_firing CCommit f = true -> Known_C13 CCommit f = false -> s_mask st = false ->
  effects f (fst (hook_events (git_fires CCommit f) st)) = effects f (wrap_events CCommit f) /\
  s_cp (snd (hook_events (git_fires CCommit f) st)) = None /\ s_mask (snd (hook_events (git_fires CCommit f) st)) = false.
Proof. exact commit_from_any_state. Qed.
Print Assumptions C13_commit_clears_cherry_pick_state.

(* the file IS left behind by a commit attempt that git aborts after pre-commit while a cherry-pick is stopped ... *)
Theorem C13_commit_attempt_leaves_cherry_pick_state :
  wf_firing CCommit wit_cp_commit_aborted = true /\
  s_cp (snd (hook_events (git_fires CCommit wit_cp_commit_aborted) init)) = Some (31, 10).
Proof. exact commit_attempt_leaves_cp_state. Qed.
Print Assumptions C13_commit_attempt_leaves_cherry_pick_state.

(* ... and the ordinary commit after `cherry-pick --abort` is still recorded as a commit, the side state is cleared *)
Theorem C13_abandoned_cherry_pick :
  let cmds := [(CCommit, wit_cp_commit_aborted); (CCherryPickAbort, wit_cp_abort_after); (CCommit, wit_commit_after_abandoned)] in
  Forall (fun x => wf_firing (fst x) (snd x) = true) cmds /\
  skipn 1 (fst (run_hooks cmds init)) = [ECommit (Some 10) 11] /\
  run_wrap [(CCommit, wit_commit_after_abandoned)] = [EPreCommitCheckpoint; ECommit (Some 10) 11] /\
  snd (run_hooks cmds init) = init.
Proof. exact abandoned_cherry_pick_sequence. Qed.
Print Assumptions C13_abandoned_cherry_pick.

Example C13_nonvacuous : wf_firing CRebase wit_rebase2 = true /\ Known_C13 CRebase wit_rebase2 = false /\
  effects wit_rebase2 (wrap_events CRebase wit_rebase2) = [ERebaseComplete 12 22 false [11; 12] [21; 22]] /\
  effects wit_rebase2 (fst (hook_events (git_fires CRebase wit_rebase2) init)) = [ERebaseComplete 12 22 false [11; 12] [21; 22]].
Proof. exact nonvacuous_rebase. Qed.
