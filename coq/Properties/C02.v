(* Properties/C02.v — attribution follows code through history rewriting.
   Statements only.  Layer covered by theorems: the control state machine of rebase and
   cherry-pick (Model/RewriteSM.v), i.e. the last sentence of the property — an operation that is
   aborted, fails, or is a dry run leaves every note and all pending attribution exactly as it was
   (the only note-writing / log-migrating step is the Rewrite effect) — and the recovery of the
   original head when an operation stopped by a conflict is finished by later processes, for ANY
   number of stops and unrelated commands in between (below the journal cap).
   Survival of attribution through the content replay itself is decided by the oracle of the check
   over generated histories (git is the environment); the unchanged tree violates it in the known
   classes C02-K1..K4 (see known_findings.json). *)
From Coq Require Import List NArith Bool.
From Verif Require Import Gen.GenRewrite Model.RewriteSM Proofs.RewriteSMProofs.
Import ListNotations.
Open Scope N_scope.

Theorem C02_abort_inert : forall j i,
  i_exit_ok i = false \/ i_after i = true \/ i_dry_run i = true -> snd (step j i) = NoEffect.
Proof. exact inert. Qed.
Print Assumptions C02_abort_inert.

Theorem C02_abort_closes : forall j i,
  i_before i = false -> i_head_known i = true ->
  i_after i = false -> i_dry_run i = false -> i_exit_ok i = false ->
  (length j + 1 < journal_cap)%nat -> has_active_start (i_kind i) (fst (step j i)) = false.
Proof. exact abort_closes. Qed.
Print Assumptions C02_abort_closes.

Theorem C02_complete_rewrites : forall j i,
  i_before i = false -> i_head_known i = true ->
  i_after i = false -> i_dry_run i = false -> i_exit_ok i = true ->
  i_head_after i <> i_head i -> i_has_commits i = true ->
  (length j < journal_cap)%nat -> snd (step j i) = Rewrite (i_kind i) (i_head i).
Proof. exact complete_rewrites. Qed.
Print Assumptions C02_complete_rewrites.

(* `git rebase --abort` exits 0; it is inert because HEAD is back at the recorded original head *)
Theorem C02_abort_ok_inert : forall k o j i,
  i_kind i = k -> i_before i = true -> has_active_start k j = true -> find_start k j = Some o ->
  i_exit_ok i = true -> i_head_after i = o -> step j i = (j, NoEffect).
Proof. exact abort_ok_inert. Qed.
Print Assumptions C02_abort_ok_inert.

Theorem C02_continue_finishes : forall k o j mids n fin,
  forallb (stops_again k) mids = true ->
  i_kind fin = k -> i_before fin = true -> i_after fin = false ->
  i_dry_run fin = false -> i_exit_ok fin = true ->
  i_head_after fin <> o -> i_has_commits fin = true ->
  (length j + 2 + noise mids + n <= journal_cap)%nat ->
  snd (run (EStart k o :: j) (mids ++ [(n, fin)])) = map (fun _ => NoEffect) mids ++ [Rewrite k o].
Proof. exact continue_finishes. Qed.
Print Assumptions C02_continue_finishes.

(* an operation whose Start could not be recorded (the pre hook could not resolve HEAD) and for which the
   journal holds no open Start rewrites nothing and leaves the journal alone — in particular it never
   reuses the Start of an earlier, finished operation (repaired in /repo: the look-up stops at a
   Complete/Abort; C02_stale_start_old_lookup shows what the former look-up returned) *)
Theorem C02_unrecorded_start_inert : forall j i,
  i_before i = false -> i_head_known i = false -> has_active_start (i_kind i) j = false ->
  step j i = (j, NoEffect).
Proof. exact unrecorded_start_inert. Qed.
Print Assumptions C02_unrecorded_start_inert.

Theorem C02_stale_start_old_lookup :
  find_newest_start CherryPick stale_journal = Some 3 /\
  find_start CherryPick stale_journal = None /\
  step stale_journal stale_inv = (stale_journal, NoEffect).
Proof. exact stale_start_old_lookup. Qed.
Print Assumptions C02_stale_start_old_lookup.

(* without the bound the statement is false: the cap cuts the Start out of the journal *)
Theorem C02_journal_overflow_refuted :
  snd (run [EStart Rebase 1] [(journal_cap, overflow_inv)]) = [Rewrite Rebase 7].
Proof. exact journal_overflow_refuted. Qed.
Print Assumptions C02_journal_overflow_refuted.

Example C02_nonvacuous :
  snd (run [EStart Rebase 5; EOther] (wit_mids ++ [(1%nat, wit_fin)])) = [NoEffect; NoEffect; Rewrite Rebase 5].
Proof. exact wit_continue. Qed.
