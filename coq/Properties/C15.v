(* Properties/C15.v — the note-remapping shortcut gives the same answer as full recomputation.
   Statements only; every proof is `exact <lemma>` followed by Print Assumptions.

   What is proved here concerns the two pieces of the shortcut that are pure functions of bytes:
   the comparator's scanning loop over git's `diff-tree --stdin --raw -z` output, and the rewrite
   of the base_commit_sha field.  Equivalence with the full content replay (the slow path) is a
   statement about two executions of the binary and is decided by the system-level check
   (vlib/c15.py); the full equality is false today (known classes C15-K1, K2, K3 there).

   The rewrite of base_commit_sha has had two shapes in the source; the translator (Gen/GenRemap.v)
   says which one the tree has (remap_below_divider) and Model.try_remap follows it.
   * repaired shape (marker searched below the first divider line): the full-strength statement
       forall s t, has_base_field s = true -> try_remap_scoped s t = Some (replace_base s t)
     holds with no condition on the attestation section (C15_remap_scoped_base_only), and
     C15_remap_note_scoped carries it to the function the shortcut calls.
   * historical shape (marker searched in the whole note): the statement is FALSE
     (C15_remap_unscoped_refuted: a tracked file whose name contains the marker text followed by a
     colon and a quoted string — former known finding C15-K4 = C05-K3); C15_remap_base_only is that
     shape's statement under the exact side condition wf_note.
   The check module requires remap_below_divider = true (obligation), so on a tree without the
   repair the check fails there and on the regression witness. *)
From Coq Require Import List NArith Bool.
From Verif Require Import Base.Str Gen.GenRemap Model.Remap Proofs.RemapProofs.
Import ListNotations.
Open Scope N_scope.

(* the comparator says match on git's (pathspec-limited) output for these pairs
   iff no record of any pair names a tracked path *)
Theorem C15_comparator_sound :
  forall ds tracked, out_ok ds = true ->
    (matches (print_out (limit tracked ds)) (length ds) = true <->
     forall d r, In d ds -> In r (s_recs d) -> touches tracked r = false).
Proof. exact comparator_sound. Qed.
Print Assumptions C15_comparator_sound.

(* the printed format is unambiguous: it parses back to the deltas it was printed from *)
Theorem C15_print_parse : forall ds, out_ok ds = true -> parse_out (print_out ds) = Some ds.
Proof. exact print_parse. Qed.
Print Assumptions C15_print_parse.

(* fewer header lines than pairs (any byte string) declines *)
Theorem C15_decline_safe : forall out n, (count_nl out < n)%nat -> matches out n = false.
Proof. exact decline_safe. Qed.
Print Assumptions C15_decline_safe.

(* an output cut anywhere is never taken for a match unless what was read is literally the
   complete no-delta output for these pairs *)
Theorem C15_truncation_safe :
  forall ds k, out_ok ds = true ->
    matches (firstn k (print_out ds)) (length ds) = true ->
    firstn k (print_out ds) = print_out (map headers_only ds).
Proof. exact truncation_safe. Qed.
Print Assumptions C15_truncation_safe.

(* one pair with a changed tracked path is enough: the shortcut writes nothing *)
Theorem C15_partial_pairs_decline :
  forall fb tracked notes ds, out_ok ds = true ->
    (exists d r, In d ds /\ In r (s_recs d) /\ touches tracked r = true) ->
    (forall pairs, length pairs = length ds ->
       fast_path_cherry fb pairs tracked (print_out (limit tracked ds)) notes = None) /\
    (forall orig new to_process n_to_process,
       length (filter (fun p => to_process (snd p)) (combine orig new)) = length ds ->
       fast_path_rebase fb orig new to_process n_to_process tracked
                        (print_out (limit tracked ds)) notes = None).
Proof. exact partial_pairs_decline. Qed.
Print Assumptions C15_partial_pairs_decline.

(* when it writes, it writes exactly one remapped original note per pair *)
Theorem C15_shortcut_writes :
  forall fb pairs tracked out notes ws,
    fast_path_core fb pairs tracked out notes = Some ws ->
    matches out (length pairs) = true /\
    map fst ws = map snd pairs /\
    Forall2 (fun p w => exists n, notes (fst p) = Some n /\ snd w = remap_note fb n (snd p)) pairs ws.
Proof. exact shortcut_writes. Qed.
Print Assumptions C15_shortcut_writes.

(* the scan replaces the value of the first marker occurrence of the text it is given, nothing else *)
Theorem C15_remap_field_only :
  forall pre w1 w2 v post t,
    no_marker_start pre (marker ++ w1 ++ c_colon :: w2 ++ c_dq :: v ++ c_dq :: post) = true ->
    forallb is_json_ws w1 = true -> forallb is_json_ws w2 = true -> esc_body v = true ->
    remap_in (note_shape pre w1 w2 v post) t = Some (note_shape pre w1 w2 t post).
Proof. exact remap_field_only. Qed.
Print Assumptions C15_remap_field_only.

(* the position computed by the repaired code is the reader's divider: the first LF-terminated
   line of three dashes *)
Theorem C15_metadata_start : forall s, meta_split s = split_note s.
Proof. exact meta_split_note. Qed.
Print Assumptions C15_metadata_start.

(* repaired shape: for EVERY note with a divider and the field — whatever the paths contain — the
   rewrite changes exactly the metadata's base value *)
Theorem C15_remap_scoped_base_only :
  forall s t, has_base_field s = true -> try_remap_scoped s t = Some (replace_base s t).
Proof. exact scoped_base_only. Qed.
Print Assumptions C15_remap_scoped_base_only.

(* ... and without a divider it declines (the caller falls back to parse-and-reserialise) *)
Theorem C15_remap_scoped_no_divider :
  forall s t, split_note s = None -> try_remap_scoped s t = None.
Proof. exact scoped_no_divider. Qed.
Print Assumptions C15_remap_scoped_no_divider.

(* the function the shortcut calls, for the shape the source has *)
Theorem C15_remap_note_scoped :
  forall fb s t, remap_below_divider = true -> has_base_field s = true ->
    remap_note fb s t = replace_base s t.
Proof. exact remap_note_scoped. Qed.
Print Assumptions C15_remap_note_scoped.

(* historical shape, exact side condition *)
Theorem C15_remap_base_only :
  forall s t, wf_note s = true -> remap_in s t = Some (replace_base s t).
Proof. exact remap_base_only. Qed.
Print Assumptions C15_remap_base_only.

(* either shape *)
Theorem C15_remap_note_base_only :
  forall fb s t, wf_note s = true -> remap_note fb s t = replace_base s t.
Proof. exact remap_note_base_only. Qed.
Print Assumptions C15_remap_note_base_only.

Theorem C15_remap_unscoped_refuted :
  exists s t r,
    (exists att md md', split_note s = Some (att, md) /\ remap_in md t = Some md') /\
    remap_in s t = Some r /\ r <> replace_base s t /\
    (exists att md att', split_note s = Some (att, md) /\ r = att' ++ md /\ att' <> att).
Proof. exact remap_unscoped_refuted. Qed.
Print Assumptions C15_remap_unscoped_refuted.

(* ---- the commit-object header scan that feeds the comparator its trees ---- *)
(* spec header_meta: headers end at the first empty line; the first tree header and the first parent
   header count.  For a commit with a parent the scan (with the early exit the source has, fact
   GenRemap.meta_early_exit) returns the header's tree and first parent WHATEVER follows — further
   parents, other headers, the message. *)
Theorem C15_meta_header :
  forall T P rest, oid_ok T = true -> oid_ok P = true ->
    let content := meta_kw_tree ++ T ++ c_nl :: meta_kw_parent ++ P ++ c_nl :: rest in
    commit_meta_gen true content = (T, Some P) /\ header_meta content = (T, Some P).
Proof. exact meta_header. Qed.
Print Assumptions C15_meta_header.

(* FALSE for root commits on the faithful model: no parent, so the exit is never taken and a message
   line that looks like a tree header replaces the tree (known finding C15-K6) *)
Theorem C15_meta_root_refuted :
  header_meta wit_root_commit = (wit_tree_T, None) /\
  commit_meta_gen true wit_root_commit = (wit_tree_X, Some wit_parent_P).
Proof. exact meta_root_refuted. Qed.
Print Assumptions C15_meta_root_refuted.

(* and the early exit is what protects every other commit *)
Theorem C15_meta_no_exit_refuted :
  header_meta wit_child_commit = (wit_tree_T, Some wit_parent_P) /\
  commit_meta_gen true wit_child_commit = (wit_tree_T, Some wit_parent_P) /\
  commit_meta_gen false wit_child_commit = (wit_tree_X, Some wit_parent_P).
Proof. exact meta_no_exit_refuted. Qed.
Print Assumptions C15_meta_no_exit_refuted.

(* ---- after the shortcut declined: recomputed note or copy of the original? ---- *)
(* (facts GenRemap.replay_payload_counts_prompts_{rebase,cherry}: prompt records count as payload) *)
Theorem C15_replay_copy_only_when_empty :
  forall fb a p rec orig new w,
    (replay_write_rebase_gen true fb a p rec orig new = Some w \/
     replay_write_cherry_gen true fb a p rec orig new = Some w) ->
    w <> rec ->
    a = false /\ p = false /\ exists raw, orig = Some raw /\ w = remap_note fb raw new.
Proof. exact replay_copy_only_when_empty. Qed.
Print Assumptions C15_replay_copy_only_when_empty.

Theorem C15_replay_narrow_refuted :
  forall fb rec raw new,
    replay_write_rebase_gen false fb false true rec (Some raw) new = Some (remap_note fb raw new) /\
    replay_write_cherry_gen false fb false true rec (Some raw) new = Some (remap_note fb raw new) /\
    replay_write_rebase_gen true fb false true rec (Some raw) new = Some rec /\
    replay_write_cherry_gen true fb false true rec (Some raw) new = Some rec.
Proof. exact replay_narrow_refuted. Qed.
Print Assumptions C15_replay_narrow_refuted.

(* non-vacuity: a realistic note (quoted path, a prompt whose text mentions the marker) meets
   wf_note and is rewritten as intended; the note of a file whose NAME contains the marker text
   fails wf_note, meets has_base_field and is rewritten correctly by the repaired shape; a printed
   output with a rename to a path containing a newline and a colon, an addition, a type change and
   a deletion meets out_ok, parses back, and the comparator separates tracked-hit from tracked-miss *)
Theorem C15_nonvacuous :
  wf_note wit_good_note = true /\
  remap_in wit_good_note wit_good_target = Some wit_good_remapped /\
  wf_note wit_bad_note = false /\
  has_base_field wit_bad_note = true /\
  try_remap_scoped wit_bad_note wit_target = Some wit_bad_fixed /\
  out_ok wit_ds = true /\ parse_out (print_out wit_ds) = Some wit_ds /\
  matches (print_out (limit wit_tracked_hit wit_ds)) 3 = false /\
  matches (print_out (limit wit_tracked_miss wit_ds)) 3 = true.
Proof.
  pose proof wit_ds_facts as [A [B [_ [C [D _]]]]].
  pose proof wit_bad_scoped as [E [F _]].
  exact (conj wit_good_wf (conj (proj1 wit_good_remap) (conj wit_bad_not_wf
        (conj E (conj F (conj A (conj B (conj C D)))))))).
Qed.
Print Assumptions C15_nonvacuous.
