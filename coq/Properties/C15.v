(* Properties/C15.v — the note-remapping shortcut gives the same answer as full recomputation.
   Statements only; every proof is `exact <lemma>` followed by Print Assumptions.

   What is proved here concerns the two pieces of the shortcut that are pure functions of bytes:
   the comparator's scanning loop over git's `diff-tree --stdin --raw -z` output, and the rewrite
   of the base_commit_sha field.  Equivalence with the full content replay (the slow path) is a
   statement about two executions of the binary and is decided by the system-level check
   (vlib/c15.py); the full equality is false today (known classes C15-K1, K2, K3 there).

   Full-strength statement for the rewrite (all notes the reader accepts):
       forall s t, try_remap s t = Some (replace_base s t)
   It is FALSE of the faithful model (C15_remap_refuted: a tracked file whose name contains the
   marker text followed by a colon and a quoted string); C15_remap_base_only is the statement
   under the exact boolean side condition wf_note (the marker text does not begin anywhere before
   the metadata, and the metadata has the field). *)
From Coq Require Import List NArith Bool.
From Verif Require Import Base.Str Model.Remap Proofs.RemapProofs.
Import ListNotations.
Open Scope N_scope.

(* the comparator says match on git's (pathspec-limited) output for these pairs
   iff no record of any pair names a tracked path *)
Theorem C15_comparator_sound :
  forall ds tracked, out_ok ds = true ->
    (matches (print_out (limit tracked ds)) (length ds) = true <->
     forall d r, In d ds -> In r (s_recs d) -> touches tracked r = false).
Proof. exact comparator_sound. Qed.
Print Assumptions C15_comparator_sound.

(* the printed format is unambiguous: it parses back to the deltas it was printed from *)
Theorem C15_print_parse : forall ds, out_ok ds = true -> parse_out (print_out ds) = Some ds.
Proof. exact print_parse. Qed.
Print Assumptions C15_print_parse.

(* fewer header lines than pairs (any byte string) declines *)
Theorem C15_decline_safe : forall out n, (count_nl out < n)%nat -> matches out n = false.
Proof. exact decline_safe. Qed.
Print Assumptions C15_decline_safe.

(* an output cut anywhere is never taken for a match unless what was read is literally the
   complete no-delta output for these pairs *)
Theorem C15_truncation_safe :
  forall ds k, out_ok ds = true ->
    matches (firstn k (print_out ds)) (length ds) = true ->
    firstn k (print_out ds) = print_out (map headers_only ds).
Proof. exact truncation_safe. Qed.
Print Assumptions C15_truncation_safe.

(* one pair with a changed tracked path is enough: the shortcut writes nothing *)
Theorem C15_partial_pairs_decline :
  forall fb tracked notes ds, out_ok ds = true ->
    (exists d r, In d ds /\ In r (s_recs d) /\ touches tracked r = true) ->
    (forall pairs, length pairs = length ds ->
       fast_path_cherry fb pairs tracked (print_out (limit tracked ds)) notes = None) /\
    (forall orig new to_process n_to_process,
       length (filter (fun p => to_process (snd p)) (combine orig new)) = length ds ->
       fast_path_rebase fb orig new to_process n_to_process tracked
                        (print_out (limit tracked ds)) notes = None).
Proof. exact partial_pairs_decline. Qed.
Print Assumptions C15_partial_pairs_decline.

(* when it writes, it writes exactly one remapped original note per pair *)
Theorem C15_shortcut_writes :
  forall fb pairs tracked out notes ws,
    fast_path_core fb pairs tracked out notes = Some ws ->
    matches out (length pairs) = true /\
    map fst ws = map snd pairs /\
    Forall2 (fun p w => exists n, notes (fst p) = Some n /\ snd w = remap_note fb n (snd p)) pairs ws.
Proof. exact shortcut_writes. Qed.
Print Assumptions C15_shortcut_writes.

(* the rewrite replaces the value of the first marker occurrence and nothing else *)
Theorem C15_remap_field_only :
  forall pre w1 w2 v post t,
    no_marker_start pre (marker ++ w1 ++ c_colon :: w2 ++ c_dq :: v ++ c_dq :: post) = true ->
    forallb is_json_ws w1 = true -> forallb is_json_ws w2 = true -> esc_body v = true ->
    try_remap (note_shape pre w1 w2 v post) t = Some (note_shape pre w1 w2 t post).
Proof. exact remap_field_only. Qed.
Print Assumptions C15_remap_field_only.

Theorem C15_remap_base_only :
  forall s t, wf_note s = true -> try_remap s t = Some (replace_base s t).
Proof. exact remap_base_only. Qed.
Print Assumptions C15_remap_base_only.

Theorem C15_remap_note_base_only :
  forall fb s t, wf_note s = true -> remap_note fb s t = replace_base s t.
Proof. exact remap_note_base_only. Qed.
Print Assumptions C15_remap_note_base_only.

Theorem C15_remap_refuted :
  exists s t r,
    (exists att md md', split_note s = Some (att, md) /\ try_remap md t = Some md') /\
    try_remap s t = Some r /\ r <> replace_base s t /\
    (exists att md att', split_note s = Some (att, md) /\ r = att' ++ md /\ att' <> att).
Proof. exact remap_refuted. Qed.
Print Assumptions C15_remap_refuted.

(* non-vacuity: a realistic note (quoted path, a prompt whose text mentions the marker) meets
   wf_note and is rewritten as intended; a printed output with a rename to a path containing a
   newline and a colon, an addition, a type change and a deletion meets out_ok, parses back, and
   the comparator separates the tracked-hit from the tracked-miss case *)
Theorem C15_nonvacuous :
  wf_note wit_good_note = true /\
  try_remap wit_good_note wit_good_target = Some wit_good_remapped /\
  wf_note wit_bad_note = false /\
  out_ok wit_ds = true /\ parse_out (print_out wit_ds) = Some wit_ds /\
  matches (print_out (limit wit_tracked_hit wit_ds)) 3 = false /\
  matches (print_out (limit wit_tracked_miss wit_ds)) 3 = true.
Proof.
  pose proof wit_ds_facts as [A [B [_ [C [D _]]]]].
  exact (conj wit_good_wf (conj (proj1 wit_good_remap) (conj wit_bad_not_wf (conj A (conj B (conj C D)))))).
Qed.
Print Assumptions C15_nonvacuous.
