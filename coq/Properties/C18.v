(* Properties/C18.v — the proxy hands git exactly the arguments the user typed.
   This file contains only statements; every proof is `exact <lemma>` and is followed by
   Print Assumptions.  Statements are pinned in /verif/statements.lock.

   Full-strength statement (all argument vectors a):
       to_vec (parse a) = a, or it is the documented normalisation meta_normalise a
       (first top-level --help/-h -> help, --version/-v -> version, in place), which git treats
       identically: git_norm (meta_normalise a) = git_norm a.
   It is FALSE of the faithful model.  What is proved:
     * C18_identity for every vector in which the scan meets no meta token before the command is
       decided (no other condition: attached/detached values, --, unknown dash options, no
       command, trailing value-less option are all covered);
     * C18_meta_last_normalised for vectors whose first meta token is followed by an acceptable
       tail (nothing; for help a command word and anything after it; an unknown dash option with
       no further help/version token (help) or only dash tokens (version));
     * the remaining vectors form the decidable known class Known_C18 (a meta token met by the
       scan and a tail that is not acceptable), with the refutations C18_refuted_* below.
   git_norm / git_command / git_classify are a TRUSTED hand model of git 2.39 git.c
   (handle_options + cmd_main), validated differentially against /usr/bin/git by vlib/c18.py. *)
From Coq Require Import List NArith Bool.
From Verif Require Import Base.Str Gen.GenCli Model.Cli Proofs.CliProofs.
Import ListNotations.
Open Scope N_scope.

Theorem C18_identity : forall a, no_pre_command_meta a = true -> to_vec (parse a) = a.
Proof. exact identity. Qed.
Print Assumptions C18_identity.

Theorem C18_command_position :
  forall a, no_pre_command_meta a = true -> command (parse a) = spec_command a.
Proof. exact command_position. Qed.
Print Assumptions C18_command_position.

(* whenever git's own scan gets as far as a subcommand, it is the one the proxy found *)
Theorem C18_command_agrees_git :
  forall a, no_pre_command_meta a = true ->
  forall c, spec_command a = Some c -> git_command a = Some c \/ git_command a = None.
Proof. exact command_agrees_git. Qed.
Print Assumptions C18_command_agrees_git.

Theorem C18_meta_last_normalised :
  forall a, meta_last a = true ->
    to_vec (parse a) = meta_normalise a /\ git_norm (meta_normalise a) = git_norm a.
Proof. exact meta_last_normalised. Qed.
Print Assumptions C18_meta_last_normalised.

(* every token the proxy takes as a global option starts with a dash, is not --, is no help or
   version token, and git reads it the same way (one token / option plus value) or stops at it *)
Theorem C18_globals_agree_with_git : forall tok, classify tok <> KUnknown -> sync_ok tok = true.
Proof. exact sync_all. Qed.
Print Assumptions C18_globals_agree_with_git.

Theorem C18_refuted_version_help :
  Known_C18 wit_version_help = true /\
  to_vec (parse wit_version_help) = [s_help] /\ git_norm wit_version_help = [s_version; t_dhelp].
Proof. exact refuted_version_help. Qed.
Print Assumptions C18_refuted_version_help.

Theorem C18_refuted_help_reorder :
  Known_C18 wit_help_p_commit = true /\
  to_vec (parse wit_help_p_commit) = [t_p; s_help; t_commit] /\
  git_norm wit_help_p_commit = [s_help; t_p; t_commit].
Proof. exact refuted_help_reorder. Qed.
Print Assumptions C18_refuted_help_reorder.

Theorem C18_refuted_path_query_dropped :
  Known_C18 wit_htmlpath_status = true /\
  to_vec (parse wit_htmlpath_status) = [t_status] /\ git_norm wit_htmlpath_status = [t_htmlpath].
Proof. exact refuted_path_query_dropped. Qed.
Print Assumptions C18_refuted_path_query_dropped.

Theorem C18_refuted_version_drops_args :
  Known_C18 wit_version_commit = true /\
  to_vec (parse wit_version_commit) = [s_version] /\ git_norm wit_version_commit = [s_version; t_commit].
Proof. exact refuted_version_drops_args. Qed.
Print Assumptions C18_refuted_version_drops_args.

Theorem C18_refuted_full_statement :
  exists a, Known_C18 a = true /\ to_vec (parse a) <> a /\ to_vec (parse a) <> meta_normalise a
            /\ git_norm (to_vec (parse a)) <> git_norm a.
Proof. exact known_class_refutes_identity. Qed.
Print Assumptions C18_refuted_full_statement.

(* an alias that shadows a builtin: git runs the builtin with the user's arguments, the proxy
   resolves the alias and hands git the expansion *)
Theorem C18_refuted_shadow :
  exists builtins tbl a c p,
    command (parse a) = Some c /\ In c builtins /\ git_expands_alias builtins tbl c = false /\
    resolve_alias tbl (parse a) = RSome p /\ to_vec p <> a /\
    to_vec p = [t_log; t_oneline; t_m1; t_short].
Proof. exact refuted_shadow. Qed.
Print Assumptions C18_refuted_shadow.

Theorem C18_alias_tokens_roundtrip :
  forall toks, forallb plain_tok toks = true -> first_not_bang toks = true ->
    parse_alias_tokens (join [c_sp] toks) = Some toks.
Proof. exact alias_tokens_roundtrip. Qed.
Print Assumptions C18_alias_tokens_roundtrip.

Theorem C18_alias_cycle_terminates : forall tbl p, resolve_alias tbl p <> RFuel.
Proof. exact resolve_terminates. Qed.
Print Assumptions C18_alias_cycle_terminates.

(* the proxy's alias tokeniser against git's split_cmdline (git_split: TRUSTED transcription of
   git 2.39 alias.c, validated against /usr/bin/git): they agree on every value outside the
   decidable edge class alias_edge (known class C18-K5), and really differ on each edge kind *)
Theorem C18_alias_split_agrees :
  forall v, alias_edge v = false -> is_shell_alias v = false -> parse_alias_tokens v = git_split v.
Proof. exact alias_split_agrees. Qed.
Print Assumptions C18_alias_split_agrees.

(* a shell alias is not expanded by the proxy: the user's invocation is handed to git unchanged *)
Theorem C18_alias_shell_none : forall v, is_shell_alias v = true -> parse_alias_tokens v = None.
Proof. exact alias_shell_none. Qed.
Print Assumptions C18_alias_shell_none.

Theorem C18_alias_split_refuted :
  (alias_edge w_empty_quoted = true /\ parse_alias_tokens w_empty_quoted = Some [v_rp]
     /\ git_split w_empty_quoted = Some [v_rp; []]) /\
  (alias_edge w_trailing_bs = true /\ parse_alias_tokens w_trailing_bs = Some [v_rp ++ [92]]
     /\ git_split w_trailing_bs = None) /\
  (alias_edge w_vt = true /\ parse_alias_tokens w_vt = Some [v_rp; [97]]
     /\ git_split w_vt = Some [v_rp ++ [11; 97]]) /\
  (alias_edge w_nbsp = true /\ parse_alias_tokens w_nbsp = Some [v_rp; [97]]
     /\ git_split w_nbsp = Some [v_rp ++ [160; 97]]) /\
  (alias_edge w_trailing_blank = true /\ parse_alias_tokens w_trailing_blank = Some [v_rp]
     /\ git_split w_trailing_blank = Some [v_rp; []]) /\
  (alias_edge w_leading_blank = true /\ parse_alias_tokens w_leading_blank = Some [v_rp]
     /\ git_split w_leading_blank = Some [[]; v_rp]).
Proof. exact alias_split_refuted. Qed.
Print Assumptions C18_alias_split_refuted.

(* non-vacuity *)
Example C18_ex_identity_hyp :
  no_pre_command_meta [t_C; t_commit; t_gitdir_eq; t_status; t_dhelp] = true /\
  no_pre_command_meta [t_p; dd; t_bogus] = true /\ no_pre_command_meta [t_bogus; t_dversion] = true /\
  no_pre_command_meta [t_C] = true /\ no_pre_command_meta [] = true.
Proof. exact ex_identity_hyp. Qed.

Example C18_ex_command_position :
  spec_command [t_C; t_commit; t_gitdir_eq; t_status; t_dhelp] = Some t_status /\
  command (parse [t_C; t_commit; t_gitdir_eq; t_status; t_dhelp]) = Some t_status /\
  spec_command [t_p; dd; t_bogus] = Some t_bogus /\ spec_command [t_bogus; t_commit] = None.
Proof. exact ex_command_position. Qed.

Example C18_ex_meta_last :
  meta_last [t_C; t_commit; t_dhelp] = true /\ meta_last [t_p; t_dhelp; t_commit; t_short] = true /\
  meta_last [t_dversion] = true /\ meta_last [t_dversion; t_bogus] = true /\
  meta_last [t_htmlpath] = true /\
  meta_normalise [t_p; t_dhelp; t_commit; t_short] = [t_p; s_help; t_commit; t_short].
Proof. exact ex_meta_last. Qed.

Example C18_ex_alias_roundtrip_hyp :
  forallb plain_tok [t_log; t_oneline; t_m1] = true /\ first_not_bang [t_log; t_oneline; t_m1] = true /\
  join [c_sp] [t_log; t_oneline; t_m1] = v_log_oneline.
Proof. exact ex_alias_roundtrip_hyp. Qed.

Example C18_ex_alias_cycle :
  resolve_alias [(t_a, t_b); (t_b, t_a)] (parse [t_a]) = RNone /\
  resolve_alias [(t_a, t_a)] (parse [t_a; t_short]) = RNone /\
  (exists p, resolve_alias [(t_a, t_b); (t_b, v_log_oneline)] (parse [t_C; t_commit; t_a; t_short]) = RSome p
             /\ to_vec p = [t_C; t_commit; t_log; t_oneline; t_m1; t_short]).
Proof. exact ex_alias_cycle. Qed.

Example C18_ex_alias_no_edge :
  alias_edge w_ok_quoted = false /\ is_shell_alias w_ok_quoted = false /\
  git_split w_ok_quoted = Some [[97; 92; 98]; [99; 34; 100]; [101; 32; 102]; [103; 104]] /\
  alias_edge w_ok_format = false /\ is_shell_alias w_ok_format = false /\
  alias_edge v_log_oneline = false.
Proof. exact ex_alias_no_edge. Qed.
