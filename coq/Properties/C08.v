(* Properties/C08.v — transcripts and secrets never enter the shared notes unless the user opted in.
   Only statements; every proof is `exact <lemma>` followed by Print Assumptions.
   Statements are pinned in /verif/statements.lock.

   Full-strength statement: for every prompt-storage mode, every note-writing path, every agent kind and
   every conversation text: (a) unless the effective mode is Notes no conversation text is written to any
   object reachable from refs/notes/ai; (b) in Notes mode every token that the entropy classifier flags is
   masked before it is written.

   (a) holds of the model for every writer of the GENERATED inventory: each one either applies a storage-mode
   match that leaves no messages in Local and Default mode (post_commit, rewrite_authorship_after_commit_amend)
   or builds its log from existing notes only (C08_no_text, C08_no_text_seq, C08_inventory_ok - no exception
   list).  A writer without a storage-mode match that is fed from the working log would break the invariant in
   every mode (C08_unfiltered_writer_refuted): that was `rewrite_authorship_after_commit_amend` before its
   repair (former class C08-K1); the inventory contains no such writer any more, and a new one makes
   C08_inventory_ok fail to check.
   (b) holds for every message variant - the text of User/Assistant/Thinking/Plan messages and every string
   inside ToolUse.input (C08_all_variants_scanned, C08_tooluse_redacted; former class C08-K2) - and for every
   run of at least MIN secret characters, however long: a run longer than MAX is examined in consecutive
   pieces of admissible length that cover it completely (C08_long_runs_examined; former class C08-K3)
   (C08_redact_complete, C08_mask_hides, C08_prompts_redacted, C08_notes_mode_masks).

   The classifier `isr` is universally quantified: the floating-point `is_random` is the definition of
   high-entropy for this property.  `cont_ok s` (no UTF-8 continuation byte directly after a secret, hence
   ASCII, character) holds of every valid UTF-8 string, i.e. of every Rust `&str`; it is needed only because
   `&text[a..b]` panics off a char boundary. *)
From Coq Require Import List NArith Bool.
From Verif Require Import Base.Str Gen.GenSecrets Gen.GenNoteWriters Model.Redact Model.Taint
  Proofs.RedactProofs Proofs.TaintProofs.
Import ListNotations.
Open Scope N_scope.

(* ================= A. redaction ================= *)

(* `segments s` is THE decomposition of s into maximal secret-character runs and gaps *)
Theorem C08_decomposition :
  forall s, decomposition s (segments s) /\ forall l, decomposition s l -> l = segments s.
Proof. exact decomposition_char. Qed.
Print Assumptions C08_decomposition.

(* the output is the input with every piece of every maximal run that has an admissible length and that the
   classifier flags replaced by its mask, every other byte copied in order; the count is the number of such
   pieces.  `refine` cuts the runs longer than MAX into the pieces the scanner examines (see
   C08_long_runs_examined); a run of at most MAX bytes is its own single piece. *)
Theorem C08_redact_complete :
  forall (isr : list N -> bool) s, cont_ok s = true ->
  exists segs, decomposition s segs /\
    redact_text isr s = Ok (flat_map (redact_seg isr) (refine segs), count_flagged isr (refine segs)).
Proof. exact redact_complete. Qed.
Print Assumptions C08_redact_complete.

(* the pieces of a run are the run; and every piece of a run of at least MIN bytes has an admissible length:
   no part of such a run escapes the classifier, however long the run is *)
Theorem C08_long_runs_examined :
  forall r, concat (pieces r) = r /\
    (min_secret_length <= len r -> Forall (fun pc => admissible (len pc) = true) (pieces r)).
Proof. exact (fun r => conj (concat_pieces r) (pieces_admissible r)). Qed.
Print Assumptions C08_long_runs_examined.

(* regression witness of the former class C08-K3: a run of MAX+1 bytes is examined as two pieces, both masked *)
Theorem C08_long_run_masked :
  len wit_long = max_secret_length + 1 /\
  map (@length N) (pieces wit_long)
    = [N.to_nat (max_secret_length + 1 - min_secret_length); N.to_nat min_secret_length] /\
  redact_text all_random wit_long = Ok (wit_long_masked, 2).
Proof. exact long_run_masked. Qed.
Print Assumptions C08_long_run_masked.

Theorem C08_redact_never_panics :
  forall (isr : list N -> bool) s, cont_ok s = true -> redact_text isr s <> Panic.
Proof. exact redact_no_panic. Qed.
Print Assumptions C08_redact_never_panics.

(* the mask of a candidate token: first k bytes, fixed filler, last k bytes; it does not contain the token,
   has a fixed length, and does not depend on the middle of the token at all *)
Theorem C08_mask_hides :
  forall t, forallb is_secret_char t = true -> admissible (len t) = true ->
    redact_secret t = Ok (mask t)
    /\ ~ infix t (mask t)
    /\ len (mask t) = mask_len
    /\ forall p m m' q, length p = vis -> length q = vis -> mask (p ++ m ++ q) = mask (p ++ m' ++ q).
Proof. exact mask_hides_all. Qed.
Print Assumptions C08_mask_hides.

(* on texts without a run longer than MAX (the masked pieces of a longer run join their unmasked neighbours
   into new runs, which the classifier may judge differently) *)
Theorem C08_redact_idempotent :
  forall (isr : list N -> bool) s out n, cont_ok s = true -> short_runs (segments s) ->
    redact_text isr s = Ok (out, n) -> redact_text isr out = Ok (out, 0).
Proof. exact redact_idempotent. Qed.
Print Assumptions C08_redact_idempotent.

(* |out| + (total length of the flagged runs) = |in| + (number of flagged runs) * mask_len *)
Theorem C08_length :
  forall (isr : list N -> bool) l, forallb seg_wf l = true ->
    len (flat_map (redact_seg isr) l) + flagged_len isr l = len (flat l) + count_flagged isr l * mask_len.
Proof. exact redact_length. Qed.
Print Assumptions C08_length.

(* a text none of whose pieces has an admissible length (all runs shorter than MIN) is never touched *)
Theorem C08_inadmissible_unchanged :
  forall (isr : list N -> bool) s, cont_ok s = true ->
    (forall r, In (Run r) (refine (segments s)) -> admissible (len r) = false) -> redact_text isr s = Ok (s, 0).
Proof. exact inadmissible_unchanged. Qed.
Print Assumptions C08_inadmissible_unchanged.

(* redact_secrets_from_prompts: every message is replaced by its specification-level redaction *)
Theorem C08_prompts_redacted :
  forall (isr : list N -> bool) ps, Forall (Forall text_ok) ps ->
    exists k, redact_prompts isr ps = Ok (map (map (redact_msg_spec isr)) ps, k).
Proof. exact redact_prompts_ok. Qed.
Print Assumptions C08_prompts_redacted.

(* every variant of the enum is scanned: no message is copied unexamined *)
Theorem C08_all_variants_scanned : forall m, touched m = true.
Proof. exact all_variants_touched. Qed.
Print Assumptions C08_all_variants_scanned.

(* regression witness of the former class C08-K2: the strings inside ToolUse.input are redacted *)
Theorem C08_tooluse_redacted :
  (forall n sh ls, touched (MToolUse n sh ls) = true) /\
  redact_msgs all_random [wit_tool_msg] = Ok ([wit_tool_msg_masked], 1).
Proof. exact tooluse_redacted. Qed.
Print Assumptions C08_tooluse_redacted.

(* the model knows every variant of `enum Message` the source has, and no other *)
Theorem C08_variants_known :
  forallb (fun v => existsb (str_eqb (fst v)) known_variant_names) message_variants = true
  /\ forallb (fun n => existsb (fun v => str_eqb (fst v) n) message_variants) known_variant_names = true.
Proof. exact all_variants_known. Qed.
Print Assumptions C08_variants_known.

(* ================= B. taint ================= *)

Theorem C08_no_text :
  forall (isr : list N -> bool) w m e ns src,
    m <> MNotes -> Inv_clean ns ->
    w_filtered w = true \/ source_is_notes w = true ->
    Inv_clean (write isr w m e ns src).
Proof. exact no_text. Qed.
Print Assumptions C08_no_text.

(* any sequence of writers of the generated inventory that satisfy the side condition, in any non-Notes modes *)
Theorem C08_no_text_seq :
  forall (isr : list N -> bool) steps ns,
    Inv_clean ns ->
    Forall (fun st => st_mode st <> MNotes /\ In (st_writer st) note_writers
                      /\ safe_writer (st_writer st) = true) steps ->
    Inv_clean (run isr steps ns).
Proof. exact no_text_run. Qed.
Print Assumptions C08_no_text_seq.

(* computed over the GENERATED inventory: EVERY writer is filtered or notes-sourced (no exception list) *)
Theorem C08_inventory_ok : inventory_ok note_writers = true.
Proof. exact inventory_ok_now. Qed.
Print Assumptions C08_inventory_ok.

Theorem C08_inventory_safe : forall w, In w note_writers -> safe_writer w = true.
Proof. exact inventory_safe. Qed.
Print Assumptions C08_inventory_safe.

(* ... and every writer that may carry working-log records redacts them in Notes mode *)
Theorem C08_inventory_notes_ok : inventory_notes_ok note_writers = true.
Proof. exact inventory_notes_ok_now. Qed.
Print Assumptions C08_inventory_notes_ok.

(* the CAS route of the default mode: a successful enqueue clears EVERY record that has messages - a fact read
   from the per-prompt condition of enqueue_prompt_messages_to_cas (Gen: cas_clear_when); C08_inventory_ok
   rests on it through `w_filtered post_commit` *)
Theorem C08_cas_clears_all : cas_clears_all = true.
Proof. exact cas_clears_all_now. Qed.
Print Assumptions C08_cas_clears_all.

(* ... and an enqueue that takes only records with accepted lines would leave the transcript of a session
   with accepted_lines = 0 in the note (the counterexample record the system-level search replays) *)
Theorem C08_partial_cas_refuted :
  atoms_clear_all [CHasMessages; CAcceptedPositive] = false /\
  cas_clear_with [CHasMessages; CAcceptedPositive] [wit_zero] = [wit_zero] /\
  ~ Forall clean_prompt (cas_clear_with [CHasMessages; CAcceptedPositive] [wit_zero]).
Proof. exact partial_cas_refuted. Qed.
Print Assumptions C08_partial_cas_refuted.

(* a writer WITHOUT a storage-mode match that is fed from the working log (what the amend writer was before
   its repair) breaks the invariant from the empty notes ref, in every mode *)
Theorem C08_unfiltered_writer_refuted :
  forall (isr : list N -> bool) w, w_arms w = None -> source_is_notes w = false ->
    Inv_clean [] /\ forall m e, ~ Inv_clean (write isr w m e [] wit_src).
Proof. exact unfiltered_worklog_refuted. Qed.
Print Assumptions C08_unfiltered_writer_refuted.

(* Notes mode: a writer whose Notes arm redacts writes exactly the redacted log *)
Theorem C08_notes_mode_masks :
  forall (isr : list N -> bool) w e ns src,
    w_redacts_in_notes w = true -> log_text_ok (built_log w ns src) ->
    write isr w MNotes e ns src
    = map (fun p => set_messages p (map (redact_msg_spec isr) (p_messages p))) (built_log w ns src) :: ns.
Proof. exact notes_mode_masks. Qed.
Print Assumptions C08_notes_mode_masks.

(* per-repository lists: exclusion wins; Notes needs an explicit opt-in *)
Theorem C08_exclude_wins : forall c, c_excluded c = true -> effective_mode c = MLocal.
Proof. exact exclude_wins. Qed.
Print Assumptions C08_exclude_wins.

(* a repository ONE of whose remotes matches ONE of the exclusion patterns is excluded, whatever its other remotes
   are - hence its effective mode is Local.  The quantifiers of should_exclude_prompts are read from the source. *)
Theorem C08_matching_remote_excluded :
  forall (glob : list N -> list N -> bool) patterns remotes u p,
    In u remotes -> In p patterns -> glob p u = true ->
    should_exclude glob patterns (Some remotes) = true.
Proof. exact matching_remote_excluded. Qed.
Print Assumptions C08_matching_remote_excluded.

Theorem C08_excluded_repo_is_local :
  forall (glob : list N -> list N -> bool) patterns remotes u p c,
    In u remotes -> In p patterns -> glob p u = true ->
    c_excluded c = should_exclude glob patterns (Some remotes) -> effective_mode c = MLocal.
Proof. exact excluded_repo_is_local. Qed.
Print Assumptions C08_excluded_repo_is_local.

Theorem C08_notes_needs_opt_in :
  forall c, effective_mode c = MNotes ->
    c_excluded c = false /\
    (c_global c = Some MNotes /\ (c_include_empty c = true \/ c_include_match c = true)
     \/ c_fallback c = Some MNotes /\ c_include_empty c = false /\ c_include_match c = false).
Proof. exact notes_needs_opt_in. Qed.
Print Assumptions C08_notes_needs_opt_in.

(* agent kinds: a custom tool's transcript stays inline in the working log, claude's is dropped when it can
   be re-fetched from transcript_path *)
Theorem C08_agent_kinds :
  (forall meta ms, stored_transcript tool_custom meta ms = ms) /\
  (forall ms, stored_transcript tool_claude [key_transcript_path] ms = []) /\
  (forall ms, stored_transcript tool_claude [] ms = ms).
Proof. exact agent_kinds. Qed.
Print Assumptions C08_agent_kinds.

(* ================= non-vacuity ================= *)

(* a text with a flagged token: hypothesis met, the token is masked, the rest copied *)
Example C08_nonvacuous :
  cont_ok wit_text = true /\ redact_text all_random wit_text = Ok (wit_text_masked, 1).
Proof. exact wit_text_redacted. Qed.

Example C08_nonvacuous_msg : redact_msgs all_random [MUser wit_text] = Ok ([MUser wit_text_masked], 1).
Proof. exact user_msg_masked. Qed.

(* the inventory really contains a filtered working-log writer and notes-sourced writers *)
Example C08_nonvacuous_inventory :
  existsb (fun w => w_filtered w && w_redacts_in_notes w && w_src_worklog w) note_writers = true /\
  existsb source_is_notes note_writers = true.
Proof. split; reflexivity. Qed.

(* the side condition of C08_no_text_seq is met by a real sequence: a filtered writer, a notes-sourced one, ... *)
Example C08_nonvacuous_seq :
  exists steps, length steps = 3%nat /\
    Forall (fun st => st_mode st <> MNotes /\ In (st_writer st) note_writers
                      /\ safe_writer (st_writer st) = true) steps.
Proof. exact seq_witness. Qed.
