(* Properties/C01.v — a commit's AI attribution is exactly the lines the agents wrote.
   Statements only (proofs are `exact`).  This file carries the working-log layer of C01:
   what the commit hook reads back from the checkpoints is, for every file, what the NEWEST
   checkpoint of that file says (Model/WorkLog.v = VirtualAttributions::from_just_working_log).
   The diff-protocol layer is in Properties/C01_fmt.v, the split by commit in Properties/C04.v,
   the tracker in Properties/C16.v.

   Full-strength statement at this layer: forall f initial cps,
     alookup f (va_from_log_gen drops initial cps) = spec_lookup f initial cps
   It is FALSE for drops = false, i.e. for the code before fix 739e3592 (C01_stale_refuted:
   an AI entry followed by an all-human entry of the same file); the translator reads `drops`
   from the current source, so reverting the fix breaks C01_latest_wins. *)
From Coq Require Import List NArith Bool.
From Verif Require Import Base.Str Gen.GenWorkLog Model.WorkLog Proofs.WorkLogProofs.
Import ListNotations.
Open Scope N_scope.

Theorem C01_latest_wins : forall f initial cps,
  alookup f (va_from_log initial cps) = spec_lookup f initial cps.
Proof. exact latest_wins. Qed.
Print Assumptions C01_latest_wins.

Theorem C01_stale_refuted :
  alookup [97] (va_from_log_gen false [] stale_witness) <> spec_lookup [97] [] stale_witness.
Proof. exact stale_refuted. Qed.
Print Assumptions C01_stale_refuted.

(* non-vacuity: the specification is not constantly None on a three-checkpoint log *)
Example C01_nonvacuous :
  spec_lookup [98] [] wit_log = Some [mkLattr 1 2 [115; 50]] /\
  spec_lookup [97] [] wit_log = Some [mkLattr 4 4 [115; 49]].
Proof. split; vm_compute; reflexivity. Qed.
