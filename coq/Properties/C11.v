(* Properties/C11.v — concurrent git-ai activity in one repository loses nothing.
   Only statements; every proof is `exact <lemma>` followed by Print Assumptions.

   Full-strength statement: for all programs (checkpoint, commit and rewrite operations on the
   shared journals) and ALL schedules, the final store equals the store after running the
   operations one after another in some order, so every reported edit (checkpoint), every
   rewrite-log event and every commit's note is present afterwards:
       forall progs sched s0, exists ops, forall o, run progs sched s0 o = run_serial ops s0 o
   It is FALSE of the faithful model of the unchanged tree: the journal writers
   append_checkpoint / append_event_to_file / `git notes add` are lock-free read-modify-writes
   (Gen/GenConc.v: *_locked = false), see C11_lost_update_refuted, C11_notes_lost_refuted.
   What is proved instead:
     - the specification a lock would give (C11_serial_if_atomic, C11_locked_loses_nothing),
     - the exact boolean side condition under which the unchanged tree meets it (Known_C11 =
       some write uses a register that is older than another write to the same object, i.e. two
       read..write windows on the same file overlap; C11_known_exact),
     - for ALL schedules: nothing is invented, order is kept, nothing is duplicated
       (C11_no_phantoms),
     - operations confined to different linked worktrees never interfere
       (C11_worktree_isolated, C11_storage_paths_distinct); only refs/notes/ai is shared. *)
From Coq Require Import List NArith Bool Arith.
From Verif Require Import Base.Str Gen.GenConc Model.Conc Proofs.ConcProofs Model.TornWrite Proofs.TornWriteProofs.
Import ListNotations.
Open Scope N_scope.

(* the specification: with atomic read..write windows the result is the serial one, in the
   order of the write steps *)
Theorem C11_serial_if_atomic : forall progs sched s0,
  atomic_windows progs sched ->
  forall o, run progs sched s0 o = run_serial (writes_of (trace_of progs sched)) s0 o.
Proof. exact serial_if_atomic. Qed.
Print Assumptions C11_serial_if_atomic.

(* run_serial is what the machine does when the operations run one after another *)
Theorem C11_serial_is_sequential : forall ops s0 o,
  run (map (rmw false) ops) (seq_sched 0 (length ops)) s0 o = run_serial ops s0 o.
Proof. exact run_sequential. Qed.
Print Assumptions C11_serial_is_sequential.

(* ... and then every appended checkpoint / event is present exactly once, in write order, and
   every commit that wrote a note has one *)
Theorem C11_atomic_loses_nothing : forall progs sched s0,
  atomic_windows progs sched ->
  let final := run progs sched s0 in
  let ops := writes_of (trace_of progs sched) in
  (forall w b, ~ In (ResetCp w b) ops ->
               cp_ids (final (OCp w b)) = cp_ids (s0 (OCp w b)) ++ log (OCp w b) ops) /\
  (forall w, firstn max_events (as_ev (final (ORw w)))
             = firstn max_events (rev (log (ORw w) ops) ++ as_ev (s0 (ORw w)))) /\
  (forall k n, In (NotesAdd k n) ops -> In k (map fst (as_notes (final ONotes)))).
Proof. exact atomic_loses_nothing. Qed.
Print Assumptions C11_atomic_loses_nothing.

(* a lock around every read-modify-write suffices: programs without a separate write step
   have atomic windows under EVERY schedule *)
Theorem C11_locked_loses_nothing : forall progs sched,
  (forall p st, In p progs -> In st p -> forall k, st <> SWrite k) ->
  atomic_windows progs sched.
Proof. exact locked_stale_free. Qed.
Print Assumptions C11_locked_loses_nothing.

(* the unchanged tree: r1 r2 w1 w2 loses a checkpoint / a rewrite-log event *)
Theorem C11_lost_update_refuted :
  (exists sched,
     let tr := trace_of wit_cp_progs sched in
     let final := run wit_cp_progs sched empty_store in
     length tr = 4%nat /\ Known_C11 wit_cp_progs sched /\
     log (OCp 0 7) (writes_of tr) = [1; 2] /\ cp_ids (final (OCp 0 7)) = [2]) /\
  (exists sched,
     let tr := trace_of wit_ev_progs sched in
     let final := run wit_ev_progs sched empty_store in
     length tr = 4%nat /\ Known_C11 wit_ev_progs sched /\
     log (ORw 0) (writes_of tr) = [1; 2] /\ as_ev (final (ORw 0)) = [2]).
Proof. exact (conj lost_checkpoint lost_event). Qed.
Print Assumptions C11_lost_update_refuted.

(* the notes ref: `git notes add` sets the ref without an old-value check; two commits in two
   DIFFERENT linked worktrees keep their own journals but one note is lost *)
Theorem C11_notes_lost_refuted :
  (exists sched,
     let tr := trace_of wit_notes_progs sched in
     let final := run wit_notes_progs sched empty_store in
     length tr = 4%nat /\ Known_C11 wit_notes_progs sched /\
     writes_of tr = [NotesAdd 101 11; NotesAdd 102 22] /\ as_notes (final ONotes) = [(102, 22)]) /\
  (let progs := wit_commit_progs in
   let sched := sched_two_commits in
   let tr := trace_of progs sched in
   let final := run progs sched empty_store in
   length tr = 20%nat /\ Known_C11 progs sched /\
   as_ev (final (ORw 1)) = [1] /\ as_ev (final (ORw 2)) = [2] /\
   In (NotesAdd 101 11) (writes_of tr) /\ as_notes (final ONotes) = [(102, 22)]).
Proof. exact (conj lost_note lost_note_two_worktrees). Qed.
Print Assumptions C11_notes_lost_refuted.

(* a checkpoint arriving while post_commit rewrites the working log is lost *)
Theorem C11_commit_loses_checkpoint_refuted :
  let progs := wit_commit_ckpt_progs in
  let sched := sched_commit_ckpt in
  let tr := trace_of progs sched in
  let final := run progs sched empty_store in
  Known_C11 progs sched /\ log (OCp 0 7) (writes_of tr) = [2] /\ cp_ids (final (OCp 0 7)) = [].
Proof. exact lost_checkpoint_during_commit. Qed.
Print Assumptions C11_commit_loses_checkpoint_refuted.

(* the base commit of a checkpoint is resolved when the process starts: if a commit of the same
   worktree (7 -> 101) completes before the checkpoint writes, no read..write windows overlap and
   still the checkpoint ends in the working log of the OLD base 7 (consumed and retired by the
   commit); the log and INITIAL of the new base 101 do not know it (known class C11-K4) *)
Theorem C11_stale_base_refuted :
  let progs := wit_commit_ckpt_progs in
  let sched := sched_commit_then_ckpt in
  let final := run progs sched empty_store in
  length (trace_of progs sched) = 14%nat /\ ~ Known_C11 progs sched /\
  cp_ids (final (OCp 0 7)) = [2] /\ cp_ids (final (OCp 0 101)) = [] /\
  as_init (final (OInit 0 101)) = [] /\ as_notes (final ONotes) = [(101, 11)].
Proof. exact stale_base. Qed.
Print Assumptions C11_stale_base_refuted.

(* the blob store of a working log: an existing content-addressed blob is rewritten in place
   (truncate, then write); a concurrent checkpoint reading it back as the previous version of a
   tracked file can observe it empty - a state no serial execution exhibits - and then claims the
   whole file for its own session.  No journal windows overlap here (known class C11-K5) *)
Theorem C11_torn_blob_refuted :
  let progs := wit_blob_progs in
  let sched := sched_torn_blob in
  let tr := trace_of progs sched in
  let c := exec tr (init_config wit_blob_store) in
  length tr = 16%nat /\ ~ Known_C11 progs sched /\
  as_blob (wit_blob_store (OBlob 0 7 5)) = [1; 2] /\
  as_blob (shared c (OBlob 0 7 5)) = [1; 2] /\
  cp_ids (shared c (OCp 0 7)) = [1; 2] /\
  as_blob (reg c 1%nat (OBlob 0 7 5)) = [].
Proof. exact torn_blob. Qed.
Print Assumptions C11_torn_blob_refuted.

(* git moves HEAD to c BEFORE git-ai's post-commit step of the commit b -> c runs; another actor may
   checkpoint against c in the meantime.  The post-commit program applies to the working log of c
   exactly what the translator read from post_commit (Gen/GenConc.v post_commit_resets_new_log =
   false: only write_initial_attributions).  Then under EVERY interleaving no window overlaps and
   an acknowledged (completed) checkpoint against the new head is in its working log afterwards.
   The proof instantiates the hypothesis `post_commit_resets_new_log = false` by computation: it
   stops type-checking when post_commit resets or deletes the new working log. *)
Theorem C11_new_head_checkpoint_kept : forall w b c e n v x sched s0,
  b <> c ->
  let progs := [commit_prog w b c e n v; checkpoint_run w c x] in
  let final := run progs sched s0 in
  let ops := writes_of (trace_of progs sched) in
  atomic_windows progs sched /\
  cp_ids (final (OCp w c)) = cp_ids (s0 (OCp w c)) ++ log (OCp w c) ops /\
  (length (thread_steps 1 (trace_of progs sched)) = length (checkpoint_run w c x) ->
   In (cp_id x) (cp_ids (final (OCp w c)))).
Proof. exact new_head_checkpoint_kept. Qed.
Print Assumptions C11_new_head_checkpoint_kept.

(* the hypothesis is needed: with a reset before the seeding the checkpoint is erased, and no
   read..write windows overlap (so it would not even be in the known class) *)
Theorem C11_reset_of_new_log_would_lose :
  let progs := wit_reset_progs in
  let sched := sched_ckpt_then_seed in
  let final := run progs sched empty_store in
  length (trace_of progs sched) = 6%nat /\ ~ Known_C11 progs sched /\
  log (OCp 0 101) (writes_of (trace_of progs sched)) = [2] /\ cp_ids (final (OCp 0 101)) = [].
Proof. exact reset_would_lose. Qed.
Print Assumptions C11_reset_of_new_log_would_lose.

(* ANY schedule: nothing is invented, order is kept (a subsequence of initial ++ appended in
   write order; with distinct identities nothing appears twice), every thread executes a prefix
   of its program *)
Theorem C11_no_phantoms : forall progs sched s0,
  let final := run progs sched s0 in
  let tr := trace_of progs sched in
  (forall o, subseq (view o (final o)) (view o (s0 o) ++ log o (writes_of tr))) /\
  (forall o i, In i (view o (final o)) ->
       In i (view o (s0 o)) \/
       exists t p k, nth_error progs t = Some p /\ (In (SWrite k) p \/ In (SAtomic k) p) /\
                     obj_of k = o /\ In i (appended k)) /\
  (forall c n, In (c, n) (as_notes (final ONotes)) ->
       In (c, n) (as_notes (s0 ONotes)) \/
       exists t p, nth_error progs t = Some p /\
                   (In (SWrite (NotesAdd c n)) p \/ In (SAtomic (NotesAdd c n)) p)) /\
  (forall t p, nth_error progs t = Some p -> exists rest, p = thread_steps t tr ++ rest).
Proof. exact no_phantoms. Qed.
Print Assumptions C11_no_phantoms.

Theorem C11_no_duplicates : forall (a l : list N), subseq a l -> NoDup l -> NoDup a.
Proof. exact (subseq_NoDup N). Qed.
Print Assumptions C11_no_duplicates.

(* operations confined to pairwise different worktrees: every interleaving is serialisable *)
Theorem C11_worktree_isolated : forall progs (wt : nat -> N) sched s0,
  (forall t p, nth_error progs t = Some p -> blocks p = true /\ confined (wt t) p) ->
  (forall t1 t2 p1 p2, t1 <> t2 -> nth_error progs t1 = Some p1 -> nth_error progs t2 = Some p2 ->
                       wt t1 <> wt t2) ->
  atomic_windows progs sched /\
  forall o, run progs sched s0 o = run_serial (writes_of (trace_of progs sched)) s0 o.
Proof. exact worktree_isolated. Qed.
Print Assumptions C11_worktree_isolated.

Theorem C11_checkpoints_in_two_worktrees : forall w1 b1 x1 w2 b2 x2 sched s0,
  w1 <> w2 ->
  let progs := [checkpoint_run w1 b1 x1; checkpoint_run w2 b2 x2] in
  let final := run progs sched s0 in
  let ops := writes_of (trace_of progs sched) in
  (forall o, final o = run_serial ops s0 o) /\
  cp_ids (final (OCp w1 b1)) = cp_ids (s0 (OCp w1 b1)) ++ log (OCp w1 b1) ops /\
  cp_ids (final (OCp w2 b2)) = cp_ids (s0 (OCp w2 b2)) ++ log (OCp w2 b2) ops.
Proof. exact checkpoints_in_two_worktrees. Qed.
Print Assumptions C11_checkpoints_in_two_worktrees.

(* the storage-path function: main worktree = <common>/ai, linked = <common>/ai/worktrees/<rel>;
   distinct journal objects of standard worktrees are distinct files *)
Theorem C11_storage_paths_distinct :
  (forall c, ai_dir c c = c ++ [s_ai]) /\
  (forall c x rel, ai_dir c (c ++ [s_worktrees] ++ x :: rel) = c ++ [s_ai; s_worktrees] ++ x :: rel) /\
  (forall c g1 g2, std_gitdir c g1 -> std_gitdir c g2 -> ai_dir c g1 = ai_dir c g2 -> g1 = g2) /\
  (forall c gd o1 o2 p,
     (forall w, std_gitdir c (gd w)) -> (forall w1 w2, gd w1 = gd w2 -> w1 = w2) ->
     storage_file c gd o1 = Some p -> storage_file c gd o2 = Some p -> o1 = o2).
Proof. exact (conj ai_dir_main (conj ai_dir_linked (conj ai_dir_injective storage_file_injective))). Qed.
Print Assumptions C11_storage_paths_distinct.

(* the known class is exact in the direction that matters: outside it nothing is lost *)
Theorem C11_known_exact : forall progs sched s0,
  ~ Known_C11 progs sched ->
  let final := run progs sched s0 in
  let ops := writes_of (trace_of progs sched) in
  (forall o, final o = run_serial ops s0 o) /\
  (forall w b, ~ In (ResetCp w b) ops ->
               cp_ids (final (OCp w b)) = cp_ids (s0 (OCp w b)) ++ log (OCp w b) ops) /\
  (forall w, firstn max_events (as_ev (final (ORw w)))
             = firstn max_events (rev (log (ORw w) ops) ++ as_ev (s0 (ORw w)))) /\
  (forall k n, In (NotesAdd k n) ops -> In k (map fst (as_notes (final ONotes)))).
Proof. exact known_exact. Qed.
Print Assumptions C11_known_exact.

(* ------------------------------------------------------------------ non-vacuity *)
(* over all six interleavings of two appends the known class holds exactly where something is lost *)
Example C11_two_appends_exact :
  length (interleavings wit_cp_progs) = 6%nat /\
  forallb (known_iff_lost (OCp 0 7) wit_cp_progs) (interleavings wit_cp_progs) = true /\
  forallb (known_iff_lost (ORw 0) wit_ev_progs) (interleavings wit_ev_progs) = true.
Proof. exact two_appends_exact. Qed.

(* schedules with atomic windows exist and keep both checkpoints, in either order *)
Example C11_nonvacuous :
  atomic_windows wit_cp_progs [0; 0; 1; 1]%nat /\
  cp_ids (run wit_cp_progs [0; 0; 1; 1]%nat empty_store (OCp 0 7)) = [1; 2] /\
  atomic_windows wit_cp_progs [1; 1; 0; 0]%nat /\
  cp_ids (run wit_cp_progs [1; 1; 0; 0]%nat empty_store (OCp 0 7)) = [2; 1].
Proof. exact serial_example. Qed.

Example C11_two_worktrees_example :
  let sched := [0; 1; 0; 1; 0; 1; 0; 1]%nat in
  length (trace_of wit_wt_progs sched) = 8%nat /\
  cp_ids (run wit_wt_progs sched empty_store (OCp 1 7)) = [1] /\
  cp_ids (run wit_wt_progs sched empty_store (OCp 2 7)) = [2].
Proof. exact two_worktrees_example. Qed.

(* the path function on examples; a git dir outside <common>/worktrees (never created by git)
   falls back to its leaf name, which can collide with a linked worktree of that name *)
Example C11_paths_example :
  let c := [[47]; [114]; s_ai] in
  ai_dir c c = c ++ [s_ai] /\
  ai_dir c (c ++ [s_worktrees; [119; 49]]) = c ++ [s_ai; s_worktrees; [119; 49]] /\
  ai_dir c [[120]; [119; 49]] = ai_dir c (c ++ [s_worktrees; [119; 49]]).
Proof. exact paths_example. Qed.

(* the in-place rewrite at the granularity of its system calls (fs::write = open(O_TRUNC); write at 0),
   for two writers with ANY contents a, b under ANY schedule keeping program order:
   unless both truncations precede both writes the file is the last writer's content (the serial result) *)
Theorem C11_rewrite_serial_unless_overlapped : forall (a b : list N) sch file,
  tvalid sch = true -> overlapped sch = false ->
  texec a b sch file = if a_last sch then a else b.
Proof. exact (@texec_not_overlapped N). Qed.
Print Assumptions C11_rewrite_serial_unless_overlapped.

(* and when they do, the file is the last writer's content followed by the part of the earlier writer's
   content that lies beyond it: a torn tail, present exactly when the earlier content is longer *)
Theorem C11_rewrite_overlapped_torn_tail : forall (a b : list N) sch file,
  tvalid sch = true -> overlapped sch = true ->
  texec a b sch file = (if a_last sch then a ++ skipn (length a) b else b ++ skipn (length b) a) /\
  ((texec a b sch file = if a_last sch then a else b) <->
   (if a_last sch then (length b <= length a)%nat else (length a <= length b)%nat)).
Proof.
  intros a b sch file V O. split.
  - exact (texec_overlapped a b sch file V O).
  - exact (texec_overlapped_intact a b sch file V O).
Qed.
Print Assumptions C11_rewrite_overlapped_torn_tail.

Example C11_torn_tail_example :
  tvalid [TruncA; TruncB; WriteA; WriteB] = true /\ overlapped [TruncA; TruncB; WriteA; WriteB] = true /\
  texec [1; 2; 3; 4; 5]%nat [7; 8; 9]%nat [TruncA; TruncB; WriteA; WriteB] [0; 0]%nat = [7; 8; 9; 4; 5]%nat.
Proof. exact torn_example. Qed.
