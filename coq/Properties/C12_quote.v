(* Properties/C12_quote.v — core.quotePath and the paths of diff headers (C12).

   The Profile model does not pin core.quotePath for patch text: with quotePath=true (git's default)
   a non-ASCII byte inside a quoted path is printed as an octal escape, with quotePath=false it is
   printed raw, and names containing a double quote, a backslash or a control character are quoted
   under BOTH settings — so with quotePath=false a quoted path can carry raw UTF-8 between the quotes.
   The obligation that this makes no difference is discharged here against the DiffFmt slice's model
   (Model/DiffFmt.v: git's quote_c_style / quote_two, String::from_utf8_lossy = dec,
   utils::unescape_git_path), for EVERY name that is valid UTF-8 (a list of Unicode scalar values):

     git's output --from_utf8_lossy--> text --unescape_git_path--> the name, under either setting.

   The model of unescape_git_path is tied to the real function by vlib/c01fmt.py (the DiffFmt slice)
   and, for this statement, by vlib/c12.py: generated names are C-quoted both ways by an independent
   implementation of quote_c_style (validated against /usr/bin/git), and the real function, called
   in-process, must return the name in both cases. *)
From Coq Require Import List NArith Bool.
From Verif Require Import Base.Str Model.DiffFmt Proofs.ProfileQuoteProofs.
Import ListNotations.
Open Scope N_scope.

Theorem C12_header_path_decodes : forall qp s, forallb is_scalar s = true ->
  unescape_git_path (dec (quote_c_style qp (enc s))) = s.
Proof. exact unescape_dec_quote. Qed.
Print Assumptions C12_header_path_decodes.

(* with the a/ b/ prefixes of the patch headers (quote_two) *)
Theorem C12_header_path_quotepath_independent : forall pre s,
  forallb is_scalar pre = true -> forallb is_scalar s = true ->
  unescape_git_path (dec (quote_two false (enc pre) (enc s))) = pre ++ s /\
  unescape_git_path (dec (quote_two true (enc pre) (enc s))) = pre ++ s.
Proof. exact header_path_quotepath_independent. Qed.
Print Assumptions C12_header_path_quotepath_independent.

(* non-vacuity: the name e-acute, double quote, x (233 34 120): quoted under both settings, differently, and read back alike *)
Example C12_ex_mixed_name :
  quote_two true [98; 47] (enc [233; 34; 120]) = [34; 98; 47; 92; 51; 48; 51; 92; 50; 53; 49; 92; 34; 120; 34] /\
  quote_two false [98; 47] (enc [233; 34; 120]) = [34; 98; 47; 195; 169; 92; 34; 120; 34] /\
  normalize_diff_path_token (dec (quote_two true [98; 47] (enc [233; 34; 120]))) = [233; 34; 120] /\
  normalize_diff_path_token (dec (quote_two false [98; 47] (enc [233; 34; 120]))) = [233; 34; 120].
Proof. vm_compute. repeat split. Qed.
