(* Model/Confine.v — where git-ai's own git invocations may write (C06: besides the user's command, git-ai
   touches only the object store and its own refs).  The call sites are FACTS read from the source
   (Gen/GenInternalGit.v, one entry per `exec_git*` call site with its argument template); the tables in
   ConfineTables.v are the POLICY.  Definitions only. *)
From Coq Require Import List NArith Bool.
From Verif Require Import Base.Str Gen.GenInternalGit Model.ConfineTables.
Import ListNotations.
Open Scope N_scope.

Inductive site_class :=
| ReadOnly            (* never writes a ref, the index or the work tree *)
| ObjectStore         (* creates objects only *)
| OwnRefsLiteral      (* writes, and the ref it writes is spelled out in the template: refs/notes/ai* *)
| DynamicTarget       (* the target is computed: allowed only for the listed call sites, monitored at run time *)
| CiOnly              (* code of the CI integration, never run by the proxy or the checkpoint *)
| Unclassified.

Fixpoint prefix_of (p s : str) : bool :=
  match p, s with
  | [], _ => true
  | a :: p', b :: s' => (a =? b) && prefix_of p' s'
  | _ :: _, [] => false
  end.

(* the words after the repository's global args, a `-C <dir>` / `-c <k=v>` pair and `--no-pager` *)
Fixpoint command_words (fuel : nat) (items : list inv_item) : list inv_item :=
  match fuel with
  | O => items
  | S f =>
      match items with
      | IGlobals :: r => command_words f r
      | ILit w :: IDyn :: r =>
          if str_eqb w w_minus_C || str_eqb w w_minus_c then command_words f r else items
      | ILit w :: r => if str_eqb w w_no_pager then command_words f r else items
      | _ => items
      end
  end.

Definition in_list (w : str) (l : list str) : bool := existsb (str_eqb w) l.

Definition in_pairs (a b : str) (l : list (str * str)) : bool :=
  existsb (fun p => str_eqb a (fst p) && str_eqb b (snd p)) l.

Definition classify_site (e : inv_entry) : site_class :=
  if prefix_of ci_prefix (inv_file e) then CiOnly
  else if in_pairs (inv_file e) (inv_fn e) dynamic_sites then DynamicTarget
  else
    match command_words 8 (inv_items e) with
    | ILit c :: rest =>
        if in_list c read_only_cmds then ReadOnly
        else if in_list c object_store_cmds then ObjectStore
        else match rest with
             | ILit w :: _ => if in_pairs c w read_only_forms then
                                 (* `notes --ref=ai…` writes git-ai's own notes ref, everything else listed reads *)
                                 if prefix_of [110; 111; 116; 101; 115] c then OwnRefsLiteral else ReadOnly
                               else Unclassified
             | [] => if in_list c read_only_bare then ReadOnly else Unclassified
             | _ => Unclassified
             end
    | _ => Unclassified
    end.

Definition site_ok (e : inv_entry) : bool :=
  match classify_site e with Unclassified => false | _ => true end.

(* every listed dynamic site exists (the policy table does not rot) *)
Definition dynamic_sites_exist : bool :=
  forallb (fun p => existsb (fun e => str_eqb (inv_file e) (fst p) && str_eqb (inv_fn e) (snd p)) gen_inventory)
          dynamic_sites.

Definition count_class (c : site_class -> bool) : N :=
  N.of_nat (length (filter (fun e => c (classify_site e)) gen_inventory)).
