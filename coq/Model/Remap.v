(* Model/Remap.v — C15: the note-remapping shortcut of rebase / cherry-pick
   (src/authorship/rebase_authorship.rs).  Definitions only.

   (a) tracked_paths_match_for_commit_pairs: the scanning loop over the bytes printed by
       `git diff-tree --stdin --raw -z --no-abbrev -r -- <tracked paths>` for one `tree tree` line
       per commit pair; a printer and a parser of that output format (the spec side).
   (b) try_remap_base_commit_sha_field / remap_note_content_for_target_commit, byte for byte.
   (c) the control skeleton of try_fast_path_{rebase,cherry_pick}_note_remap.

   Strings are byte lists.  Rust positions `pos` into `data` are rendered as the suffix
   `data[pos..]`; the prefix `note_content[..value_start]` as the concatenation of the pieces
   consumed so far (the two coincide by construction; the in-process correspondence compares
   the result with the real function on every generated note). *)
From Verif Require Import Base.Str Gen.GenRemap.

Definition c_colon : cp := 58.
Definition c_nul : cp := 0.
Definition c_bsl : cp := 92.

(* ------------------------------------------------------------------ (a) comparator *)

(* while pos < data.len() && data[pos] == b'\n' { pos += 1 } *)
Fixpoint skip_nl (s : str) : str :=
  match s with
  | c :: s' => if c =? c_nl then skip_nl s' else s
  | [] => []
  end.

(* for _ in commit_pairs { ... }   None = `return Ok(false)` *)
Fixpoint pairs_loop (n : nat) (s : str) : option str :=
  match n with
  | O => Some s
  | S n' =>
      match split_first c_nl s with           (* data[pos..].iter().position(|&b| b == b'\n') *)
      | None => None
      | Some (_, rest) =>                      (* pos = header_end + 1 *)
          if first_is c_colon rest then None   (* any delta line *)
          else pairs_loop n' (skip_nl rest)
      end
  end.

(* trailing loop: a `:` at the start of a remaining line declines.  fuel >= remaining length *)
Fixpoint tail_loop (fuel : nat) (s : str) : bool :=
  match fuel with
  | O => true
  | S f =>
      match s with
      | [] => true
      | c :: s' =>
          if c =? c_colon then false
          else if c =? c_nl then tail_loop f s'
          else match split_first c_nl s with
               | Some (_, rest) => tail_loop f rest
               | None => true                  (* break *)
               end
      end
  end.

Definition run_loops (n : nat) (out : str) : bool :=
  match pairs_loop n out with
  | None => false
  | Some rest => tail_loop (S (length rest)) rest
  end.

(* the decision on git's output for npairs pairs (npairs = 0 returns before git is run) *)
Definition matches (out : str) (npairs : nat) : bool :=
  match npairs with O => true | _ => run_loops npairs out end.

(* ---------- the output format: printer ---------- *)
Record drec := mk_drec {
  r_omode : str; r_nmode : str; r_ooid : str; r_noid : str; r_status : str;
  r_path : str; r_path2 : option str }.

Record dsec := mk_dsec { s_header : str; s_recs : list drec }.

Definition rec_meta (r : drec) : str :=
  r_omode r ++ c_sp :: r_nmode r ++ c_sp :: r_ooid r ++ c_sp :: r_noid r ++ c_sp :: r_status r.

Definition rec_tail (r : drec) : str :=
  match r_path2 r with Some p => p ++ [c_nul] | None => [] end.

Definition print_rec (r : drec) : str :=
  c_colon :: rec_meta r ++ c_nul :: r_path r ++ c_nul :: rec_tail r.

Definition print_recs (rs : list drec) : str := flat_map print_rec rs.

Definition print_sec (d : dsec) : str := s_header d ++ c_nl :: print_recs (s_recs d).

Definition print_out (ds : list dsec) : str := flat_map print_sec ds.

Definition headers_only (d : dsec) : dsec := mk_dsec (s_header d) [].

(* well-formedness of what git prints *)
Definition is_hex (c : cp) : bool := ((48 <=? c) && (c <=? 57)) || ((97 <=? c) && (c <=? 102)).
Definition hdr_char (c : cp) : bool := is_hex c || (c =? c_sp).
Definition field_char (c : cp) : bool := negb (c =? c_sp) && negb (c =? c_nul).
Definition path_char (c : cp) : bool := negb (c =? c_nul).
Definition nonempty (s : str) : bool := match s with [] => false | _ => true end.
Definition field_ok (s : str) : bool := forallb field_char s.
Definition path_ok (s : str) : bool := forallb path_char s.

(* rename / copy records carry two paths *)
Definition two_paths (st : str) : bool :=
  match st with c :: _ => (c =? 82) || (c =? 67) | [] => false end.

Definition rec_ok (r : drec) : bool :=
  field_ok (r_omode r) && field_ok (r_nmode r) && field_ok (r_ooid r) && field_ok (r_noid r) &&
  field_ok (r_status r) && path_ok (r_path r) &&
  match r_path2 r with
  | Some p => two_paths (r_status r) && path_ok p
  | None => negb (two_paths (r_status r))
  end.

Definition hdr_ok (h : str) : bool := nonempty h && forallb hdr_char h.
Definition sec_ok (d : dsec) : bool := hdr_ok (s_header d) && forallb rec_ok (s_recs d).
Definition out_ok (ds : list dsec) : bool := forallb sec_ok ds.

(* ---------- the output format: parser (spec side; the Rust code has none) ---------- *)
Definition parse_rec (s : str) : option (drec * str) :=     (* s: just after the ':' *)
  match split_first c_nul s with
  | None => None
  | Some (meta, s1) =>
    match split_first c_sp meta with None => None | Some (a, m1) =>
    match split_first c_sp m1 with None => None | Some (b, m2) =>
    match split_first c_sp m2 with None => None | Some (c, m3) =>
    match split_first c_sp m3 with None => None | Some (d, e) =>
      if mem c_sp e then None else
      match split_first c_nul s1 with
      | None => None
      | Some (p1, s2) =>
          if two_paths e then
            match split_first c_nul s2 with
            | None => None
            | Some (p2, s3) => Some (mk_drec a b c d e p1 (Some p2), s3)
            end
          else Some (mk_drec a b c d e p1 None, s2)
      end
    end end end end
  end.

Fixpoint parse_recs (fuel : nat) (s : str) : option (list drec * str) :=
  match fuel with
  | O => None
  | S f =>
      match s with
      | c :: s' =>
          if c =? c_colon then
            match parse_rec s' with
            | None => None
            | Some (r, rest) =>
                match parse_recs f rest with
                | None => None
                | Some (rs, rest') => Some (r :: rs, rest')
                end
            end
          else Some ([], s)
      | [] => Some ([], [])
      end
  end.

Fixpoint parse_secs (fuel : nat) (s : str) : option (list dsec) :=
  match fuel with
  | O => None
  | S f =>
      match s with
      | [] => Some []
      | _ =>
          match split_first c_nl s with
          | None => None
          | Some (h, s1) =>
              match parse_recs (S (length s1)) s1 with
              | None => None
              | Some (rs, s2) =>
                  match parse_secs f s2 with
                  | None => None
                  | Some ds => Some (mk_dsec h rs :: ds)
                  end
              end
          end
      end
  end.

Definition parse_out (s : str) : option (list dsec) := parse_secs (S (length s)) s.

(* git's pathspec limiting (environment, monitored): only records naming a tracked path are printed *)
Definition touches (tracked : list str) (r : drec) : bool :=
  existsb (str_eqb (r_path r)) tracked ||
  match r_path2 r with Some p => existsb (str_eqb p) tracked | None => false end.

Definition limit (tracked : list str) (ds : list dsec) : list dsec :=
  map (fun d => mk_dsec (s_header d) (filter (touches tracked) (s_recs d))) ds.

Fixpoint count_nl (s : str) : nat :=
  match s with [] => O | c :: s' => if c =? c_nl then S (count_nl s') else count_nl s' end.

(* ------------------------------------------------------------------ (b) remap *)

(* the field marker (17 bytes: double quote, base_commit_sha, double quote), read from the source *)
Definition marker : str := remap_marker.

Fixpoint starts_with (p s : str) : bool :=
  match p, s with
  | [], _ => true
  | x :: p', y :: s' => (x =? y) && starts_with p' s'
  | _ :: _, [] => false
  end.

(* str::find: first occurrence; Some (before, after the pattern) *)
Fixpoint find_split (p s : str) : option (str * str) :=
  if starts_with p s then Some ([], skipn (length p) s)
  else match s with
       | [] => None
       | c :: s' =>
           match find_split p s' with
           | Some (a, b) => Some (c :: a, b)
           | None => None
           end
       end.

(* the byte set of the two skip loops (blank, LF, tab, CR), read from the source *)
Definition is_json_ws (c : cp) : bool := mem c remap_ws.

(* while pos < len && matches!(bytes[pos], b' ' | b'\n' | b'\t' | b'\r') { pos += 1 } *)
Fixpoint span_ws (s : str) : str * str :=
  match s with
  | c :: s' => if is_json_ws c then let (w, r) := span_ws s' in (c :: w, r) else ([], s)
  | [] => ([], [])
  end.

(* the value scan: a backslash skips two bytes, a double quote ends; Some (value, rest from the closing quote) *)
Fixpoint scan_value (s : str) : option (str * str) :=
  match s with
  | [] => None
  | c :: s' =>
      if c =? c_bsl then
        match s' with
        | [] => None
        | d :: s'' =>
            match scan_value s'' with
            | Some (v, r) => Some (c :: d :: v, r)
            | None => None
            end
        end
      else if c =? c_dq then Some ([], s)
      else match scan_value s' with
           | Some (v, r) => Some (c :: v, r)
           | None => None
           end
  end.

(* the scan from the first marker occurrence in `s` (s = the whole note in the historical shape,
   the metadata section in the repaired shape) *)
Definition remap_in (s t : str) : option str :=
  match find_split marker s with
  | None => None
  | Some (pre, r0) =>
      let (w1, r1) := span_ws r0 in
      match r1 with
      | c :: r2 =>
          if c =? c_colon then
            let (w2, r3) := span_ws r2 in
            match r3 with
            | q :: r4 =>
                if q =? c_dq then
                  match scan_value r4 with
                  | Some (_, r5) =>
                      Some (pre ++ marker ++ w1 ++ c_colon :: w2 ++ c_dq :: t ++ r5)
                  | None => None
                  end
                else None
            | [] => None
            end
          else None
      | [] => None
      end
  end.

(* three dashes and LF; LF, three dashes and LF *)
Definition div_line : str := [45; 45; 45; 10].
Definition nl_div_line : str := 10 :: div_line.

(* let metadata_start = if note_content.starts_with(div_line) { 4 } else { find(nl_div_line)? + 5 } *)
Definition meta_split (s : str) : option (str * str) :=
  if starts_with div_line s then Some (div_line, skipn (length div_line) s)
  else match find_split nl_div_line s with
       | Some (a, b) => Some (a ++ nl_div_line, b)
       | None => None
       end.

(* repaired shape: the marker is searched below the first divider line only *)
Definition try_remap_scoped (s t : str) : option str :=
  match meta_split s with
  | None => None
  | Some (att, md) => match remap_in md t with Some r => Some (att ++ r) | None => None end
  end.

(* try_remap_base_commit_sha_field as the source has it NOW (fact from the translator) *)
Definition try_remap (s t : str) : option str :=
  if remap_below_divider then try_remap_scoped s t else remap_in s t.

(* remap_note_content_for_target_commit; the fallback (deserialize, set base, serialize — the
   C17 codec plus serde) is a parameter: the theorems hold for every fallback *)
Definition remap_note (fallback : str -> str -> option str) (s t : str) : str :=
  match try_remap s t with
  | Some r => r
  | None => match fallback s t with Some r => r | None => s end
  end.

(* ---------- spec side: where the base field lives ---------- *)
Definition divider : str := [45; 45; 45].

(* first LF-terminated line equal to three dashes: Some (everything through that line, the rest) *)
Fixpoint split_div (fuel : nat) (s : str) : option (str * str) :=
  match fuel with
  | O => None
  | S f =>
      match split_first c_nl s with
      | None => None
      | Some (l, rest) =>
          if str_eqb l divider then Some (l ++ [c_nl], rest)
          else match split_div f rest with
               | Some (a, b) => Some (l ++ c_nl :: a, b)
               | None => None
               end
      end
  end.

Definition split_note (s : str) : option (str * str) := split_div (S (length s)) s.

(* the marker text does not begin anywhere inside `a` (in a ++ rest) *)
Fixpoint no_marker_start (a rest : str) : bool :=
  match a with
  | [] => true
  | _ :: a' => negb (starts_with marker (a ++ rest)) && no_marker_start a' rest
  end.

(* what the rewrite is meant to do: the same surgery confined to the JSON metadata *)
Definition replace_base (s t : str) : str :=
  match split_note s with
  | Some (att, md) => match remap_in md t with Some md' => att ++ md' | None => s end
  | None => s
  end.

Definition wf_note (s : str) : bool :=
  match split_note s with
  | Some (att, md) =>
      no_marker_start att md && match remap_in md [] with Some _ => true | None => false end
  | None => false
  end.

(* the metadata has the field (no condition on the attestation section) *)
Definition has_base_field (s : str) : bool :=
  match split_note s with
  | Some (_, md) => match remap_in md [] with Some _ => true | None => false end
  | None => false
  end.

(* body of a JSON string as the scan sees it: plain bytes, or a backslash and any byte *)
Fixpoint esc_body (v : str) : bool :=
  match v with
  | [] => true
  | c :: v' =>
      if c =? c_bsl then match v' with [] => false | _ :: v'' => esc_body v'' end
      else if c =? c_dq then false
      else esc_body v'
  end.

(* ------------------------------------------------------------------ (c) the shortcut's skeleton *)
(* None = decline (Ok(false), nothing written); Some ws = notes_add_batch ws *)
Definition lookup_notes (notes : str -> option str) (pairs : list (str * str))
  : option (list (str * str)) :=
  fold_right (fun p acc =>
                match notes (fst p), acc with
                | Some n, Some l => Some ((snd p, n) :: l)
                | _, _ => None
                end) (Some []) pairs.

Definition fast_path_core (fb : str -> str -> option str) (pairs : list (str * str))
           (tracked : list str) (out : str) (notes : str -> option str)
  : option (list (str * str)) :=
  match pairs with
  | [] => None
  | _ =>
      if negb (matches out (length pairs)) then None
      else match lookup_notes notes pairs with
           | None => None                      (* some original has no note *)
           | Some l => Some (map (fun e => (fst e, remap_note fb (snd e) (fst e))) l)
           end
  end.

Definition fast_path_cherry (fb : str -> str -> option str) (pairs : list (str * str))
           (tracked : list str) (out : str) (notes : str -> option str) :=
  match pairs, tracked with
  | [], _ => None
  | _, [] => None
  | _, _ => fast_path_core fb pairs tracked out notes
  end.

Definition fast_path_rebase (fb : str -> str -> option str) (orig new : list str)
           (to_process : str -> bool) (n_to_process : nat)
           (tracked : list str) (out : str) (notes : str -> option str) :=
  if negb (Nat.eqb (length orig) (length new)) then None
  else match tracked with
       | [] => None
       | _ =>
           match n_to_process with
           | O => None
           | _ => fast_path_core fb (filter (fun p => to_process (snd p)) (combine orig new))
                                 tracked out notes
           end
       end.

(* ------------------------------------------------------------------ (d) commit-object header scan *)
(* load_commit_metadata_batch, the per-object part: which tree and first parent the comparator is
   handed.  `content` is the commit object as text (code points): header lines, an empty line, the
   message.  Keywords and the early exit are read from the source (Gen/GenRemap.v). *)

(* str::strip_prefix *)
Fixpoint strip_prefix (p s : str) : option str :=
  match p, s with
  | [], _ => Some s
  | x :: p', y :: s' => if x =? y then strip_prefix p' s' else None
  | _ :: _, [] => None
  end.

Fixpoint trim_start (s : str) : str :=
  match s with
  | c :: s' => if is_ws c then trim_start s' else s
  | [] => []
  end.

Definition trim (s : str) : str := trim_start (trim_end s).

Definition is_some {A} (o : option A) : bool := match o with Some _ => true | None => false end.

(* one iteration of `for line in content.lines()` on the state (tree_oid, first_parent) *)
Definition meta_step (l : str) (st : str * option str) : str * option str :=
  let (tree, parent) := st in
  match strip_prefix meta_kw_tree l with
  | Some rest => (trim rest, parent)
  | None =>
      match parent with
      | Some _ => (tree, parent)
      | None =>
          match strip_prefix meta_kw_parent l with
          | Some rest => (tree, Some (trim rest))
          | None => (tree, parent)
          end
      end
  end.

Fixpoint scan_meta (early : bool) (ls : list str) (st : str * option str) : str * option str :=
  match ls with
  | [] => st
  | l :: ls' =>
      let st' := meta_step l st in
      if early && nonempty (fst st') && is_some (snd st') then st'      (* break *)
      else scan_meta early ls' st'
  end.

Definition commit_meta_gen (early : bool) (content : str) : str * option str :=
  scan_meta early (lines content) ([], None).

(* the scan the source has now *)
Definition commit_meta (content : str) : str * option str := commit_meta_gen meta_early_exit content.

(* spec: a commit object's headers end at the first empty line; the tree is the first `tree` header,
   the first parent the first `parent` header; the message is never looked at *)
Fixpoint header_lines (ls : list str) : list str :=
  match ls with
  | [] => []
  | l :: ls' => if nonempty l then l :: header_lines ls' else []
  end.

Fixpoint first_with (kw : str) (ls : list str) : option str :=
  match ls with
  | [] => None
  | l :: ls' => match strip_prefix kw l with Some rest => Some (trim rest) | None => first_with kw ls' end
  end.

Definition header_meta (content : str) : str * option str :=
  let h := header_lines (lines content) in
  (match first_with meta_kw_tree h with Some t => t | None => [] end, first_with meta_kw_parent h).

Definition oid_ok (s : str) : bool := nonempty s && forallb is_hex s.

(* ------------------------------------------------------------------ (e) the replay's write-or-fall-back decision *)
(* Step 3 of rewrite_authorship_after_rebase_v2 / rewrite_authorship_after_cherry_pick, per rewritten
   commit, AFTER the shortcut declined: the recomputed note (has attestations? has prompt records? its
   serialisation) is written when it `has payload`; otherwise a remapped copy of the original commit's
   note, when there is one.  Whether prompt records count as payload is read from the source. *)
Definition has_payload (count_prompts : bool) (has_atts has_prompts : bool) : bool :=
  has_atts || (count_prompts && has_prompts).

(* rebase: None = nothing is written for this commit *)
Definition replay_write_rebase_gen (count_prompts : bool) (fb : str -> str -> option str)
           (has_atts has_prompts : bool) (recomputed : str) (orig : option str) (new_commit : str)
  : option str :=
  if has_payload count_prompts has_atts has_prompts then Some recomputed
  else match orig with
       | Some raw => Some (remap_note fb raw new_commit)
       | None => None
       end.

(* cherry-pick: always writes; without an original the (empty) recomputed note is serialised *)
Definition replay_write_cherry_gen (count_prompts : bool) (fb : str -> str -> option str)
           (has_atts has_prompts : bool) (recomputed : str) (orig : option str) (new_commit : str)
  : option str :=
  if has_payload count_prompts has_atts has_prompts then Some recomputed
  else match orig with
       | Some raw => Some (remap_note fb raw new_commit)
       | None => Some recomputed
       end.

Definition replay_write_rebase := replay_write_rebase_gen replay_payload_counts_prompts_rebase.
Definition replay_write_cherry := replay_write_cherry_gen replay_payload_counts_prompts_cherry.
