(* Model/Sync.v -- definitions only (C10: authorship notes converge across clones and are never
   lost by sync).

   Source: /repo/src/git/sync_authorship.rs  (fetch_authorship_notes, push_authorship_notes),
           /repo/src/git/refs.rs             (merge_notes_from_ref, copy_ref, ref_exists, notes_add),
           /repo/src/commands/hooks/{push_hooks,fetch_hooks,clone_hooks}.rs (who calls them).

   What the code does, in order (every git call is a separate process, hence a separate
   atomic transition here, so that another clone's steps can fall in between):

     fetch_authorship_notes (git fetch / git pull / git clone through the proxy; background
     thread joined in the post hook):
        1 git ls-remote <remote> refs/notes/ai     empty -> return NotFound (nothing else happens)
        2 git fetch <remote> +refs/notes/ai:refs/notes/ai-remote/<remote>   (FORCED update of the
          tracking ref)                                                       -> FetchTracking c
        3 if tracking ref exists: if refs/notes/ai exists
             git notes --ref=ai merge -s ours --quiet <tracking>   (errors swallowed)
          else git update-ref refs/notes/ai <tracking>             (errors swallowed)  -> MergeLocal c
          The test (git show-ref --verify refs/notes/ai) is its own process, hence its own
          transition TestLocal c; its result is a local variable of the syncing process
          (pending) and the merge-or-copy acts on THAT result: update-ref overwrites whatever
          refs/notes/ai is by then.  WHERE the test sits relative to the fetch and to the
          rendezvous points is read from the source by tools/gen/GenSync.py (Gen/GenSync.v).
     push_authorship_notes (git push through the proxy; background thread joined in the post hook):
        1 the same fetch as (2); on failure (no notes ref on the remote) skip (2'),
        2' the same merge-or-copy as (3),
        3 git push --quiet --no-verify <remote> refs/notes/ai:refs/notes/ai   NOT forced; any
          error (non-fast-forward rejection, no local ref) is logged in debug mode only and the
          user's push still exits 0                                            -> PushRef c
     post-commit: git notes --ref=ai add -f -F <file> <sha>                    -> Commit c k v

   Abstractions:
   * Object ids are positions in ONE global append-only store (a git object that two clones
     hold is the same object; transferring objects is implicit).  A notes commit is a node
     { parents; notes } where notes is the complete commit->note map of its tree.
   * Step 1 of fetch (ls-remote) and the failing fetch of push step 1 are not separate
     transitions: the remote tip is None exactly as long as nobody pushed, a tracking ref is only
     ever set from a Some tip, hence  remote = None -> tracking = None  is an invariant
     (Proofs/SyncProofs.v, trk_inv_run) and MergeLocal with tracking = None does nothing.
   * git notes merge: result = local when the other tip is an ancestor-or-equal, fast-forward
     when local is an ancestor, else a three-way merge per key against the merge base with
     strategy ours (notes-merge.c: a key changed on one side only takes that side, the same
     change on both sides is taken, everything else keeps the local side), committed with the
     parents [local; other].  When several best common ancestors exist git takes the first of
     get_merge_bases (newest commit date); here: the common ancestor with the greatest id.  The
     theorems do not depend on that choice (they hold for every common ancestor).
   * git's ancestor test is executable with fuel = size of the store; running out of fuel is the
     explicit outcome OutOfFuel, recorded in the state (fuel_out) and proved unreachable.
   * A non-forced push succeeds iff the remote tip is an ancestor-or-equal of the pushed tip
     (remote.c set_ref_status_for_push: REJECT_NONFASTFORWARD / REJECT_FETCH_FIRST otherwise). *)
From Coq Require Import List NArith Bool Arith.
From Verif Require Import Base.Str Gen.GenSync.
Import ListNotations.

Definition nid := nat.          (* position in the store *)
Definition commit := N.         (* an annotated commit (the key of a note) *)
Definition note := N.           (* a note blob *)
Definition nmap := list (commit * note).

(* ------------------------------------------------------------------ note maps *)
Fixpoint lookup (k : commit) (m : nmap) : option note :=
  match m with
  | [] => None
  | (k', v) :: r => if N.eqb k' k then Some v else lookup k r
  end.

Definition has_key (k : commit) (m : nmap) : bool :=
  match lookup k m with Some _ => true | None => false end.

Definition remove_key (k : commit) (m : nmap) : nmap :=
  filter (fun e => negb (N.eqb (fst e) k)) m.

(* git notes add -f *)
Definition upsert (k : commit) (v : note) (m : nmap) : nmap := (k, v) :: remove_key k m.

Definition keys (m : nmap) : list commit := map fst m.

Fixpoint mem (k : commit) (l : list commit) : bool :=
  match l with [] => false | x :: r => N.eqb x k || mem k r end.

Fixpoint dedup (l : list commit) : list commit :=
  match l with [] => [] | x :: r => if mem x r then dedup r else x :: dedup r end.

Definition onote_eqb (a b : option note) : bool :=
  match a, b with
  | Some x, Some y => N.eqb x y
  | None, None => true
  | _, _ => false
  end.

(* one key of the three-way merge with -s ours: b = base, o = ours (local), t = theirs *)
Definition pick (b o t : option note) : option note :=
  if onote_eqb o t then o            (* same on both sides *)
  else if onote_eqb t b then o       (* only ours changed *)
  else if onote_eqb o b then t       (* only theirs changed *)
  else o.                            (* conflict: ours *)

Definition mk_map (ks : list commit) (f : commit -> option note) : nmap :=
  flat_map (fun k => match f k with Some v => [(k, v)] | None => [] end) ks.

Definition merge_map (b o t : nmap) : nmap :=
  mk_map (dedup (keys o ++ keys t)) (fun k => pick (lookup k b) (lookup k o) (lookup k t)).

(* ------------------------------------------------------------------ the DAG of notes commits *)
Record node := mkNode { parents : list nid; notes : nmap }.
Definition store := list node.   (* association nid -> node by position; append-only *)

Definition map_at (st : store) (i : nid) : nmap :=
  match nth_error st i with Some n => notes n | None => [] end.
Definition map_of (st : store) (o : option nid) : nmap :=
  match o with Some i => map_at st i | None => [] end.

Inductive tri := Yes | No | OutOfFuel.

Definition tri_or (a b : tri) : tri :=
  match a, b with
  | Yes, _ => Yes
  | _, Yes => Yes
  | OutOfFuel, _ => OutOfFuel
  | _, OutOfFuel => OutOfFuel
  | No, No => No
  end.

(* is a an ancestor-or-equal of b *)
Fixpoint anc (fuel : nat) (st : store) (a b : nid) : tri :=
  if Nat.eqb a b then Yes else
  match fuel with
  | O => OutOfFuel
  | S f =>
      match nth_error st b with
      | None => No
      | Some n => fold_right (fun p acc => tri_or (anc f st a p) acc) No (parents n)
      end
  end.

Inductive bres := BSome (b : nid) | BNone | BFuel.

(* the common ancestor of a and b with the greatest id below i *)
Fixpoint mb_scan (st : store) (fuel : nat) (a b : nid) (i : nat) : bres :=
  match i with
  | O => BNone
  | S j =>
      match anc fuel st j a, anc fuel st j b with
      | Yes, Yes => BSome j
      | OutOfFuel, _ => BFuel
      | _, OutOfFuel => BFuel
      | _, _ => mb_scan st fuel a b j
      end
  end.

Definition merge_base (st : store) (a b : nid) : bres :=
  mb_scan st (length st) a b (S (Nat.min a b)).

Inductive mres := MKeep | MFF | MNode (nd : node) | MFuel.

(* git notes --ref=ai merge -s ours <t>   with refs/notes/ai = l *)
Definition merge_local (st : store) (l t : nid) : mres :=
  match anc (length st) st t l with
  | Yes => MKeep                                   (* already up to date *)
  | OutOfFuel => MFuel
  | No =>
      match anc (length st) st l t with
      | Yes => MFF                                 (* fast-forward *)
      | OutOfFuel => MFuel
      | No =>
          match merge_base st l t with
          | BFuel => MFuel
          | BNone => MNode (mkNode [l; t] (merge_map [] (map_at st l) (map_at st t)))
          | BSome b => MNode (mkNode [l; t] (merge_map (map_at st b) (map_at st l) (map_at st t)))
          end
      end
  end.

(* ------------------------------------------------------------------ clones, remote, steps *)
(* pending: the result of the latest existence test of refs/notes/ai by a sync process of this
   clone that has not yet done its merge-or-copy (None: no sync process between test and merge) *)
Record clone := mkClone { local : option nid; tracking : option nid; pending : option bool }.
Record state := mkState {
  store_of : store;
  clones : list clone;
  remote : option nid;
  fuel_out : bool;         (* an ancestor test ran out of fuel (proved unreachable) *)
  rej : list nat           (* the clones whose latest notes push was rejected: the retry loop of
                              push_authorship_notes goes round again exactly for these *)
}.

Definition init (n : nat) : state := mkState [] (repeat (mkClone None None None) n) None false [].

Fixpoint set_nth {A} (l : list A) (i : nat) (x : A) : list A :=
  match l, i with
  | [], _ => []
  | _ :: r, O => x :: r
  | y :: r, S j => y :: set_nth r j x
  end.

Definition set_clone (s : state) (c : nat) (cl : clone) : state :=
  mkState (store_of s) (set_nth (clones s) c cl) (remote s) (fuel_out s) (rej s).
Definition add_node (s : state) (nd : node) : state :=
  mkState (store_of s ++ [nd]) (clones s) (remote s) (fuel_out s) (rej s).
Definition set_remote (s : state) (r : option nid) : state :=
  mkState (store_of s) (clones s) r (fuel_out s) (rej s).
Definition set_fuel_out (s : state) : state :=
  mkState (store_of s) (clones s) (remote s) true (rej s).
Definition flag_of (s : state) (c : nat) : bool := existsb (Nat.eqb c) (rej s).
Definition set_flag (s : state) (c : nat) (b : bool) : state :=
  mkState (store_of s) (clones s) (remote s) (fuel_out s)
          (if b then c :: rej s else filter (fun x => negb (Nat.eqb c x)) (rej s)).
(* a sub-step of a retry (r = true) happens only while the clone's latest push stands rejected *)
Definition skip (s : state) (r : bool) (c : nat) : bool := r && negb (flag_of s c).

Inductive step :=
| Commit (c : nat) (k : commit) (v : note)   (* clone c writes note v for commit k *)
  (* r = false: first attempt (always runs); r = true: a step of a retry, see skip *)
| FetchTracking (r : bool) (c : nat)         (* tracking := remote tip (forced) *)
| TestLocal (r : bool) (c : nat)             (* pending := does refs/notes/ai exist *)
| MergeLocal (r : bool) (c : nat)            (* notes merge -s ours / copy, by the pending test *)
| PushRef (r : bool) (c : nat).              (* non-forced push of refs/notes/ai; records rejection *)

(* the sub-steps of one user-level push / fetch in the order of the code, cut at the rendezvous
   points of the system-level check: part0 = before the pre-push fetch goes on the wire,
   part1 = up to the point after the fetch (notes-push-merge / notes-fetch-merge),
   part2 = up to the point before the push (notes-push), part3 = the push *)
Definition push_part0 (r : bool) (c : nat) : list step := if push_test_before_fetch then [TestLocal r c] else [].
Definition push_part1 (r : bool) (c : nat) : list step :=
  FetchTracking r c :: (if negb push_test_before_fetch && push_test_before_sync then [TestLocal r c] else []).
Definition push_part2 (r : bool) (c : nat) : list step :=
  (if push_test_before_sync then [] else [TestLocal r c]) ++ [MergeLocal r c].
Definition push_part3 (r : bool) (c : nat) : list step := [PushRef r c].
(* one round of push_authorship_notes_once *)
Definition attempt (r : bool) (c : nat) : list step :=
  push_part0 r c ++ push_part1 r c ++ push_part2 r c ++ push_part3 r c.
(* the rounds after the first: each runs only while the previous push stands rejected *)
Fixpoint retries (k : nat) (c : nat) : list step :=
  match k with O => [] | S j => attempt true c ++ retries j c end.
(* push_authorship_notes: NOTES_PUSH_ATTEMPTS rounds in total (Gen/GenSync.v) *)
Definition PushNotes (c : nat) : list step := attempt false c ++ retries (push_attempts - 1) c.

Definition fetch_part0 (c : nat) : list step := if fetch_test_before_fetch then [TestLocal false c] else [].
Definition fetch_part1 (c : nat) : list step :=
  FetchTracking false c :: (if negb fetch_test_before_fetch && fetch_test_before_sync then [TestLocal false c] else []).
Definition fetch_part2 (c : nat) : list step :=
  (if fetch_test_before_sync then [] else [TestLocal false c]) ++ [MergeLocal false c].
Definition FetchNotes (c : nat) : list step := fetch_part0 c ++ fetch_part1 c ++ fetch_part2 c.

(* git pull through the proxy: the notes fetch runs in a background thread next to git's own pull;
   pull_post_command_hook has three exits (pull failed / HEAD unchanged / HEAD moved).  An exit
   that does not join the thread lets the process end while the notes fetch is still running: its
   sub-steps then do not happen (the thread dies with the process).  Which exits join is read from
   the source (Gen/GenSync.v). *)
Inductive pull_exit := PullFailed | PullUnchanged | PullMoved.
Definition pull_joins (e : pull_exit) : bool :=
  match e with
  | PullFailed => pull_join_failed
  | PullUnchanged => pull_join_unchanged
  | PullMoved => pull_join_moved
  end.
Definition PullNotes (e : pull_exit) (c : nat) : list step := if pull_joins e then FetchNotes c else [].

(* one round with foreign steps in the two gaps between its processes (the existence test and
   the merge-or-copy are adjacent processes) *)
Definition spread (r : bool) (c : nat) (ma mb : list step) : list step :=
  [FetchTracking r c] ++ ma ++ [TestLocal r c; MergeLocal r c] ++ mb ++ [PushRef r c].
(* a whole user-level push with foreign steps everywhere: rounds (ma, mb, gap after the round) *)
Fixpoint spreads (first : bool) (c : nat) (ms : list (list step * list step * list step)) : list step :=
  match ms with
  | [] => []
  | (ma, mb, g) :: rest => spread (negb first) c ma mb ++ g ++ spreads false c rest
  end.

(* a commit of the same clone while the sync's fetch is on the wire: after part0, before the fetch *)
Definition PushNotes_commit_on_wire (c : nat) (k : commit) (v : note) : list step :=
  push_part0 false c ++ [Commit c k v] ++ push_part1 false c ++ push_part2 false c ++ push_part3 false c
  ++ retries (push_attempts - 1) c.
Definition PushNotes_commit_after_fetch (c : nat) (k : commit) (v : note) : list step :=
  push_part0 false c ++ push_part1 false c ++ [Commit c k v] ++ push_part2 false c ++ push_part3 false c
  ++ retries (push_attempts - 1) c.
Definition FetchNotes_commit_on_wire (c : nat) (k : commit) (v : note) : list step :=
  fetch_part0 c ++ [Commit c k v] ++ fetch_part1 c ++ fetch_part2 c.
Definition FetchNotes_commit_after_fetch (c : nat) (k : commit) (v : note) : list step :=
  fetch_part0 c ++ fetch_part1 c ++ [Commit c k v] ++ fetch_part2 c.

Inductive pres := PNoClone | PNoLocal | PCreated | PUpdated | PRejected | PFuel.

(* what the non-forced push of clone c would do in state s *)
Definition push_outcome (s : state) (c : nat) : pres :=
  match nth_error (clones s) c with
  | None => PNoClone
  | Some cl =>
      match local cl with
      | None => PNoLocal                 (* src refspec does not match any: error, swallowed *)
      | Some l =>
          match remote s with
          | None => PCreated
          | Some r =>
              match anc (length (store_of s)) (store_of s) r l with
              | Yes => PUpdated          (* fast-forward or up to date *)
              | No => PRejected          (* non-fast-forward / fetch first: swallowed *)
              | OutOfFuel => PFuel
              end
          end
      end
  end.

Definition exec (s : state) (x : step) : state :=
  match x with
  | Commit c k v =>
      match nth_error (clones s) c with
      | None => s
      | Some cl =>
          let nd := mkNode (match local cl with Some l => [l] | None => [] end)
                           (upsert k v (map_of (store_of s) (local cl))) in
          set_clone (add_node s nd) c (mkClone (Some (length (store_of s))) (tracking cl) (pending cl))
      end
  | FetchTracking r c =>
      if skip s r c then s else
      match nth_error (clones s) c with
      | None => s
      | Some cl =>
          match remote s with
          | None => s
          | Some r => set_clone s c (mkClone (local cl) (Some r) (pending cl))
          end
      end
  | TestLocal r c =>
      if skip s r c then s else
      match nth_error (clones s) c with
      | None => s
      | Some cl =>
          set_clone s c (mkClone (local cl) (tracking cl)
                                 (Some (match local cl with Some _ => true | None => false end)))
      end
  | MergeLocal r c =>
      if skip s r c then s else
      match nth_error (clones s) c with
      | None => s
      | Some cl =>
          match pending cl with
          | None => s                      (* no test result: not a state of the code *)
          | Some saw =>
              match tracking cl with
              | None => set_clone s c (mkClone (local cl) None None)
              | Some t =>
                  match (if saw then local cl else None) with
                  | None => set_clone s c (mkClone (Some t) (Some t) None)
                      (* copy_ref = update-ref: OVERWRITES refs/notes/ai when the test saw none
                         (and notes merge without a local ref takes the other side) *)
                  | Some l =>
                      match merge_local (store_of s) l t with
                      | MKeep => set_clone s c (mkClone (Some l) (Some t) None)
                      | MFF => set_clone s c (mkClone (Some t) (Some t) None)
                      | MNode nd =>
                          set_clone (add_node s nd) c (mkClone (Some (length (store_of s))) (Some t) None)
                      | MFuel => set_fuel_out s
                      end
                  end
              end
          end
      end
  | PushRef r c =>
      if skip s r c then s else
      match push_outcome s c with
      | PCreated | PUpdated =>
          match nth_error (clones s) c with
          | Some cl => set_flag (set_remote s (local cl)) c false
          | None => s
          end
      | PFuel => set_fuel_out s
      | PRejected => set_flag s c true       (* [rejected]: the loop goes round again *)
      | PNoLocal => set_flag s c false       (* another error: returned, no retry *)
      | PNoClone => s
      end
  end.

Definition run (s : state) (sched : list step) : state := fold_left exec sched s.

(* ------------------------------------------------------------------ vocabulary of the statements *)
Definition local_of (s : state) (c : nat) : option nid :=
  match nth_error (clones s) c with Some cl => local cl | None => None end.
Definition tracking_of (s : state) (c : nat) : option nid :=
  match nth_error (clones s) c with Some cl => tracking cl | None => None end.

Definition pending_of (s : state) (c : nat) : option bool :=
  match nth_error (clones s) c with Some cl => pending cl | None => None end.

(* Known_C10_K2 complement, decided by running the model: no commit of clone c falls between an
   existence test of c that saw NO notes ref and the merge-or-copy acting on it *)
Definition guard (s : state) (x : step) : bool :=
  match x with
  | Commit c _ _ => match pending_of s c with Some false => false | _ => true end
  | _ => true
  end.
Fixpoint guarded (s : state) (q : list step) : bool :=
  match q with
  | [] => true
  | x :: r => guard s x && guarded (exec s x) r
  end.
Definition no_commit_in_copy_window (n : nat) (sched : list step) : bool := guarded (init n) sched.

Definition remote_map (s : state) : nmap := map_of (store_of s) (remote s).
Definition local_map (s : state) (c : nat) : nmap := map_of (store_of s) (local_of s c).
Definition tracking_map (s : state) (c : nat) : nmap := map_of (store_of s) (tracking_of s c).

(* every ref of the system: the remote tip, every clone's refs/notes/ai and tracking ref *)
Definition holders (s : state) : list (option nid) :=
  remote s :: map local (clones s) ++ map tracking (clones s).

(* clone c < n wrote note v FOR commit k somewhere in the schedule *)
Definition written (n : nat) (sched : list step) (k : commit) (v : note) : Prop :=
  exists c, (c < n)%nat /\ In (Commit c k v) sched.

Fixpoint commit_keys (sched : list step) : list commit :=
  match sched with
  | [] => []
  | Commit _ k _ :: r => k :: commit_keys r
  | _ :: r => commit_keys r
  end.

(* each commit's note is written by exactly one clone, once *)
Definition single_writer_per_key (sched : list step) : Prop := NoDup (commit_keys sched).

(* the union of all writes by clones < n, as a map *)
Fixpoint writes (n : nat) (sched : list step) : nmap :=
  match sched with
  | [] => []
  | Commit c k v :: r => if Nat.ltb c n then (k, v) :: writes n r else writes n r
  | _ :: r => writes n r
  end.

Definition is_commit (x : step) : bool := match x with Commit _ _ _ => true | _ => false end.
Definition no_commit (q : list step) : bool := forallb (fun x => negb (is_commit x)) q.

Definition is_push (x : step) : bool := match x with PushRef _ _ => true | _ => false end.
Definition no_push (q : list step) : bool := forallb (fun x => negb (is_push x)) q.
Definition is_push_of (c : nat) (x : step) : bool := match x with PushRef _ c' => Nat.eqb c' c | _ => false end.
Definition no_push_of (c : nat) (q : list step) : bool := forallb (fun x => negb (is_push_of c x)) q.
Fixpoint count_push (q : list step) : nat :=
  match q with [] => O | x :: r => (if is_push x then 1 else 0) + count_push r end.
(* the rounds of a spread-out user-level push INSIDE which some notes push (by anybody) falls *)
Fixpoint overlaps (ms : list (list step * list step * list step)) : nat :=
  match ms with
  | [] => O
  | (ma, mb, _) :: rest => (if no_push (ma ++ mb) then 0 else 1) + overlaps rest
  end.
Fixpoint foreign (c : nat) (ms : list (list step * list step * list step)) : bool :=
  match ms with
  | [] => true
  | (ma, mb, g) :: rest => no_push_of c (ma ++ mb ++ g) && foreign c rest
  end.

(* the block b occurs in q without interleaving *)
Definition has_block (b q : list step) : Prop := exists x y, q = x ++ b ++ y.

Definition same_map (m1 m2 : nmap) : Prop := forall k, lookup k m1 = lookup k m2.
Definition sub_keys (m1 m2 : nmap) : Prop := forall k, has_key k m1 = true -> has_key k m2 = true.

(* ------------------------------------------------------------------ witnesses *)
(* two clones; each commits; both fetch+merge before either pushes; then both push:
   the second push is rejected (non-fast-forward) and silently skipped. *)
Definition race2 : list step :=
  [Commit 0 10 100; Commit 1 11 101;
   FetchTracking false 0; TestLocal false 0; MergeLocal false 0;
   FetchTracking false 1; TestLocal false 1; MergeLocal false 1;
   PushRef false 0; PushRef false 1].

(* the same race at the level of user commands: the rounds that follow the first one *)
Definition race2_users : list step :=
  race2 ++ retries (push_attempts - 1) 0 ++ retries (push_attempts - 1) 1.

(* the retry budget is tight: clone 0 lands a notes push inside every round of clone 1's push *)
Definition busy (k : commit) : list step := [Commit 0 k (k + 100)] ++ PushNotes 0.
Definition exhausted : list step :=
  [Commit 1 11 101] ++
  spreads true 1 [(busy 10, [], []); (busy 12, [], []); (busy 13, [], [])].

(* three clones, a race between 1 and 2 after 0 has pushed *)
Definition race3 : list step :=
  [Commit 0 10 100] ++ PushNotes 0 ++
  [Commit 1 11 101; Commit 2 12 102;
   FetchTracking false 1; FetchTracking false 2; TestLocal false 1; TestLocal false 2;
   MergeLocal false 1; MergeLocal false 2; PushRef false 2; PushRef false 1].

(* ------------------------------------------------------------------ the known class *)
(* Known_C10: some clone's notes push (PushRef c) comes after another clone's notes push that
   itself came after c's latest pre-push fetch (FetchTracking c): the overlap of two pushes.
   window c seen q scans q after a FetchTracking c. *)
Fixpoint window (c : nat) (seen : bool) (q : list step) : bool :=
  match q with
  | [] => false
  | PushRef _ c' :: r => if Nat.eqb c' c then seen else window c true r
  | FetchTracking _ c' :: r => if Nat.eqb c' c then false else window c seen r
  | _ :: r => window c seen r
  end.

Fixpoint Known_C10 (q : list step) : bool :=
  match q with
  | [] => false
  | FetchTracking _ c :: r => window c false r || Known_C10 r
  | _ :: r => Known_C10 r
  end.

Definition rejected (o : option pres) : bool :=
  match o with Some PRejected => true | _ => false end.

(* K2: clone 1 has no notes ref, the remote has clone 0's notes; clone 1 commits between its
   existence test and the copy: update-ref overwrites the note just written *)
Definition window2 : list step :=
  [Commit 0 10 100] ++ PushNotes 0 ++
  [FetchTracking false 1; TestLocal false 1; Commit 1 11 101; MergeLocal false 1; PushRef false 1].

(* results in a canonical form for the driver: the distinct keys with their values *)
Definition canon (m : nmap) : nmap :=
  mk_map (dedup (keys m)) (fun k => lookup k m).

(* run with the per-step push outcome (None for steps other than PushRef) *)
Fixpoint run_trace (s : state) (sched : list step) : list (option pres) * state :=
  match sched with
  | [] => ([], s)
  | x :: r =>
      let o := match x with
               | PushRef r c => if skip s r c then None else Some (push_outcome s c)
               | _ => None end in
      let (os, s') := run_trace (exec s x) r in (o :: os, s')
  end.
