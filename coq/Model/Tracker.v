(* Model/Tracker.v -- definitions only (C16: the attribution tracker's bookkeeping).

   Source: /repo/src/authorship/attribution_tracker.rs
     attribute_unattributed_ranges                      -> fill
     build_diff_catalog (insertions only are read)      -> insertions
     transform_attributions                             -> transform  (eq_step / del_step / ins_step)
     find_attribution_for_insertion                     -> find_attr_ins
     ranges_intersect, data_is_whitespace               -> ranges_intersect, data_is_ws
     merge_attributions                                 -> merge  (sort2, dedup, coalesce)
     update_attributions (phases 4-5 on given facts)    -> update
     LineBoundaries::new / get_line_range               -> line_ranges, get_line
     floor_char_boundary / ceil_char_boundary           -> floor_cb, ceil_cb
     line_attributions_to_attributions                  -> to_chars
     attributions_to_line_attributions
       + find_dominant_author_for_line_candidates
       + merge_consecutive_line_attributions            -> to_lines

   Text model: a text is a list of bytes (list N, values < 256) that is valid UTF-8 (valid_utf8,
   the decoder `decode` follows std::str::from_utf8: no overlong forms, no surrogates, at most
   U+10FFFF).  Positions are byte offsets as in Rust.  str::is_char_boundary is byte-level in
   Rust too (index 0, index len, or a byte that is not 10xxxxxx): is_cb.
   char::is_whitespace is Str.is_ws on the decoded code points; `data_is_whitespace` is
   from_utf8 + chars().all(is_whitespace) on a non-empty slice: data_is_ws.

   What is an ORACLE here (environment facts, monitored by the harness, never modelled):
   compute_diffs (imara line diff + tokenizer + token diff) and detect_moves; they enter as
   `facts` = (segments, substantive new ranges, move mappings).  wf_diff / moves_ok / moves_fit
   are the contracts the theorems use.

   Abstractions, and why they are faithful:
   * usize / u128 are unbounded N.  Every sum the code forms is bounded by |old| + |new| under
     the contracts, so the debug-build overflow panic is unreachable; the length comparison of
     find_attribution_for_insertion uses saturating_sub, which is the truncated subtraction of N.
     `insertions[mapping.insertion_idx]` out of bounds is an explicit Panic.  Slicing a str off a
     char boundary / out of range is an explicit Panic (str_slice).
   * The HashMaps of transform_attributions are only read by key (and each value vector sorted),
     so they are functions of the mapping list: moves_for_del, ranges_for_ins.
   * old_attr_cursor / insertion_attr_cursor are performance devices over the sorted prior list
     and monotone positions; the model computes the filter / the cursor position from scratch
     (eq_step: all priors intersecting the range, in list order; split_cursor: the maximal prefix
     of priors ending at or before the position).  The correspondence run checks that the two agree.
   * The sweep in attributions_to_line_attributions (sorted_indices / active_indices) is the filter
     `overlaps line` over the priors stably sorted by (start, end).
   * Authors are code-point lists; String::cmp is bytewise on UTF-8, which is code-point order. *)
From Coq Require Import List NArith Bool.
From Verif Require Import Base.Str.
Import ListNotations.
Open Scope N_scope.

Record attr := mkAttr { a_start : N; a_end : N; a_author : list N; a_ts : N }.
Record lattr := mkLattr { l_start : N; l_end : N; l_author : list N; l_overrode : option (list N) }.

Inductive res (A : Type) := Ok (a : A) | Panic.
Arguments Ok {A} _. Arguments Panic {A}.

(* CheckpointKind::Human.to_str() *)
Definition human : list N := [104; 117; 109; 97; 110].
Definition is_human (a : list N) : bool := str_eqb a human.

Definition blen (s : list N) : N := N.of_nat (length s).

(* ------------------------------------------------------------------ UTF-8 *)
Definition is_cont (b : N) : bool := (128 <=? b) && (b <? 192).
Definition in_rng (lo hi b : N) : bool := (lo <=? b) && (b <=? hi).
Definition snd_ok3 (b0 b1 : N) : bool :=
  if b0 =? 224 then in_rng 160 191 b1 else if b0 =? 237 then in_rng 128 159 b1 else is_cont b1.
Definition snd_ok4 (b0 b1 : N) : bool :=
  if b0 =? 240 then in_rng 144 191 b1 else if b0 =? 244 then in_rng 128 143 b1 else is_cont b1.

Definition ocons (c : N) (o : option (list N)) : option (list N) :=
  match o with Some t => Some (c :: t) | None => None end.

(* std::str::from_utf8 followed by chars(): None = invalid *)
Fixpoint decode (s : list N) : option (list N) :=
  match s with
  | [] => Some []
  | b0 :: r0 =>
    if b0 <? 128 then ocons b0 (decode r0)
    else if in_rng 194 223 b0 then
      match r0 with
      | b1 :: r1 =>
          if is_cont b1 then ocons ((b0 - 192) * 64 + (b1 - 128)) (decode r1) else None
      | [] => None
      end
    else if in_rng 224 239 b0 then
      match r0 with
      | b1 :: b2 :: r2 =>
          if snd_ok3 b0 b1 && is_cont b2
          then ocons ((b0 - 224) * 4096 + (b1 - 128) * 64 + (b2 - 128)) (decode r2) else None
      | _ => None
      end
    else if in_rng 240 244 b0 then
      match r0 with
      | b1 :: b2 :: b3 :: r3 =>
          if snd_ok4 b0 b1 && is_cont b2 && is_cont b3
          then ocons ((b0 - 240) * 262144 + (b1 - 128) * 4096 + (b2 - 128) * 64 + (b3 - 128)) (decode r3)
          else None
      | _ => None
      end
    else None
  end.

Definition valid_utf8 (s : list N) : bool := match decode s with Some _ => true | None => false end.

(* i = len, or i < len and byte i is not a continuation byte; false beyond len *)
Fixpoint cb_at (s : list N) (i : nat) : bool :=
  match i with
  | O => match s with [] => true | b :: _ => negb (is_cont b) end
  | S j => match s with [] => false | _ :: r => cb_at r j end
  end.

(* str::is_char_boundary *)
Definition is_cb (s : list N) (i : N) : bool :=
  if i =? 0 then true else if blen s <? i then false else cb_at s (N.to_nat i).

Definition sub (s : list N) (a b : N) : list N :=
  firstn (N.to_nat (b - a)) (skipn (N.to_nat a) s).

(* &s[a..b]: None = the slice panic *)
Definition str_slice (s : list N) (a b : N) : option (list N) :=
  if (a <=? b) && (b <=? blen s) && is_cb s a && is_cb s b then Some (sub s a b) else None.

(* floor_char_boundary: i = idx.min(len); while i > 0 && !is_char_boundary(i) { i -= 1 } *)
Fixpoint floor_loop (s : list N) (n : nat) : N :=
  match n with
  | O => 0
  | S m => if is_cb s (N.of_nat n) then N.of_nat n else floor_loop s m
  end.
Definition floor_cb (s : list N) (idx : N) : N := floor_loop s (N.to_nat (N.min idx (blen s))).

(* ceil_char_boundary: i = idx.min(len); while i < len && !is_char_boundary(i) { i += 1 }
   fuel = len - i steps suffice *)
Fixpoint ceil_loop (s : list N) (i : N) (fuel : nat) : N :=
  match fuel with
  | O => i
  | S f => if (i <? blen s) && negb (is_cb s i) then ceil_loop s (i + 1) f else i
  end.
Definition ceil_cb (s : list N) (idx : N) : N :=
  let i := N.min idx (blen s) in ceil_loop s i (N.to_nat (blen s - i)).

Definition data_is_ws (d : list N) : bool :=
  match d with
  | [] => false
  | _ => match decode d with Some cs => forallb is_ws cs | None => false end
  end.

(* ------------------------------------------------------------------ attributions *)
(* Attribution::overlaps / intersection *)
Definition overlaps (a : attr) (s e : N) : bool := (a_start a <? e) && (s <? a_end a).
Definition inter (a : attr) (s e : N) : option (N * N) :=
  let os := N.max (a_start a) s in
  let oe := N.min (a_end a) e in
  if os <? oe then Some (os, oe) else None.

(* compare_attribution_order: by position only, (start, end) *)
Definition le2 (a b : attr) : bool :=
  (a_start a <? a_start b) || ((a_start a =? a_start b) && (a_end a <=? a_end b)).

(* stable insertion sort (slice::sort_by is stable) *)
Fixpoint insert_by {A} (le : A -> A -> bool) (x : A) (l : list A) : list A :=
  match l with
  | [] => [x]
  | y :: t => if le x y then x :: l else y :: insert_by le x t
  end.
Fixpoint sort_by {A} (le : A -> A -> bool) (l : list A) : list A :=
  match l with [] => [] | x :: t => insert_by le x (sort_by le t) end.

(* sort_by(compare_attribution_order): stable, so entries covering the same range keep their order *)
Definition sort2 (l : list attr) : list attr := sort_by le2 l.

Definition attr_eqb (a b : attr) : bool :=
  (a_start a =? a_start b) && (a_end a =? a_end b) && str_eqb (a_author a) (a_author b)
  && (a_ts a =? a_ts b).

(* Vec::dedup: of exact duplicates that sit next to each other the first is kept *)
Fixpoint dedup (l : list attr) : list attr :=
  match l with
  | [] => []
  | a :: t => match t with
              | [] => [a]
              | b :: _ => if attr_eqb a b then dedup t else a :: dedup t
              end
  end.

(* the coalescing loop of merge_attributions; `last` = merged.last_mut() *)
Fixpoint coalesce (last : attr) (l : list attr) : list attr :=
  match l with
  | [] => [last]
  | a :: t =>
      if str_eqb (a_author last) (a_author a) && (a_ts last =? a_ts a)
         && (a_start last <? a_end last) && (a_start a <? a_end a) && (a_start a <=? a_end last)
      then coalesce (mkAttr (a_start last) (N.max (a_end last) (a_end a)) (a_author last) (a_ts last)) t
      else last :: coalesce a t
  end.

Definition merge (l : list attr) : list attr :=
  match dedup (sort2 l) with [] => [] | a :: t => coalesce a t end.

(* ------------------------------------------------------------------ the diff facts *)
Inductive dop := DEq | DDel | DIns.
Definition seg := (dop * list N)%type.
Record mv := mkMv { m_del : N; m_ins : N; m_s0 : N; m_s1 : N; m_t0 : N; m_t1 : N }.
Record facts := mkFacts { f_segs : list seg; f_subst : list (N * N); f_moves : list mv }.

(* build_diff_catalog: (start, end) in the new text of every Insert segment *)
Fixpoint insertions (segs : list seg) (new_pos : N) : list (N * N) :=
  match segs with
  | [] => []
  | (op, d) :: t =>
      match op with
      | DEq => insertions t (new_pos + blen d)
      | DDel => insertions t new_pos
      | DIns => (new_pos, new_pos + blen d) :: insertions t (new_pos + blen d)
      end
  end.
(* (start, end) in the old text of every Delete segment *)
Fixpoint deletions (segs : list seg) (old_pos : N) : list (N * N) :=
  match segs with
  | [] => []
  | (op, d) :: t =>
      match op with
      | DEq => deletions t (old_pos + blen d)
      | DIns => deletions t old_pos
      | DDel => (old_pos, old_pos + blen d) :: deletions t (old_pos + blen d)
      end
  end.

(* ranges_intersect (the early `return false` makes it order dependent: kept as written) *)
Fixpoint ranges_intersect_go (rs : list (N * N)) (s e : N) : bool :=
  match rs with
  | [] => false
  | (rs0, re0) :: t =>
      if re0 <=? s then ranges_intersect_go t s e
      else if e <=? rs0 then false else true
  end.
Definition ranges_intersect (rs : list (N * N)) (s e : N) : bool :=
  if e <=? s then false else ranges_intersect_go rs s e.

(* deletion_to_move[d]: mappings of deletion d, first of each (source, target) pair, sorted by source start *)
Definition same_ranges (a b : mv) : bool :=
  (m_s0 a =? m_s0 b) && (m_s1 a =? m_s1 b) && (m_t0 a =? m_t0 b) && (m_t1 a =? m_t1 b).
Fixpoint dedup_moves (kept : list mv) (l : list mv) : list mv :=
  match l with
  | [] => []
  | m :: t => if existsb (same_ranges m) kept then dedup_moves kept t
              else m :: dedup_moves (kept ++ [m]) t
  end.
Definition moves_for_del (ms : list mv) (d : N) : list mv :=
  sort_by (fun a b => m_s0 a <=? m_s0 b) (dedup_moves [] (filter (fun m => m_del m =? d) ms)).
(* insertion_move_ranges[i]: all target ranges, in mapping order *)
Definition ranges_for_ins (ms : list mv) (i : N) : list (N * N) :=
  map (fun m => (m_t0 m, m_t1 m)) (filter (fun m => m_ins m =? i) ms).

(* ------------------------------------------------------------------ find_attribution_for_insertion *)
(* cursor_hint after the while loop: (attrs[cursor-1], attrs[cursor..]) *)
Fixpoint split_cursor (l : list attr) (p : N) (before : option attr) : option attr * list attr :=
  match l with
  | [] => (before, [])
  | a :: t => if a_end a <=? p then split_cursor t p (Some a) else (before, l)
  end.

Fixpoint best_overlap (l : list attr) (p : N) (best : option attr) : option attr :=
  match l with
  | [] => best
  | a :: t =>
      if p <? a_start a then best
      else
        let better : bool :=
          match best with
          | None => true
          | Some b =>
              (a_ts b <? a_ts a)
              || ((a_ts a =? a_ts b) && (a_end b - a_start b <? a_end a - a_start a))   (* saturating_sub *)
          end in
        best_overlap t p (if overlaps a p (p + 1) && better then Some a else best)
  end.

Definition find_attr_ins (l : list attr) (p : N) : option attr :=
  match l with
  | [] => None
  | _ =>
    let (before, rest) := split_cursor l p None in
    match best_overlap rest p None with
    | Some b => Some b
    | None =>
        match before with
        | Some b => Some b
        | None => find (fun a => p <=? a_start a) rest
        end
    end
  end.

(* ------------------------------------------------------------------ transform_attributions *)
Fixpoint last_opt {A} (l : list A) (d : option A) : option A :=
  match l with [] => d | x :: t => last_opt t (Some x) end.

(* Equal branch: every prior intersecting [old_pos, old_pos+len) shifted to new_pos (a zero-length
   prior never intersects anything, so deletion markers are dropped here: known class C16-K3) *)
Definition eq_step (attrs : list attr) (old_pos new_pos len : N) : list attr :=
  flat_map (fun a => match inter a old_pos (old_pos + len) with
                     | Some (os, oe) =>
                         [mkAttr (new_pos + (os - old_pos)) (new_pos + (os - old_pos) + (oe - os))
                                 (a_author a) (a_ts a)]
                     | None => []
                     end) attrs.

(* Delete branch, one mapping *)
Definition move_step (attrs : list attr) (ins : list (N * N)) (old_pos : N) (m : mv) : res (list attr) :=
  match nth_error ins (N.to_nat (m_ins m)) with
  | None => Panic                                   (* insertions[mapping.insertion_idx] *)
  | Some (istart, _) =>
      let ss := old_pos + m_s0 m in
      let se := old_pos + m_s1 m in
      if ss <? se then
        let ts0 := istart + m_t0 m in
        let te := istart + m_t1 m in
        Ok (flat_map (fun a => match inter a ss se with
                               | Some (os, oe) =>
                                   let ns := N.min (ts0 + (os - ss)) te in     (* clamped to the target range *)
                                   let ne := N.min (ns + (oe - os)) te in
                                   if ns <? ne then [mkAttr ns ne (a_author a) (a_ts a)] else []
                               | None => []
                               end) attrs)
      else Ok []
  end.

Fixpoint move_steps (attrs : list attr) (ins : list (N * N)) (old_pos : N) (ms : list mv) : res (list attr) :=
  match ms with
  | [] => Ok []
  | m :: t => match move_step attrs ins old_pos m with
              | Panic => Panic
              | Ok a => match move_steps attrs ins old_pos t with
                        | Panic => Panic
                        | Ok b => Ok (a ++ b)
                        end
              end
  end.

Definition has_moves_del (ms : list mv) (d : N) : bool := existsb (fun m => m_del m =? d) ms.

Definition del_step (attrs : list attr) (ins : list (N * N)) (ms : list mv) (author : list N) (ts : N)
           (old_pos new_pos del_idx : N) (data : list N) : res (list attr) :=
  if has_moves_del ms del_idx then move_steps attrs ins old_pos (moves_for_del ms del_idx)
  else if negb (data_is_ws data) then Ok [mkAttr new_pos new_pos author ts]   (* zero-length marker *)
  else Ok [].

(* Insert branch with move ranges: merge the sorted target ranges ... *)
Fixpoint merge_sorted_ranges (cur : option (N * N)) (l : list (N * N)) : list (N * N) :=
  match l with
  | [] => match cur with Some c => [c] | None => [] end
  | (s, e) :: t =>
      if e <=? s then merge_sorted_ranges cur t
      else match cur with
           | None => merge_sorted_ranges (Some (s, e)) t
           | Some (cs, ce) =>
               if s <=? ce then merge_sorted_ranges (Some (cs, N.max ce e)) t
               else (cs, ce) :: merge_sorted_ranges (Some (s, e)) t
           end
  end.
(* ... and give the gaps to the current author *)
Fixpoint gaps (author : list N) (ts : N) (new_pos len cursor : N) (l : list (N * N)) : list attr :=
  match l with
  | [] => if cursor <? len then [mkAttr (new_pos + cursor) (new_pos + len) author ts] else []
  | (s, e) :: t =>
      let cs := N.min s len in
      let ce := N.min e len in
      (if cursor <? cs then [mkAttr (new_pos + cursor) (new_pos + cs) author ts] else [])
      ++ gaps author ts new_pos len (N.max cursor ce) t
  end.
Definition merged_targets (rs : list (N * N)) : list (N * N) :=
  merge_sorted_ranges None (sort_by (fun a b => fst a <=? fst b) rs).

Definition opt_or {A} (a b : option A) : option A := match a with Some _ => a | None => b end.

Definition ins_step (attrs : list attr) (ms : list mv) (subst : list (N * N)) (author : list N) (ts : N)
           (old_pos new_pos ins_idx : N) (prev_ws_del : bool) (last : option attr) (data : list N)
  : list attr :=
  let len := blen data in
  match ranges_for_ins ms ins_idx with
  | (_ :: _) as rs => gaps author ts new_pos len 0 (merged_targets rs)
  | [] =>
    let cur := mkAttr new_pos (new_pos + len) author ts in
    let with_author (o : option attr) :=
      match o with
      | Some a => mkAttr new_pos (new_pos + len) (a_author a) (a_ts a)
      | None => cur
      end in
    if mem 10 data then [cur]                                  (* contains_newline *)
    else if ranges_intersect subst new_pos (new_pos + len) then [cur]   (* substantive *)
    else if prev_ws_del && data_is_ws data then                   (* formatting pair *)
      [with_author (opt_or (find_attr_ins attrs old_pos) last)]
    else match last with
         | Some a => [with_author (Some a)]
         | None => [with_author (find_attr_ins attrs old_pos)]
         end
  end.

(* the main loop; `last` = new_attributions.last() *)
Fixpoint transform_go (segs : list seg) (attrs : list attr) (ins : list (N * N)) (ms : list mv)
         (subst : list (N * N)) (author : list N) (ts : N)
         (old_pos new_pos del_idx ins_idx : N) (prev_ws_del : bool) (last : option attr)
  : res (list attr) :=
  match segs with
  | [] => Ok []
  | (op, d) :: t =>
      let len := blen d in
      match op with
      | DEq =>
          let outs := eq_step attrs old_pos new_pos len in
          match transform_go t attrs ins ms subst author ts (old_pos + len) (new_pos + len)
                             del_idx ins_idx false (last_opt outs last) with
          | Panic => Panic
          | Ok r => Ok (outs ++ r)
          end
      | DDel =>
          match del_step attrs ins ms author ts old_pos new_pos del_idx d with
          | Panic => Panic
          | Ok outs =>
              match transform_go t attrs ins ms subst author ts (old_pos + len) new_pos
                                 (del_idx + 1) ins_idx (data_is_ws d) (last_opt outs last) with
              | Panic => Panic
              | Ok r => Ok (outs ++ r)
              end
          end
      | DIns =>
          let outs := ins_step attrs ms subst author ts old_pos new_pos ins_idx prev_ws_del last d in
          match transform_go t attrs ins ms subst author ts old_pos (new_pos + len)
                             del_idx (ins_idx + 1) false (last_opt outs last) with
          | Panic => Panic
          | Ok r => Ok (outs ++ r)
          end
      end
  end.

Definition transform (f : facts) (attrs : list attr) (author : list N) (ts : N) : res (list attr) :=
  transform_go (f_segs f) attrs (insertions (f_segs f) 0) (f_moves f) (f_subst f) author ts
               0 0 0 0 false None.

(* update_attributions, phases 4 and 5, on the facts of phases 1-3 *)
Definition update (attrs : list attr) (author : list N) (ts : N) (f : facts) : res (list attr) :=
  match transform f (sort2 attrs) author ts with
  | Panic => Panic
  | Ok l => Ok (merge l)
  end.

(* ------------------------------------------------------------------ the contract of the facts *)
Definition cat_old (segs : list seg) : list N :=
  flat_map (fun s => match fst s with DIns => [] | _ => snd s end) segs.
Definition cat_new (segs : list seg) : list N :=
  flat_map (fun s => match fst s with DDel => [] | _ => snd s end) segs.

Fixpoint list_eqb (a b : list N) : bool :=
  match a, b with
  | [], [] => true
  | x :: a', y :: b' => (x =? y) && list_eqb a' b'
  | _, _ => false
  end.

(* every segment starts (and the last one ends) on a char boundary of its text *)
Fixpoint seg_bounds_ok (old new : list N) (segs : list seg) (op np : N) : bool :=
  match segs with
  | [] => true
  | (o, d) :: t =>
      match o with
      | DEq => is_cb old op && is_cb new np && seg_bounds_ok old new t (op + blen d) (np + blen d)
      | DDel => is_cb old op && seg_bounds_ok old new t (op + blen d) np
      | DIns => is_cb new np && seg_bounds_ok old new t op (np + blen d)
      end
  end.

Definition wf_diff (old new : list N) (f : facts) : bool :=
  list_eqb (cat_old (f_segs f)) old && list_eqb (cat_new (f_segs f)) new
  && seg_bounds_ok old new (f_segs f) 0 0
  && forallb (fun r => (fst r <=? snd r) && (snd r <=? blen new)) (f_subst f).

Definition range_len (o : option (N * N)) : option N :=
  match o with Some (s, e) => Some (e - s) | None => None end.

(* every mapping names an existing deletion and insertion and its ranges lie inside them *)
Definition moves_ok (f : facts) : bool :=
  let dels := deletions (f_segs f) 0 in
  let inss := insertions (f_segs f) 0 in
  forallb (fun m =>
    match range_len (nth_error dels (N.to_nat (m_del m))), range_len (nth_error inss (N.to_nat (m_ins m))) with
    | Some dl, Some il => (m_s0 m <=? m_s1 m) && (m_s1 m <=? dl) && (m_t0 m <=? m_t1 m) && (m_t1 m <=? il)
    | _, _ => false
    end) (f_moves f).

(* every mapping names an existing insertion and its target range ends inside it (what boundedness
   and totality need: mapped ranges are clamped to the target range) *)
Definition moves_fit (f : facts) : bool :=
  let inss := insertions (f_segs f) 0 in
  forallb (fun m =>
    match range_len (nth_error inss (N.to_nat (m_ins m))) with
    | Some il => m_t1 m <=? il
    | None => false
    end) (f_moves f).

(* source and target of every mapping have the same length *)
Definition moves_same_len (f : facts) : bool :=
  forallb (fun m => m_s1 m - m_s0 m =? m_t1 m - m_t0 m) (f_moves f).

Definition attr_ordered (a : attr) : bool := a_start a <=? a_end a.

(* ------------------------------------------------------------------ attribute_unattributed_ranges *)
(* char_indices with len_utf8: (idx, end) of every char; a char is a non-continuation byte
   followed by its continuation bytes *)
Fixpoint char_spans (s : list N) (pos : N) (cur : option N) : list (N * N) :=
  match s with
  | [] => match cur with Some c => [(c, pos)] | None => [] end
  | b :: r =>
      if is_cont b then char_spans r (pos + 1) cur
      else (match cur with Some c => [(c, pos)] | None => [] end) ++ char_spans r (pos + 1) (Some pos)
  end.

Fixpoint fill_go (spans : list (N * N)) (attrs : list attr) (range_start : option N)
         (author : list N) (ts : N) (len : N) : list attr :=
  match spans with
  | [] => match range_start with
          | Some s => if s <? len then attrs ++ [mkAttr s len author ts] else attrs
          | None => attrs
          end
  | (idx, e) :: t =>
      if existsb (fun a => overlaps a idx e) attrs then
        match range_start with
        | Some s => fill_go t (if s <? idx then attrs ++ [mkAttr s idx author ts] else attrs) None author ts len
        | None => fill_go t attrs None author ts len
        end
      else fill_go t attrs (match range_start with Some s => Some s | None => Some idx end) author ts len
  end.

Definition fill (content : list N) (attrs : list attr) (author : list N) (ts : N) : list attr :=
  fill_go (char_spans content 0 None) attrs None author ts (blen content).

(* ------------------------------------------------------------------ lines *)
(* LineBoundaries::new: (start, end) with the newline included; a last line without newline is kept *)
Fixpoint line_ranges (s : list N) (start pos : N) : list (N * N) :=
  match s with
  | [] => if start <? pos then [(start, pos)] else []
  | b :: r => if b =? 10 then (start, pos + 1) :: line_ranges r (pos + 1) (pos + 1)
              else line_ranges r start (pos + 1)
  end.
Definition lines_of (c : list N) : list (N * N) := line_ranges c 0 0.
Definition line_count (c : list N) : N := N.of_nat (length (lines_of c)).

Definition get_line (lr : list (N * N)) (n : N) : option (N * N) :=
  if (n <? 1) || (N.of_nat (length lr) <? n) then None else nth_error lr (N.to_nat (n - 1)).

(* line_attributions_to_attributions *)
Definition to_chars (la : list lattr) (c : list N) (ts : N) : list attr :=
  match la, c with
  | [], _ => []
  | _, [] => []
  | _, _ =>
    let lr := lines_of c in
    flat_map (fun l => match get_line lr (l_start l), get_line lr (l_end l) with
                       | Some (s, _), Some (_, e) => [mkAttr s e (l_author l) ts]
                       | _, _ => []
                       end) la
  end.

(* sort_by_key(|idx| (start, end, idx)) = stable sort by (start, end) = sort_by le2 *)

(* has_non_whitespace of find_dominant_author_for_line_candidates *)
Definition has_nonws (c : list N) (ls le : N) (a : attr) : res bool :=
  let ss := N.max ls (a_start a) in
  let se := N.min le (a_end a) in
  if ss <? se then
    let safe_s := if is_cb c ss then ss else N.max (floor_cb c ss) ls in
    let safe_e := if is_cb c se then se else N.min (ceil_cb c se) le in
    if safe_s <? safe_e then
      match str_slice c safe_s safe_e with
      | None => Panic
      | Some sl => match decode sl with
                   | None => Panic       (* a str slice is always valid UTF-8 *)
                   | Some cs => Ok (existsb (fun ch => negb (is_ws ch)) cs)
                   end
      end
    else Ok false
  else Ok false.

Fixpoint candidates (c : list N) (ls le : N) (empty : bool) (l : list attr) : res (list attr) :=
  match l with
  | [] => Ok []
  | a :: t =>
      if overlaps a ls le then
        match has_nonws c ls le a with
        | Panic => Panic
        | Ok h =>
            match candidates c ls le empty t with
            | Panic => Panic
            | Ok r => if h || empty || (a_start a =? a_end a) then Ok (a :: r) else Ok r
            end
        end
      else candidates c ls le empty t
  end.

Fixpoint latest (best : attr) (l : list attr) : attr :=
  match l with [] => best | a :: t => latest (if a_ts best <? a_ts a then a else best) t end.
Definition last_such (f : attr -> bool) (l : list attr) : option attr :=
  fold_left (fun acc a => if f a then Some a else acc) l None.

Definition authorship := (list N * option (list N))%type.

Definition dominant (cands : list attr) : authorship :=
  match cands with
  | [] => (human, None)
  | a0 :: t =>
      let la := latest a0 t in
      let ai := last_such (fun a => negb (is_human (a_author a))) cands in
      let hu := last_such (fun a => is_human (a_author a)) cands in
      (a_author la,
       match ai, hu with
       | Some x, Some h => if a_ts x <? a_ts h then Some (a_author x) else None
       | _, _ => None
       end)
  end.

Definition line_author (c : list N) (sorted : list attr) (r : N * N) : res authorship :=
  match str_slice c (fst r) (snd r) with            (* &content[line_start..line_end] *)
  | None => Panic
  | Some sl =>
      match decode sl with
      | None => Panic
      | Some cs =>
          match candidates c (fst r) (snd r) (forallb is_ws cs) sorted with
          | Panic => Panic
          | Ok cands => Ok (dominant cands)
          end
      end
  end.

Fixpoint map_res {A B} (f : A -> res B) (l : list A) : res (list B) :=
  match l with
  | [] => Ok []
  | x :: t => match f x with
              | Panic => Panic
              | Ok y => match map_res f t with Panic => Panic | Ok r => Ok (y :: r) end
              end
  end.

Definition opt_str_eqb (a b : option (list N)) : bool :=
  match a, b with
  | None, None => true
  | Some x, Some y => str_eqb x y
  | _, _ => false
  end.
Definition auth_eqb (a b : authorship) : bool := str_eqb (fst a) (fst b) && opt_str_eqb (snd a) (snd b).

(* merge_consecutive_line_attributions; n = number of the line at the head of l *)
Fixpoint merge_consec (cur : authorship) (start n : N) (l : list authorship) : list lattr :=
  match l with
  | [] => [mkLattr start (n - 1) (fst cur) (snd cur)]
  | x :: t => if auth_eqb cur x then merge_consec cur start (n + 1) t
              else mkLattr start (n - 1) (fst cur) (snd cur) :: merge_consec x n (n + 1) t
  end.
Definition merge_lines (l : list authorship) : list lattr :=
  match l with [] => [] | x :: t => merge_consec x 1 2 t end.

Definition keep_line (la : lattr) : bool :=
  negb (is_human (l_author la)) || match l_overrode la with Some _ => true | None => false end.

(* attributions_to_line_attributions *)
Definition to_lines (attrs : list attr) (c : list N) : res (list lattr) :=
  match c, attrs with
  | [], _ => Ok []
  | _, [] => Ok []
  | _, _ =>
      match map_res (line_author c (sort_by le2 attrs)) (lines_of c) with
      | Panic => Panic
      | Ok las => Ok (filter keep_line (merge_lines las))
      end
  end.

(* ------------------------------------------------------------------ vocabulary of the statements *)
(* byte p is covered by an attribution of (author, ts) *)
Definition covers (l : list attr) (p : N) (au : list N) (ts : N) : Prop :=
  exists a, In a l /\ a_author a = au /\ a_ts a = ts /\ a_start a <= p /\ p < a_end a.

(* number of Delete / Insert segments in a prefix of the script = deletion_idx / insertion_idx *)
Fixpoint ndel (segs : list seg) : N :=
  match segs with [] => 0 | (DDel, _) :: t => 1 + ndel t | _ :: t => ndel t end.
Fixpoint nins (segs : list seg) : N :=
  match segs with [] => 0 | (DIns, _) :: t => 1 + nins t | _ :: t => nins t end.

(* offset k of insertion number i lies in the target range of some move mapping *)
Definition in_target (ms : list mv) (i k : N) : bool :=
  existsb (fun r => (fst r <=? k) && (k <? snd r)) (ranges_for_ins ms i).
Definition has_targets (ms : list mv) (i : N) : bool :=
  match ranges_for_ins ms i with [] => false | _ :: _ => true end.

(* the (line, author) pairs of the AI lines of a line-attribution list *)
Fixpoint span (a : N) (n : nat) : list N :=
  match n with O => [] | S m => a :: span (a + 1) m end.
Definition lines_of_lattr (l : lattr) : list (N * list N) :=
  map (fun n => (n, l_author l)) (span (l_start l) (N.to_nat (l_end l + 1 - l_start l))).
Definition ai_lines (la : list lattr) : list (N * list N) :=
  flat_map lines_of_lattr (filter (fun l => negb (is_human (l_author l))) la).

(* sorted, pairwise disjoint, inside 1..n *)
Fixpoint la_sorted (prev : N) (la : list lattr) : bool :=
  match la with
  | [] => true
  | l :: t => (prev <? l_start l) && (l_start l <=? l_end l) && la_sorted (l_end l) t
  end.
Definition wf_lattrs (la : list lattr) (n : N) : bool :=
  la_sorted 0 la && forallb (fun l => (l_end l <=? n) && negb (is_human (l_author l))) la.
