(* Model/Ingest.v — agent hook ingestion (property C20).  Definitions only.

   Follows, in this order:
     src/commands/checkpoint_agent/agent_v1_preset.rs   AgentV1Input (serde, internally tagged) -> AgentRunResult
     src/commands/checkpoint_agent/agent_presets.rs     ClaudePreset / CodexPreset / AiTabPreset: field skeleton
     src/git/repository.rs                               path_is_in_workdir, find_repository_for_file,
                                                         group_files_by_repository, find_repository_in_path
     src/commands/checkpoint.rs                          run: the pathspec filter (scope of one checkpoint pass)
     src/commands/git_ai_handlers.rs                     handle_checkpoint: control flow and exit statuses

   The serde shapes (variants, fields, Option / default markers), the exit statuses and the preset
   dispatch table are read from the source by tools/gen/GenIngest.py (Gen/GenIngest.v).

   Environment facts (not computed by the model, passed in as `env`):
     e_stat      what the file system answers for a path: missing / file / directory, with the
                 canonical path (std::fs::canonicalize; this is where symbolic links live);
     e_layout    the repositories that exist (root, kind);
     e_run_fails whether checkpoint::run returns Err for a repository (git failing, I/O);
     e_allowed   Config::is_allowed_repository;
     e_other     the presets whose decoders are not modelled.
   Git facts used: a path is reported by `git status` of work tree R only if R is the innermost
   work tree containing it (nested repositories, submodules and linked work trees are boundaries);
   `git -C d rev-parse` discovers the innermost repository (of any kind, bare included) above d. *)
From Verif Require Import Base.Str.
From Verif Require Import Gen.GenIngest.
Open Scope N_scope.

(* ================================================================= JSON *)
Inductive jnum := NumU (n : N) | NumI (n : N) | NumF.      (* u64 / negative i64 / anything else *)

Inductive json :=
| JNull
| JBool (b : bool)
| JNum (n : jnum)
| JStr (s : str)
| JArr (l : list json)
| JObj (m : list (str * json)).      (* entries in text order, duplicates kept *)

Inductive derr :=
| ENotTagged        (* neither an object nor an array *)
| EMissingTag
| ETagType          (* tag value is not a string *)
| EUnknownVariant
| EDupField
| EMissingField
| EType             (* invalid type for a field *)
| ELength           (* sequence form: too few / too many elements *)
| EValue            (* post-decoding validation of a preset *)
| ENoInput          (* --hook-input absent or not JSON *)
| EShape.           (* the generated tables no longer have the shape this model reads *)

Inductive dres (A : Type) := DOk (a : A) | DErr (e : derr).
Arguments DOk {A} _. Arguments DErr {A} _.

Inductive fval :=
| VStr (s : str)
| VOptStr (o : option str)
| VOptList (o : option (list str))
| VOptMap (o : option (list (str * str)))
| VAny
| VMessages (n : nat)
| VTranscript (n : nat).

Fixpoint all_strs (l : list json) : option (list str) :=
  match l with
  | [] => Some []
  | JStr s :: l' => match all_strs l' with Some r => Some (s :: r) | None => None end
  | _ :: _ => None
  end.

Fixpoint all_str_vals (m : list (str * json)) : option (list (str * str)) :=
  match m with
  | [] => Some []
  | (k, JStr s) :: m' => match all_str_vals m' with Some r => Some ((k, s) :: r) | None => None end
  | _ :: _ => None
  end.

(* leaf field types; TMessages / TTranscript are handled by the layers below *)
Definition decode_basic (t : ftype) (j : json) : dres fval :=
  match t, j with
  | TStr, JStr s => DOk (VStr s)
  | TOptStr, JNull => DOk (VOptStr None)
  | TOptStr, JStr s => DOk (VOptStr (Some s))
  | TOptStrList, JNull => DOk (VOptList None)
  | TOptStrList, JArr l => match all_strs l with Some r => DOk (VOptList (Some r)) | None => DErr EType end
  | TOptStrMap, JNull => DOk (VOptMap None)
  | TOptStrMap, JObj m => match all_str_vals m with Some r => DOk (VOptMap (Some r)) | None => DErr EType end
  | TAny, _ => DOk VAny
  | _, _ => DErr EType
  end.

(* serde: a field absent from a map is None for Option types, the Default for #[serde(default)],
   an error otherwise *)
Definition missing_value (t : ftype) (dflt : bool) : dres fval :=
  match t with
  | TOptStr => DOk (VOptStr None)
  | TOptStrList => DOk (VOptList None)
  | TOptStrMap => DOk (VOptMap None)
  | _ => DErr EMissingField
  end.

(* sequence form: only #[serde(default)] may be absent *)
Definition missing_in_seq (t : ftype) (dflt : bool) : dres fval :=
  if dflt then missing_value t dflt else DErr ELength.

Definition fields := list (str * ftype * bool).
Definition decoded := list (str * fval).

Fixpoint lookup_field (k : str) (fs : fields) : option (ftype * bool) :=
  match fs with
  | [] => None
  | (n, t, d) :: fs' => if str_eqb n k then Some (t, d) else lookup_field k fs'
  end.

Fixpoint assoc {A : Type} (k : str) (l : list (str * A)) : option A :=
  match l with
  | [] => None
  | (n, v) :: l' => if str_eqb n k then Some v else assoc k l'
  end.

Section Struct.
  Variable fd : ftype -> json -> dres fval.

  (* derived visit_map: entries in order; a known key seen twice is an error; unknown keys are skipped *)
  Fixpoint visit_map (fs : fields) (m : list (str * json)) (acc : decoded) : dres decoded :=
    match m with
    | [] => DOk acc
    | (k, v) :: m' =>
        match lookup_field k fs with
        | None => visit_map fs m' acc
        | Some (t, _) =>
            match assoc k acc with
            | Some _ => DErr EDupField
            | None => match fd t v with
                      | DOk x => visit_map fs m' ((k, x) :: acc)
                      | DErr e => DErr e
                      end
            end
        end
    end.

  Fixpoint fill_missing (fs : fields) (acc : decoded) : dres decoded :=
    match fs with
    | [] => DOk acc
    | (n, t, d) :: fs' =>
        match assoc n acc with
        | Some _ => fill_missing fs' acc
        | None => match missing_value t d with
                  | DOk x => fill_missing fs' ((n, x) :: acc)
                  | DErr e => DErr e
                  end
        end
    end.

  Definition struct_of_map (fs : fields) (m : list (str * json)) : dres decoded :=
    match visit_map fs m [] with
    | DOk acc => fill_missing fs acc
    | DErr e => DErr e
    end.

  (* derived visit_seq: positional; afterwards the sequence must be exhausted *)
  Fixpoint struct_of_seq (fs : fields) (l : list json) (acc : decoded) : dres decoded :=
    match fs with
    | [] => match l with [] => DOk acc | _ :: _ => DErr ELength end
    | (n, t, d) :: fs' =>
        match l with
        | [] => match missing_in_seq t d with
                | DOk x => struct_of_seq fs' [] ((n, x) :: acc)
                | DErr e => DErr e
                end
        | v :: l' => match fd t v with
                     | DOk x => struct_of_seq fs' l' ((n, x) :: acc)
                     | DErr e => DErr e
                     end
        end
    end.

  Definition struct_of_value (fs : fields) (j : json) : dres decoded :=
    match j with
    | JObj m => struct_of_map fs m
    | JArr l => struct_of_seq fs l []
    | _ => DErr EType
    end.

  (* internally tagged enum (serde TaggedContentVisitor): map form — the tag may be anywhere, twice is an
     error, the other entries go to the variant's struct; sequence form — first element is the tag.
     The tag value names a variant by a string; when the enum is itself decoded from buffered content
     (idx_tags: an enum nested in another internally tagged enum) serde also accepts the variant INDEX *)
  Fixpoint split_tag (tag : str) (m : list (str * json)) (seen : option json) (rest : list (str * json))
    : dres (option json * list (str * json)) :=
    match m with
    | [] => DOk (seen, rev rest)
    | (k, v) :: m' =>
        if str_eqb k tag then
          match seen with
          | Some _ => DErr EDupField
          | None => split_tag tag m' (Some v) rest
          end
        else split_tag tag m' seen ((k, v) :: rest)
    end.

  Definition tag_variant (idx_tags : bool) (variants : list (str * fields)) (v : json) : dres (str * fields) :=
    match v with
    | JStr name => match assoc name variants with
                   | Some fs => DOk (name, fs)
                   | None => DErr EUnknownVariant
                   end
    | JNum (NumU n) =>
        if idx_tags then
          if n <? N.of_nat (length variants)
          then match nth_error variants (N.to_nat n) with
               | Some nf => DOk nf
               | None => DErr EUnknownVariant
               end
          else DErr EUnknownVariant
        else DErr ETagType
    | _ => DErr ETagType
    end.

  Definition tagged (idx_tags : bool) (tag : str) (variants : list (str * fields)) (j : json) : dres (str * decoded) :=
    match j with
    | JObj m =>
        match split_tag tag m None [] with
        | DErr e => DErr e
        | DOk (None, _) => DErr EMissingTag
        | DOk (Some v, rest) =>
            match tag_variant idx_tags variants v with
            | DErr e => DErr e
            | DOk (name, fs) => match struct_of_map fs rest with
                                | DOk d => DOk (name, d)
                                | DErr e => DErr e
                                end
            end
        end
    | JArr [] => DErr EMissingTag
    | JArr (v :: l) =>
        match tag_variant idx_tags variants v with
        | DErr e => DErr e
        | DOk (name, fs) => match struct_of_seq fs l [] with
                            | DOk d => DOk (name, d)
                            | DErr e => DErr e
                            end
        end
    | _ => DErr ENotTagged
    end.
End Struct.

(* layer 1: Message (fields are leaf types only) *)
Definition decode_message (j : json) : dres (str * decoded) := tagged decode_basic true msg_tag msg_variants j.

Fixpoint decode_messages (l : list json) : dres nat :=
  match l with
  | [] => DOk O
  | j :: l' => match decode_message j with
               | DOk _ => match decode_messages l' with DOk n => DOk (S n) | DErr e => DErr e end
               | DErr e => DErr e
               end
  end.

(* layer 2: AiTranscript *)
Definition decode_l2 (t : ftype) (j : json) : dres fval :=
  match t with
  | TMessages => match j with
                 | JArr l => match decode_messages l with DOk n => DOk (VMessages n) | DErr e => DErr e end
                 | _ => DErr EType
                 end
  | TTranscript => DErr EShape
  | _ => decode_basic t j
  end.

Definition decode_transcript (j : json) : dres nat :=
  match struct_of_value decode_l2 transcript_fields j with
  | DOk d => match d with
             | [(_, VMessages n)] => DOk n
             | _ => DErr EShape
             end
  | DErr e => DErr e
  end.

(* layer 3: AgentV1Input *)
Definition decode_l3 (t : ftype) (j : json) : dres fval :=
  match t with
  | TTranscript => match decode_transcript j with DOk n => DOk (VTranscript n) | DErr e => DErr e end
  | TMessages => DErr EShape
  | _ => decode_basic t j
  end.

Inductive ckind := Human | AiAgent | AiTab.

Record run := mkRun {
  rn_kind : ckind;
  rn_rwd : option str;                 (* AgentRunResult.repo_working_dir *)
  rn_files : option (list str);        (* will_edit_filepaths for Human, edited_filepaths otherwise *)
  rn_dirty : option (list (str * str))
}.

Definition s_human : str := [104; 117; 109; 97; 110].
Definition s_ai_agent : str := [97; 105; 95; 97; 103; 101; 110; 116].
Definition s_rwd : str := [114; 101; 112; 111; 95; 119; 111; 114; 107; 105; 110; 103; 95; 100; 105; 114].
Definition s_will : str := [119; 105; 108; 108; 95; 101; 100; 105; 116; 95; 102; 105; 108; 101; 112; 97; 116; 104; 115].
Definition s_edited : str := [101; 100; 105; 116; 101; 100; 95; 102; 105; 108; 101; 112; 97; 116; 104; 115].
Definition s_dirty : str := [100; 105; 114; 116; 121; 95; 102; 105; 108; 101; 115].

Definition get_str (k : str) (d : decoded) : option str :=
  match assoc k d with Some (VStr s) => Some s | _ => None end.
Definition get_optstr (k : str) (d : decoded) : option (option str) :=
  match assoc k d with Some (VOptStr o) => Some o | _ => None end.
Definition get_list (k : str) (d : decoded) : option (option (list str)) :=
  match assoc k d with Some (VOptList o) => Some o | _ => None end.
Definition get_map (k : str) (d : decoded) : option (option (list (str * str))) :=
  match assoc k d with Some (VOptMap o) => Some o | _ => None end.

(* AgentV1Preset::run after a successful parse *)
Definition v1_to_run (name : str) (d : decoded) : dres run :=
  if str_eqb name s_human then
    match get_str s_rwd d, get_list s_will d, get_map s_dirty d with
    | Some w, Some fl, Some df => DOk (mkRun Human (Some w) fl df)
    | _, _, _ => DErr EShape
    end
  else if str_eqb name s_ai_agent then
    match get_str s_rwd d, get_list s_edited d, get_map s_dirty d with
    | Some w, Some fl, Some df => DOk (mkRun AiAgent (Some w) fl df)
    | _, _, _ => DErr EShape
    end
  else DErr EShape.

Definition decode_agent_v1 (j : json) : dres run :=
  match tagged decode_l3 false v1_tag v1_variants j with
  | DOk (name, d) => v1_to_run name d
  | DErr e => DErr e
  end.

(* ------------------------------------------------ other presets: field skeleton *)
(* serde_json::Value::get on a parsed object: duplicate keys — the last one wins *)
Fixpoint assoc_last {A : Type} (k : str) (l : list (str * A)) (found : option A) : option A :=
  match l with
  | [] => found
  | (n, v) :: l' => assoc_last k l' (if str_eqb n k then Some v else found)
  end.

Definition jget (k : str) (j : json) : option json :=
  match j with JObj m => assoc_last k m None | _ => None end.
Definition jget_str (k : str) (j : json) : option str :=
  match jget k j with Some (JStr s) => Some s | _ => None end.

Definition c_slash : cp := 47.
Definition c_dot : cp := 46.
Definition s_dotdot : str := [46; 46].
Definition s_dot : str := [46].

(* std::path::Path::components on Unix: empty and "." pieces vanish (a leading "." is CurDir,
   which every consumer modelled here skips as well) *)
Definition pieces (s : str) : list str :=
  filter (fun c => negb (str_eqb c []) && negb (str_eqb c s_dot)) (split_on c_slash s).

(* Path::file_stem().is_some()  <=>  file_name().is_some(): the last component is a normal one *)
Definition has_file_name (s : str) : bool :=
  match rev (pieces s) with
  | [] => false
  | c :: _ => negb (str_eqb c s_dotdot)
  end.

Definition k_transcript_path : str := [116; 114; 97; 110; 115; 99; 114; 105; 112; 116; 95; 112; 97; 116; 104].
Definition k_cwd : str := [99; 119; 100].
Definition k_tool_input : str := [116; 111; 111; 108; 95; 105; 110; 112; 117; 116].
Definition k_file_path : str := [102; 105; 108; 101; 95; 112; 97; 116; 104].
Definition k_hook_event_name : str := [104; 111; 111; 107; 95; 101; 118; 101; 110; 116; 95; 110; 97; 109; 101].
Definition k_cursor_version : str := [99; 117; 114; 115; 111; 114; 95; 118; 101; 114; 115; 105; 111; 110].
Definition k_session_id : str := [115; 101; 115; 115; 105; 111; 110; 95; 105; 100].
Definition k_thread_id : str := [116; 104; 114; 101; 97; 100; 95; 105; 100].
Definition k_thread_dash_id : str := [116; 104; 114; 101; 97; 100; 45; 105; 100].
Definition k_hook_event : str := [104; 111; 111; 107; 95; 101; 118; 101; 110; 116].
Definition s_pre_tool_use : str := [80; 114; 101; 84; 111; 111; 108; 85; 115; 101].
Definition s_before_edit : str := [98; 101; 102; 111; 114; 101; 95; 101; 100; 105; 116].
Definition s_after_edit : str := [97; 102; 116; 101; 114; 95; 101; 100; 105; 116].
Definition k_tool : str := [116; 111; 111; 108].
Definition k_model : str := [109; 111; 100; 101; 108].

(* ClaudePreset::run.  `foreign` = the transcript path looks like a VS Code Copilot or Cursor
   transcript (string heuristics of is_vscode_copilot_hook_payload / is_cursor_hook_payload) *)
Definition decode_claude (foreign : str -> bool) (j : json) : dres run :=
  match jget k_cursor_version j with
  | Some _ => DErr EValue
  | None =>
      match jget_str k_transcript_path j with
      | None => DErr EMissingField
      | Some tp =>
          if foreign tp then DErr EValue else
          match jget_str k_cwd j with
          | None => DErr EMissingField
          | Some _ =>
              if negb (has_file_name tp) then DErr EValue else
              let files := match jget k_tool_input j with
                           | Some ti => match jget_str k_file_path ti with Some p => Some [p] | None => None end
                           | None => None
                           end in
              let kind := match jget_str k_hook_event_name j with
                          | Some e => if str_eqb e s_pre_tool_use then Human else AiAgent
                          | None => AiAgent
                          end in
              DOk (mkRun kind None files None)
          end
      end
  end.

(* CodexPreset::run *)
Definition codex_session_id (j : json) : option str :=
  match jget_str k_session_id j with
  | Some s => Some s
  | None => match jget_str k_thread_id j with
            | Some s => Some s
            | None => match jget_str k_thread_dash_id j with
                      | Some s => Some s
                      | None => match jget k_hook_event j with
                                | Some ev => jget_str k_thread_id ev
                                | None => None
                                end
                      end
            end
  end.

Definition decode_codex (j : json) : dres run :=
  match codex_session_id j with
  | None => DErr EMissingField
  | Some _ => match jget_str k_cwd j with
              | None => DErr EMissingField
              | Some c => DOk (mkRun AiAgent (Some c) None None)
              end
  end.

(* AiTabPreset::run: a plain serde struct, then validation *)
Fixpoint trim_start (s : str) : str :=
  match s with
  | [] => []
  | c :: s' => if is_ws c then trim_start s' else s
  end.
Definition trim (s : str) : str := trim_end (trim_start s).

Definition decode_ai_tab (j : json) : dres run :=
  match struct_of_value decode_basic aitab_fields j with
  | DErr e => DErr e
  | DOk d =>
      match get_str k_hook_event_name d, get_str k_tool d, get_str k_model d,
            get_optstr s_rwd d, get_list s_will d, get_list s_edited d, get_map s_dirty d with
      | Some ev, Some tool, Some model, Some rwd, Some will, Some edited, Some df =>
          if negb (str_eqb ev s_before_edit) && negb (str_eqb ev s_after_edit) then DErr EValue
          else if str_eqb (trim tool) [] then DErr EValue
          else if str_eqb (trim model) [] then DErr EValue
          else
            let rwd' := match rwd with
                        | Some w => if str_eqb (trim w) [] then None else Some (trim w)
                        | None => None
                        end in
            if str_eqb ev s_before_edit then DOk (mkRun Human rwd' will df)
            else DOk (mkRun AiTab rwd' edited df)
      | _, _, _, _, _, _, _ => DErr EShape
      end
  end.

(* ================================================================= paths and repositories *)
Definition path := list str.                      (* absolute, canonical: components from the root *)
Inductive seg := SName (c : str) | SUp.
Definition rawpath := list seg.                   (* absolute, as written: ".." not resolved *)

Fixpoint path_eqb (a b : path) : bool :=
  match a, b with
  | [], [] => true
  | x :: a', y :: b' => str_eqb x y && path_eqb a' b'
  | _, _ => false
  end.

(* Path::starts_with: component-wise prefix *)
Fixpoint prefixb (a b : path) : bool :=
  match a, b with
  | [], _ => true
  | x :: a', y :: b' => str_eqb x y && prefixb a' b'
  | _ :: _, [] => false
  end.

(* the fallback of path_is_in_workdir: fold over the components, ParentDir pops (the root cannot be
   popped), CurDir is skipped, everything else is pushed *)
Fixpoint lexnorm_acc (acc : path) (p : rawpath) : path :=
  match p with
  | [] => acc
  | SUp :: p' => lexnorm_acc (removelast acc) p'
  | SName c :: p' => lexnorm_acc (acc ++ [c]) p'
  end.
Definition lexnorm (p : rawpath) : path := lexnorm_acc [] p.

Definition seg_of_piece (c : str) : seg := if str_eqb c s_dotdot then SUp else SName c.
Definition is_absolute (s : str) : bool := first_is c_slash s.
Definition raw_of_path (p : path) : rawpath := map SName p.

(* `if Path::new(f).is_absolute() { f } else { base.join(f) }` *)
Definition absolutize (base : rawpath) (s : str) : rawpath :=
  if is_absolute s then map seg_of_piece (pieces s) else base ++ map seg_of_piece (pieces s).

(* Path::parent: drops the last component, lexically *)
Definition parent_raw (p : rawpath) : rawpath := removelast p.

Inductive rkind := KNormal | KBare | KSubmodule | KWorktree.
(* KSubmodule: `.git` is a file containing "gitdir:" and "/modules/";  KWorktree: `.git` is a file
   pointing into <common>/worktrees/;  KBare: r_root is the git directory itself *)
Record repo := mkRepo { r_root : path; r_kind : rkind }.
Definition layout := list repo.

Definition rkind_eqb (a b : rkind) : bool :=
  match a, b with
  | KNormal, KNormal | KBare, KBare | KSubmodule, KSubmodule | KWorktree, KWorktree => true
  | _, _ => false
  end.
Definition repo_eqb (a b : repo) : bool := path_eqb (r_root a) (r_root b) && rkind_eqb (r_kind a) (r_kind b).
Definition is_bare (r : repo) : bool := rkind_eqb (r_kind r) KBare.
Definition is_submodule (r : repo) : bool := rkind_eqb (r_kind r) KSubmodule.

(* Repository.workdir: `git rev-parse --show-toplevel`, or the parent of the git dir for a bare repository *)
Definition workdir (r : repo) : path := if is_bare r then removelast (r_root r) else r_root r.

Fixpoint root_at (want_bare : bool) (l : layout) (d : path) : option repo :=
  match l with
  | [] => None
  | r :: l' =>
      if path_eqb (r_root r) d && (want_bare || negb (is_bare r)) then Some r else root_at want_bare l' d
  end.
Definition worktree_root_at := root_at false.     (* d/.git exists (directory or file) *)
Definition any_root_at := root_at true.           (* ... or d is itself a git directory *)

(* walk from d towards the root *)
Fixpoint up_find (fuel : nat) (stop : path -> bool) (pick : path -> option repo) (d : path) : option repo :=
  match fuel with
  | O => None
  | S f =>
      if stop d then None
      else match pick d with
           | Some r => Some r
           | None => match d with
                     | [] => None
                     | _ :: _ => up_find f stop pick (removelast d)
                     end
           end
  end.

Definition never (_ : path) : bool := false.

(* SPEC notion: the repository a file belongs to — the innermost work tree containing it *)
Definition innermost (l : layout) (q : path) : option repo :=
  up_find (S (length q)) never (worktree_root_at l) q.

(* git's own discovery, `git -C d rev-parse ...` *)
Definition discover (l : layout) (d : path) : option repo :=
  up_find (S (length d)) never (any_root_at l) d.

Inductive fstat := Missing | IsFile (real : path) | IsDir (real : path).

Record env := mkEnv {
  e_layout : layout;
  e_cwd : option path;                  (* std::env::current_dir(): None when the directory is gone *)
  e_stat : rawpath -> fstat;
  e_run_fails : repo -> bool;
  e_allowed : repo -> bool;
  e_foreign : str -> bool;
  e_other : json -> dres run
}.

Definition canon (E : env) (p : rawpath) : option path :=
  match e_stat E p with Missing => None | IsFile q => Some q | IsDir q => Some q end.

(* `p.canonicalize().unwrap_or(p)`; an unresolvable path is compared lexically *)
Definition resolve (E : env) (p : rawpath) : path :=
  match canon E p with Some q => q | None => lexnorm p end.

(* Repository::path_is_in_workdir *)
Definition in_wd (E : env) (r : repo) (p : rawpath) : bool :=
  match canon E p with
  | Some q => prefixb (workdir r) q
  | None => prefixb (workdir r) (lexnorm p)
  end.

(* `path_buf.strip_prefix(&repo_workdir)` on the path as written (components, `..` not resolved) *)
Fixpoint raw_prefixb (a : path) (p : rawpath) : bool :=
  match a, p with
  | [], _ => true
  | x :: a', SName y :: p' => str_eqb x y && raw_prefixb a' p'
  | _ :: _, _ => false
  end.

(* `strip_prefix` on the path as written: what is left after the work dir *)
Fixpoint strip_raw (a : path) (p : rawpath) : option rawpath :=
  match a, p with
  | [], _ => Some p
  | x :: a', SName y :: p' => if str_eqb x y then strip_raw a' p' else None
  | _ :: _, _ => None
  end.

Fixpoint strip_path (a b : path) : option path :=
  match a, b with
  | [], _ => Some b
  | x :: a', y :: b' => if str_eqb x y then strip_path a' b' else None
  | _ :: _, [] => None
  end.

(* is_usable_pathspec: not empty, no NUL byte, never above the work tree root *)
Fixpoint stays_inside (depth : nat) (p : rawpath) : bool :=
  match p with
  | [] => true
  | SUp :: p' => match depth with O => false | S d => stays_inside d p' end
  | SName _ :: p' => stays_inside (S depth) p'
  end.

Definition seg_has_nul (s : seg) : bool := match s with SName c => mem 0 c | SUp => false end.

Definition usable (rest : rawpath) : bool :=
  match rest with
  | [] => false
  | _ :: _ => negb (existsb seg_has_nul rest) && stays_inside O rest
  end.

(* the pathspec filter of checkpoint::run keeps a path when it is in the work dir AND yields a pathspec git
   accepts: the path as written relative to the work dir, else the canonical path relative to it.
   (A relative "." — the work dir itself — is written as a non-empty pathspec; `pieces` drops it, so the
   model treats it like the empty remainder: the one spelling it does not describe.) *)
Definition keeps (E : env) (r : repo) (p : rawpath) : bool :=
  in_wd E r p &&
  ((match strip_raw (workdir r) p with Some rest => usable rest | None => false end)
   || match canon E p with
      | Some q => match strip_path (workdir r) q with
                  | Some [] => false
                  | Some (_ :: _) => true
                  | None => false
                  end
      | None => false
      end).

(* find_repository_for_file *)
Definition outside (bnd : option path) (d : path) : bool :=
  match bnd with Some b => negb (prefixb b d) | None => false end.

Definition pick_skipping_submodules (l : layout) (d : path) : option repo :=
  match worktree_root_at l d with
  | Some r => if is_submodule r then None else Some r
  | None => None
  end.

Definition start_dir (E : env) (f : rawpath) : rawpath :=
  match e_stat E f with IsDir _ => f | _ => parent_raw f end.

(* when the start directory cannot be canonicalised the walk runs over the path as written: `dir.parent()` is
   lexical, `dir.join(".git").exists()` is answered by the file system, the boundary test compares components *)
Fixpoint walk_raw (fuel : nat) (E : env) (b : option path) (d : rawpath) : option repo :=
  match fuel with
  | O => None
  | S f =>
      if match b with Some bb => negb (raw_prefixb bb d) | None => false end then None
      else
        let up := match d with [] => None | _ :: _ => walk_raw f E b (removelast d) end in
        match e_stat E d with
        | IsDir q => match pick_skipping_submodules (e_layout E) q with
                     | Some r => Some r
                     | None => up
                     end
        | _ => up
        end
  end.

Definition find_for_file (E : env) (bnd : option rawpath) (f : rawpath) : option repo :=
  let sd := start_dir E f in
  let b := match bnd with Some x => Some (resolve E x) | None => None end in
  match canon E sd with
  | Some d => up_find (S (length d)) (outside b) (pick_skipping_submodules (e_layout E)) d
  | None => walk_raw (S (length sd)) E b sd
  end.

(* group_files_by_repository (a HashMap keyed by work dir: order is immaterial) *)
Fixpoint add_to (r : repo) (f : rawpath) (g : list (repo * list rawpath)) : list (repo * list rawpath) :=
  match g with
  | [] => [(r, [f])]
  | (r', l) :: g' => if repo_eqb r r' then (r', f :: l) :: g' else (r', l) :: add_to r f g'
  end.

Fixpoint group_files (find : rawpath -> option repo) (fs : list rawpath) : list (repo * list rawpath) :=
  match fs with
  | [] => []
  | f :: tl => match find f with
               | Some r => add_to r f (group_files find tl)
               | None => group_files find tl
               end
  end.

(* ================================================================= one checkpoint::run *)
(* the pathspec filter of checkpoint::run: paths outside the work dir are dropped.  An empty REQUEST means
   "whatever changed" (whole work tree); a non-empty request of which nothing is left means "nothing here" *)
Inductive scope := ScopeAll | ScopeNone | ScopeFiles (l : list rawpath).

Record pass := mkPass { p_repo : repo; p_scope : scope; p_failed : bool }.

Definition scope_of (E : env) (r : repo) (files : option (list rawpath)) : scope :=
  match files with
  | None => ScopeAll
  | Some l => match filter (keeps E r) l with
              | [] => match l with
                      | [] => ScopeAll
                      | _ :: _ => if foreign_request_scans_all then ScopeAll else ScopeNone
                      end
              | k => ScopeFiles k
              end
  end.

(* `git status` in a bare repository fails: "this operation must be run in a work tree" *)
Definition run_pass (E : env) (r : repo) (files : option (list rawpath)) : pass :=
  mkPass r (scope_of E r files) (is_bare r || e_run_fails E r).

(* ================================================================= handle_checkpoint *)
Inductive hook :=
| HNone                      (* no --hook-input flag *)
| HMissingValue              (* --hook-input is the last argument *)
| HEmptyValue                (* --hook-input '' / blank *)
| HStdinReadErr              (* --hook-input stdin, stdin not UTF-8 *)
| HStdinEmpty                (* --hook-input stdin, stdin blank *)
| HArgvNotUtf8               (* clap rejects the command line before handle_git_ai is entered *)
| HText (parsed : option json).   (* the text serde_json parsed (Some) or rejected (None) *)

Inductive preset := PAgentV1 | PClaude | PCodex | PAiTab | POther (name : str) | PMockAi | PNone.

Inductive outcome := Exit (status : N) (passes : list pass) | Panicked.

Definition exit_clap_usage : N := 2.      (* clap's usage error; not a constant of /repo *)
Definition exit_panic : N := 101.

Definition status_of (o : outcome) : N :=
  match o with Exit s _ => s | Panicked => exit_panic end.

Definition preset_name (p : preset) : option str :=
  match p with
  | PAgentV1 => Some [97; 103; 101; 110; 116; 45; 118; 49]
  | PClaude => Some [99; 108; 97; 117; 100; 101]
  | PCodex => Some [99; 111; 100; 101; 120]
  | PAiTab => Some [97; 105; 95; 116; 97; 98]
  | POther n => Some n
  | PMockAi => Some [109; 111; 99; 107; 95; 97; 105]
  | PNone => None
  end.

Fixpoint preset_entry (n : str) (t : list (str * bool * N)) : option (bool * N) :=
  match t with
  | [] => None
  | (k, o, x) :: t' => if str_eqb k n then Some (o, x) else preset_entry n t'
  end.

Definition decode_preset (E : env) (p : preset) (h : hook) : dres run :=
  match h with
  | HText (Some j) =>
      match p with
      | PAgentV1 => decode_agent_v1 j
      | PClaude => decode_claude (e_foreign E) j
      | PCodex => decode_codex j
      | PAiTab => decode_ai_tab j
      | _ => e_other E j
      end
  | _ => DErr ENoInput
  end.

Definition files_raw (base : rawpath) (fl : option (list str)) : option (list rawpath) :=
  match fl with Some l => Some (map (absolutize base) l) | None => None end.

(* a relative path needs a base; the base is unknown when the process working directory is gone *)
Definition absolutize_opt (base : option rawpath) (s : str) : option rawpath :=
  if is_absolute s then Some (map seg_of_piece (pieces s))
  else match base with
       | Some b => Some (b ++ map seg_of_piece (pieces s))
       | None => None
       end.

Definition passes_of_groups (E : env) (g : list (repo * list rawpath)) : list pass :=
  map (fun rf => run_pass E (fst rf) (Some (snd rf))) (filter (fun rf => e_allowed E (fst rf)) g).

(* standard single-repository mode, from `let repo = repo_result.unwrap()` on *)
Definition primary_mode (E : env) (p : repo) (fl : option (list str)) : outcome :=
  let files := files_raw (raw_of_path (workdir p)) fl in
  let externals := match files with Some l => filter (fun f => negb (in_wd E p f)) l | None => [] end in
  let first := run_pass E p files in
  let cross := passes_of_groups E (group_files (find_for_file E None) externals) in
  Exit (if p_failed first then exit_local_failed else exit_main_after_git_ai) (first :: cross).

(* `needs_file_based_repo_detection`; an unresolvable relative path finds no repository (orphan) *)
Definition file_based_mode (E : env) (base : option rawpath) (fl : option (list str)) : outcome :=
  match fl with
  | None => Exit exit_no_repo_no_files []
  | Some [] => Exit exit_no_repo_no_files []
  | Some l =>
      let files := flat_map (fun s => match absolutize_opt base s with Some f => [f] | None => [] end) l in
      match group_files (find_for_file E base) files with
      | [] => Exit exit_no_repo_for_files []
      | g => Exit exit_main_after_git_ai (passes_of_groups E g)
      end
  end.

Definition route (E : env) (cwd : option path) (overrides : bool) (rn : option run) : outcome :=
  let cwd_raw := match cwd with Some c => Some (raw_of_path c) | None => None end in
  let rwd := match rn with Some r => rn_rwd r | None => None end in
  let fl := match rn with Some r => rn_files r | None => None end in
  (* repository_working_dir: the process cwd (empty when it is gone) unless the preset arm overwrote it *)
  let base := match rwd with
              | Some w => if overrides then absolutize_opt cwd_raw w else cwd_raw
              | None => cwd_raw
              end in
  (* final_working_dir *)
  let final := match rwd with Some w => absolutize_opt cwd_raw w | None => cwd_raw end in
  let found := match final with
               | Some fr => match e_stat E fr with
                            | IsDir q => discover (e_layout E) q
                            | _ => None
                            end
               | None => None
               end in
  match found with
  | Some p => if e_allowed E p then primary_mode E p fl else Exit exit_repo_excluded []
  | None => file_based_mode E base fl
  end.

Definition dispatch (E : env) (cwd : option path) (p : preset) (h : hook) : outcome :=
  match h with
  | HMissingValue => Exit exit_hook_missing_value []
  | HStdinReadErr => Exit exit_stdin_read_err []
  | HStdinEmpty => Exit exit_stdin_empty []
  | HEmptyValue => Exit exit_hook_empty []
  | _ =>
    match preset_name p with
    | None => route E cwd false None
    | Some n =>
        match preset_entry n preset_table with
        | None => route E cwd false None                       (* `_ => {}` *)
        | Some (overrides, err_exit) =>
            match p with
            | PMockAi => route E cwd false (Some (mkRun AiAgent None None None))
            | _ => match decode_preset E p h with
                   | DOk rn => route E cwd overrides (Some rn)
                   | DErr _ => Exit err_exit []
                   end
            end
        end
    end
  end.

Definition handle_checkpoint (E : env) (p : preset) (h : hook) : outcome :=
  match h with
  | HArgvNotUtf8 => Exit exit_clap_usage []
  | _ =>
    match e_cwd E with
    | None => if cwd_unwrap_panics then Panicked else dispatch E None p h
    | Some cwd => dispatch E (Some cwd) p h
    end
  end.

(* ================================================================= what ends up recorded *)
Definition git_accepts (l : layout) (r : repo) (q : path) : bool :=
  match innermost l q with Some r' => repo_eqb r r' | None => false end.

Definition pass_records (E : env) (p : pass) : list (repo * path) :=
  if p_failed p then [] else
  match p_scope p with
  | ScopeAll => []
  | ScopeNone => []
  | ScopeFiles l =>
      flat_map (fun f => let q := resolve E f in
                         if git_accepts (e_layout E) (p_repo p) q then [(p_repo p, q)] else []) l
  end.

Definition records (E : env) (o : outcome) : list (repo * path) :=
  match o with Exit _ ps => flat_map (pass_records E) ps | Panicked => [] end.

Definition recorded_in (E : env) (o : outcome) (q : path) (r : repo) : Prop := In (r, q) (records E o).

(* a pass whose file list was non-empty but filtered to nothing scans the whole work tree *)
Definition collapsed (E : env) (r : repo) (files : list rawpath) : bool :=
  match files with
  | [] => false
  | _ :: _ => match filter (keeps E r) files with [] => true | _ :: _ => false end
  end.

Definition has_scope_all (o : outcome) : bool :=
  match o with
  | Exit _ ps => existsb (fun p => match p_scope p with ScopeAll => true | _ => false end) ps
  | Panicked => false
  end.

(* ================================================================= for the driver *)
Fixpoint stat_of_table (t : list (rawpath * fstat)) (eqb : rawpath -> rawpath -> bool) (p : rawpath) : fstat :=
  match t with
  | [] => Missing
  | (k, v) :: t' => if eqb k p then v else stat_of_table t' eqb p
  end.

Definition seg_eqb (a b : seg) : bool :=
  match a, b with
  | SUp, SUp => true
  | SName x, SName y => str_eqb x y
  | _, _ => false
  end.
Fixpoint raw_eqb (a b : rawpath) : bool :=
  match a, b with
  | [], [] => true
  | x :: a', y :: b' => seg_eqb x y && raw_eqb a' b'
  | _, _ => false
  end.

Definition mk_env (l : layout) (cwd : option path) (t : list (rawpath * fstat)) (failing : list repo) : env :=
  mkEnv l cwd (stat_of_table t raw_eqb) (fun r => existsb (repo_eqb r) failing) (fun _ => true)
        (fun _ => false) (fun _ => DErr EShape).

Definition parse_raw (s : str) : rawpath := map seg_of_piece (pieces s).
