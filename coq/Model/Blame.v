(* Model/Blame.v -- the blame pipeline of src/commands/blame.rs.  Definitions only.

   (a) parse_line_porcelain : the inline parser of `git blame --line-porcelain` output in
       Repository::blame_hunks_for_ranges.  It reads: the header line
       `<sha> <orig_line> <final_line> [<group_size>]` (4 fields start a hunk, 3 fields are a
       continuation whose numbers are NOT read), `author <name>` (kept verbatim) and the word
       `boundary`.  It recognises and drops author-mail/-time/-tz and the committer lines (the
       Rust code stores them for the porcelain re-printers; they do not influence which commit or
       which author a line gets, so the model drops them).  It ignores every other line:
       `summary`, `previous` and the tab-prefixed content line.  `filename <path>` is read through
       utils::unescape_git_path: the path the file had in the commit the lines come from.
   (b) print_line_porcelain : what git prints for a list of blame groups.
   (c) get_line_attribution / split_hunk (populate_ai_human_authors) / overlay (overlay_ai_authorship).
       The path given to get_line_attribution is the hunk's own path (porcelain `filename`), the
       requested path only when git printed none (GenBlame.parser_reads_filename = true,
       overlay_uses_hunk_path = true).  git's C-style quoting of unusual paths is undone by
       unescape_git_path; its quoted branch is the function parameter `dq` (environment).
       The foreign-prompt fallback (git grep over refs/notes/ai) is the function `foreign`.
   (d) json_lines / expand_json : grouping of output_json_format, and its inverse.

   Bounds: line numbers are u32 in the code.  `start + group - 1` panics on overflow in a debug
   build (Panic below).  json_lines computes `range_end + 1`, which would overflow only for the
   line number 2^32-1; the theorems about json_lines carry the hypothesis line <= u32_max and the
   model does not represent that one overflow. *)
From Verif Require Import Base.Str Base.RangeSet.
From Verif Require Import Gen.GenSerial Gen.GenBlame.
From Verif Require Import Model.Serial.
Open Scope N_scope.

(* ------------------------------------------------------------------ small string functions *)

Fixpoint strip_prefix (p s : str) : option str :=
  match p with
  | [] => Some s
  | c :: p' => match s with
               | [] => None
               | d :: s' => if d =? c then strip_prefix p' s' else None
               end
  end.

Definition has_prefix (p s : str) : bool :=
  match strip_prefix p s with Some _ => true | None => false end.

Definition cons_tok (t : str) (ts : list str) : list str :=
  match t with [] => ts | _ => t :: ts end.

(* str::split_whitespace : maximal runs of non-White_Space characters *)
Fixpoint ws_tokens (s : str) : str * list str :=
  match s with
  | [] => ([], [])
  | c :: s' =>
      let r := ws_tokens s' in
      if is_ws c then ([], cons_tok (fst r) (snd r)) else (c :: fst r, snd r)
  end.

Definition split_ws (s : str) : list str :=
  let r := ws_tokens s in cons_tok (fst r) (snd r).

(* char::is_ascii_hexdigit *)
Definition is_hex (c : cp) : bool :=
  ((48 <=? c) && (c <=? 57)) || ((97 <=? c) && (c <=? 102)) || ((65 <=? c) && (c <=? 70)).

Definition nonempty (s : str) : bool := match s with [] => false | _ => true end.

Definition u32_or (d : N) (s : str) : N :=
  match parse_u32 s with Some n => n | None => d end.

(* ------------------------------------------------------------------ (a) the parser *)

Record hunk := mkHunk {
  h_start : N; h_end : N;            (* range       : final line numbers, inclusive *)
  h_ostart : N; h_oend : N;          (* orig_range  : line numbers in the originating commit *)
  h_sha : str;
  h_author : str;                    (* original_author *)
  h_boundary : bool;
  h_ai_human : option str;
  h_path : str }.                    (* orig_path: the file's path in that commit ([] = not stated) *)

Record pmeta := mkMeta { m_author : str; m_boundary : bool; m_filename : str }.
Definition meta0 : pmeta := mkMeta [] false [].

Record pcur := mkCur { c_sha : str; c_final : N; c_orig : N; c_group : N }.

Inductive lkind :=
| LSkip
| LAuthor (a : str)
| LBoundary
| LFilename (raw : str)
| LHeader (sha p2 p3 : str) (p4 : option str).

Definition nth_tok (n : nat) (ts : list str) : str := nth n ts [].

Definition classify (line : str) : lkind :=
  match line with
  | [] => LSkip
  | c :: _ =>
      if c =? content_prefix then LSkip
      else match strip_prefix author_prefix line with
           | Some rest => LAuthor rest
           | None =>
               if existsb (fun p => has_prefix p line) skipped_prefixes then LSkip
               else match strip_prefix filename_prefix line with
               | Some rest => LFilename rest
               | None =>
               if str_eqb line boundary_word then LBoundary
               else
                 let ts := split_ws line in
                 let sha := nth_tok 0 ts in
                 let p2 := nth_tok 1 ts in
                 let p3 := nth_tok 2 ts in
                 if nonempty sha && forallb is_hex sha && nonempty p2 && nonempty p3
                 then LHeader sha p2 p3 (nth_error ts 3)
                 else LSkip
               end
           end
  end.

(* utils::unescape_git_path: a path shorter than two bytes (in particular the lone double quote), or
   one that does not both start and end with a double quote, is returned as it is; otherwise the
   C-style quoting is undone (dq). *)
Definition unescape_git_path (dq : str -> str) (s : str) : str :=
  if first_is c_dq s && last_is c_dq s then
    match s with
    | [_] => s
    | _ => dq s
    end
  else s.

Definition hunk_of_cur (c : pcur) (m : pmeta) (f_end o_end : N) : hunk :=
  mkHunk (c_final c) f_end (c_orig c) o_end (c_sha c) (m_author m) (m_boundary m) None (m_filename m).

(* pushing the current hunk; u32 `start + group - 1` overflows (debug panic) when start + group > u32_max *)
Definition flush_cur (c : option pcur) (m : pmeta) : res (list hunk) :=
  match c with
  | None => Ok []
  | Some c =>
      if 0 <? c_group c then
        if (u32_max <? c_final c + c_group c) || (u32_max <? c_orig c + c_group c) then Panic
        else Ok [hunk_of_cur c m (c_final c + c_group c - 1) (c_orig c + c_group c - 1)]
      else Ok [hunk_of_cur c m (c_final c) (c_orig c)]
  end.

Fixpoint parse_lines (dq : str -> str) (ls : list str) (acc : list hunk) (c : option pcur) (m : pmeta)
  : res (list hunk) :=
  match ls with
  | [] => match flush_cur c m with
          | Ok hs => Ok (acc ++ hs) | Err => Err | Panic => Panic
          end
  | l :: ls' =>
      match classify l with
      | LSkip => parse_lines dq ls' acc c m
      | LAuthor a => parse_lines dq ls' acc c (mkMeta a (m_boundary m) (m_filename m))
      | LBoundary => parse_lines dq ls' acc c (mkMeta (m_author m) true (m_filename m))
      | LFilename raw =>
          parse_lines dq ls' acc c (mkMeta (m_author m) (m_boundary m) (unescape_git_path dq raw))
      | LHeader sha p2 p3 (Some p4) =>
          match flush_cur c m with
          | Ok hs =>
              parse_lines dq ls' (acc ++ hs)
                (Some (mkCur sha (u32_or 0 p3) (u32_or 0 p2) (u32_or 1 p4))) meta0
          | Err => Err
          | Panic => Panic
          end
      | LHeader sha p2 p3 None =>
          match c with
          | Some _ => parse_lines dq ls' acc c m
          | None => parse_lines dq ls' acc (Some (mkCur sha (u32_or 0 p3) (u32_or 0 p2) 1)) m
          end
      end
  end.

Definition parse_line_porcelain (dq : str -> str) (text : str) : res (list hunk) :=
  parse_lines dq (lines text) [] None meta0.

(* ------------------------------------------------------------------ per-line view *)

Record bline := mkBline {
  bl_final : N; bl_orig : N; bl_sha : str; bl_author : str; bl_boundary : bool; bl_path : str }.

Fixpoint lines_from (f o : N) (n : nat) : list (N * N) :=
  match n with
  | O => []
  | S n' => (f, o) :: lines_from (f + 1) (o + 1) n'
  end.

Definition hunk_len (h : hunk) : nat := N.to_nat (h_end h - h_start h + 1).

Definition hunk_lines (h : hunk) : list bline :=
  map (fun fo => mkBline (fst fo) (snd fo) (h_sha h) (h_author h) (h_boundary h) (h_path h))
      (lines_from (h_start h) (h_ostart h) (hunk_len h)).

(* ------------------------------------------------------------------ (b) what git prints *)

(* one blame group as git has it: `g_num` consecutive lines of the final file, all from
   commit g_sha where the file was called g_filename and the lines were g_orig, g_orig+1, ... *)
Record gentry := mkG {
  g_sha : str; g_orig : N; g_final : N; g_num : N;
  g_author : str;
  g_mail : str; g_time : str; g_tz : str;
  g_committer : str; g_cmail : str; g_ctime : str; g_ctz : str;
  g_summary : str;
  g_previous : option str;
  g_boundary : bool;
  g_filename : str;                  (* the path the file had in commit g_sha *)
  g_filename_printed : str;          (* as git prints it (C-style quoted when unusual) *)
  g_content : list str }.

Definition s_summary : str := [115; 117; 109; 109; 97; 114; 121; 32].
Definition s_previous : str := [112; 114; 101; 118; 105; 111; 117; 115; 32].

Definition header_line (g : gentry) (k : N) : str :=
  g_sha g ++ [c_sp] ++ print_N (g_orig g + k) ++ [c_sp] ++ print_N (g_final g + k)
  ++ (if k =? 0 then [c_sp] ++ print_N (g_num g) else []).

Definition meta_lines (g : gentry) : list str :=
  [ author_prefix ++ g_author g;
    nth 0 skipped_prefixes [] ++ g_mail g;
    nth 1 skipped_prefixes [] ++ g_time g;
    nth 2 skipped_prefixes [] ++ g_tz g;
    nth 3 skipped_prefixes [] ++ g_committer g;
    nth 4 skipped_prefixes [] ++ g_cmail g;
    nth 5 skipped_prefixes [] ++ g_ctime g;
    nth 6 skipped_prefixes [] ++ g_ctz g;
    s_summary ++ g_summary g ]
  ++ (match g_previous g with Some p => [s_previous ++ p] | None => [] end)
  ++ (if g_boundary g then [boundary_word] else [])
  ++ [ filename_prefix ++ g_filename_printed g ].

Definition line_block (g : gentry) (k : N) (content : str) : list str :=
  header_line g k :: meta_lines g ++ [[content_prefix] ++ content].

Fixpoint entry_blocks (g : gentry) (k : N) (cs : list str) : list str :=
  match cs with
  | [] => []
  | c :: cs' => line_block g k c ++ entry_blocks g (k + 1) cs'
  end.

Definition entry_lines (g : gentry) : list str := entry_blocks g 0 (g_content g).

Definition print_lines (es : list gentry) : list str := flat_map entry_lines es.

Definition print_line_porcelain (es : list gentry) : str := unlines (print_lines es).

Definition hunk_of_entry (g : gentry) : hunk :=
  mkHunk (g_final g) (g_final g + g_num g - 1) (g_orig g) (g_orig g + g_num g - 1)
         (g_sha g) (g_author g) (g_boundary g) None (g_filename g).

(* free text that git prints on one line *)
Definition text_ok (s : str) : bool := negb (mem c_nl s) && negb (mem c_cr s).

Definition gentry_ok (g : gentry) : bool :=
  nonempty (g_sha g) && forallb is_hex (g_sha g)
  && (1 <=? g_num g) && (N.of_nat (length (g_content g)) =? g_num g)
  && (g_final g + g_num g <=? u32_max) && (g_orig g + g_num g <=? u32_max)
  && text_ok (g_author g) && text_ok (g_mail g) && text_ok (g_time g) && text_ok (g_tz g)
  && text_ok (g_committer g) && text_ok (g_cmail g) && text_ok (g_ctime g) && text_ok (g_ctz g)
  && text_ok (g_summary g)
  && (match g_previous g with Some p => text_ok p | None => true end)
  && text_ok (g_filename_printed g) && nonempty (g_filename g)
  && forallb text_ok (g_content g).

Definition wf_entries (es : list gentry) : bool := forallb gentry_ok es.

(* the per-line facts git states: commit, original line, final line, and the path the file had there *)
Record gline := mkGline {
  gl_final : N; gl_orig : N; gl_sha : str; gl_author : str; gl_boundary : bool; gl_filename : str }.

Definition entry_glines (g : gentry) : list gline :=
  map (fun fo => mkGline (fst fo) (snd fo) (g_sha g) (g_author g) (g_boundary g) (g_filename g))
      (lines_from (g_final g) (g_orig g) (N.to_nat (g_num g))).

Definition glines (es : list gentry) : list gline := flat_map entry_glines es.

Definition bline_of_gline (x : gline) : bline :=
  mkBline (gl_final x) (gl_orig x) (gl_sha x) (gl_author x) (gl_boundary x) (gl_filename x).

(* unescape_git_path undoes what git printed *)
Definition names_agree (dq : str -> str) (es : list gentry) : Prop :=
  forall g, In g es -> unescape_git_path dq (g_filename_printed g) = g_filename g.

(* ------------------------------------------------------------------ (c) notes and the overlay *)

Record prompt := mkPrompt { p_tool : str; p_human : option str }.

(* AuthorshipLog as far as blame reads it: attestations in file order, prompts keyed by hash *)
Record alog := mkAlog { l_atts : list fatt; l_prompts : list (str * prompt) }.

Fixpoint assoc {A} (k : str) (m : list (str * A)) : option A :=
  match m with
  | [] => None
  | (k', v) :: m' => if str_eqb k' k then Some v else assoc k m'
  end.

Definition range_contains (r : range) (line : N) : bool :=
  match r with
  | Single l => l =? line
  | Range a b => (a <=? line) && (line <=? b)
  end.

Definition entry_contains (e : entry) (line : N) : bool :=
  existsb (fun r => range_contains r line) (e_ranges e).

(* own note's prompts first, then the foreign lookup (environment) *)
Definition find_prompt (log : alog) (foreign : str -> option prompt) (h : str) : option prompt :=
  match assoc h (l_prompts log) with
  | Some p => Some p
  | None => foreign h
  end.

(* the loop `for entry in file_attestation.entries.iter().rev()`: es is already reversed *)
Fixpoint scan_entries (log : alog) (foreign : str -> option prompt) (es : list entry) (line : N)
  : option (str * prompt) :=
  match es with
  | [] => None
  | e :: es' =>
      if entry_contains e line then
        match find_prompt log foreign (e_hash e) with
        | Some p => Some (e_hash e, p)
        | None => scan_entries log foreign es' line
        end
      else scan_entries log foreign es' line
  end.

Definition first_att (log : alog) (file : str) : option fatt :=
  find (fun f => str_eqb (f_path f) file) (l_atts log).

Definition get_line_attribution (log : alog) (foreign : str -> option prompt) (file : str) (line : N)
  : option (str * prompt) :=
  match first_att log file with
  | None => None
  | Some fa => scan_entries log foreign (rev (f_entries fa)) line
  end.

(* --- populate_ai_human_authors --- *)

Definition opt_str_eqb (a b : option str) : bool :=
  match a, b with
  | None, None => true
  | Some x, Some y => str_eqb x y
  | _, _ => false
  end.

Definition attr_human (a : option (str * prompt)) : option str :=
  match a with Some (_, p) => p_human p | None => None end.

(* i = index of the head of `rest`; cs = index where the current group starts *)
Fixpoint split_runs (h : hunk) (cs : N) (cur : option str) (i : N) (rest : list (option str))
  : list hunk :=
  match rest with
  | [] => [mkHunk (h_start h + cs) (h_end h) (h_ostart h + cs) (h_oend h)
                  (h_sha h) (h_author h) (h_boundary h) cur (h_path h)]
  | a :: rest' =>
      if opt_str_eqb a cur then split_runs h cs cur (i + 1) rest'
      else mkHunk (h_start h + cs) (h_start h + i - 1) (h_ostart h + cs) (h_ostart h + i - 1)
                  (h_sha h) (h_author h) (h_boundary h) cur (h_path h)
           :: split_runs h i a (i + 1) rest'
  end.

Fixpoint first_some {A} (l : list (option A)) : option A :=
  match l with
  | [] => None
  | Some x :: _ => Some x
  | None :: l' => first_some l'
  end.

Definition with_ai_human (h : hunk) (who : option str) : hunk :=
  mkHunk (h_start h) (h_end h) (h_ostart h) (h_oend h) (h_sha h) (h_author h) (h_boundary h) who (h_path h).

(* notes are keyed by the path the file had in the commit that introduced the lines *)
Definition lookup_path (own requested : str) : str :=
  match own with [] => requested | _ => own end.

Definition split_hunk (split : bool) (notes : str -> option alog) (foreign : str -> option prompt)
           (path : str) (h : hunk) : list hunk :=
  match notes (h_sha h) with
  | None => [h]
  | Some log =>
      let las := map (fun o => attr_human (get_line_attribution log foreign (lookup_path (h_path h) path) o))
                     (nrange (h_ostart h) (hunk_len h)) in
      if split then split_runs h 0 (match las with a :: _ => a | [] => None end) 0 las
      else [with_ai_human h (first_some las)]
  end.

Definition split_hunks split notes foreign path (hs : list hunk) : list hunk :=
  flat_map (split_hunk split notes foreign path) hs.

(* --- overlay_ai_authorship --- *)

Record opts := mkOpts {
  o_use_hash : bool;          (* use_prompt_hashes_as_names (--json, --show-prompt) *)
  o_human_as_human : bool;    (* return_human_authors_as_human *)
  o_mark_unknown : bool;      (* --mark-unknown *)
  o_split : bool }.           (* split_hunks_by_ai_author *)

(* one insertion into line_authors; o_ai = the prompt hash recorded in prompt_records *)
Record oline := mkOline { ol_line : N; ol_name : str; ol_ai : option str }.

Definition human_name (o : opts) (author : str) : str :=
  if o_human_as_human o then human_word else author.

Definition nolog_name (o : opts) (author : str) : str :=
  if o_mark_unknown o then unknown_word else human_name o author.

Definition ai_name (o : opts) (hash : str) (p : prompt) : str :=
  if o_use_hash o then hash else p_tool p.

Definition overlay_hunk (o : opts) (notes : str -> option alog) (foreign : str -> option prompt)
           (path : str) (h : hunk) : list oline :=
  match notes (h_sha h) with
  | Some log =>
      map (fun fo =>
             match get_line_attribution log foreign (lookup_path (h_path h) path) (snd fo) with
             | Some (hash, p) => mkOline (fst fo) (ai_name o hash p) (Some hash)
             | None => mkOline (fst fo) (human_name o (h_author h)) None
             end)
          (lines_from (h_start h) (h_ostart h) (hunk_len h))
  | None =>
      map (fun l => mkOline l (nolog_name o (h_author h)) None) (nrange (h_start h) (hunk_len h))
  end.

Definition overlay (o : opts) notes foreign path (hs : list hunk) : list oline :=
  flat_map (overlay_hunk o notes foreign path) hs.

(* run_blame_analysis_pipeline: porcelain text -> hunks (split) -> overlay *)
Definition blame_hunks (dq : str -> str) (o : opts) notes foreign path (text : str) : res (list hunk) :=
  match parse_line_porcelain dq text with
  | Ok hs => Ok (split_hunks (o_split o) notes foreign path hs)
  | Err => Err
  | Panic => Panic
  end.

Definition blame_lines (dq : str -> str) (o : opts) notes foreign path (text : str) : res (list oline) :=
  match blame_hunks dq o notes foreign path text with
  | Ok hs => Ok (overlay o notes foreign path hs)
  | Err => Err
  | Panic => Panic
  end.

(* --- the specification side: what a line's author should be, from git's statement about the line --- *)

(* last entry (file order) that lists the line and whose session has a prompt record *)
Definition last_listing (log : alog) (foreign : str -> option prompt) (es : list entry) (line : N)
  : option (str * prompt) :=
  fold_left (fun acc e =>
               if entry_contains e line then
                 match find_prompt log foreign (e_hash e) with
                 | Some p => Some (e_hash e, p)
                 | None => acc
                 end
               else acc) es None.

Definition note_attribution (log : alog) foreign (path_in_commit : str) (orig_line : N)
  : option (str * prompt) :=
  match first_att log path_in_commit with
  | None => None
  | Some fa => last_listing log foreign (f_entries fa) orig_line
  end.

Definition spec_line (o : opts) (notes : str -> option alog) foreign (x : gline) : oline :=
  match notes (gl_sha x) with
  | Some log =>
      match note_attribution log foreign (gl_filename x) (gl_orig x) with
      | Some (hash, p) => mkOline (gl_final x) (ai_name o hash p) (Some hash)
      | None => mkOline (gl_final x) (human_name o (gl_author x)) None
      end
  | None => mkOline (gl_final x) (nolog_name o (gl_author x)) None
  end.

Definition oline_eqb (a b : oline) : bool :=
  (ol_line a =? ol_line b) && str_eqb (ol_name a) (ol_name b) && opt_str_eqb (ol_ai a) (ol_ai b).

Fixpoint olines_eqb (a b : list oline) : bool :=
  match a, b with
  | [], [] => true
  | x :: a', y :: b' => oline_eqb x y && olines_eqb a' b'
  | _, _ => false
  end.

(* ------------------------------------------------------------------ (d) JSON grouping *)

(* HashMap<u32,String> as a list sorted by key; insert replaces *)
Fixpoint map_insert (k : N) (v : str) (m : list (N * str)) : list (N * str) :=
  match m with
  | [] => [(k, v)]
  | (k', v') :: m' =>
      if k <? k' then (k, v) :: m
      else if k =? k' then (k, v) :: m'
      else (k', v') :: map_insert k v m'
  end.

Definition line_authors (ols : list oline) : list (N * str) :=
  fold_left (fun m x => map_insert (ol_line x) (ol_name x) m) ols [].

Fixpoint set_add (h : str) (s : list str) : list str :=
  match s with
  | [] => [h]
  | x :: s' => if str_eqb x h then s else x :: set_add h s'
  end.

Definition prompt_records (ols : list oline) : list str :=
  fold_left (fun s x => match ol_ai x with Some h => set_add h s | None => s end) ols [].

Definition ai_lines (la : list (N * str)) (prs : list str) : list (N * str) :=
  filter (fun kv => existsb (str_eqb (snd kv)) prs) la.

Fixpoint group_runs (rs re : N) (id : str) (l : list (N * str)) : list (N * N * str) :=
  match l with
  | [] => [(rs, re, id)]
  | (ln, p) :: l' =>
      if str_eqb p id && (ln =? re + 1) then group_runs rs ln id l'
      else (rs, re, id) :: group_runs ln ln p l'
  end.

Definition json_groups (ai : list (N * str)) : list (N * N * str) :=
  match ai with
  | [] => []
  | (l, p) :: t => group_runs l l p t
  end.

Definition range_key (rs re : N) : str :=
  if rs =? re then print_N rs else print_N rs ++ [c_dash] ++ print_N re.

Definition json_lines (ai : list (N * str)) : list (str * str) :=
  map (fun g => (range_key (fst (fst g)) (snd (fst g)), snd g)) (json_groups ai).

Definition parse_key (k : str) : option (N * N) :=
  match split_first c_dash k with
  | Some (a, b) =>
      match parse_u32 a, parse_u32 b with
      | Some x, Some y => Some (x, y)
      | _, _ => None
      end
  | None => match parse_u32 k with Some x => Some (x, x) | None => None end
  end.

Fixpoint expand_json (j : list (str * str)) : option (list (N * str)) :=
  match j with
  | [] => Some []
  | (k, id) :: j' =>
      match parse_key k, expand_json j' with
      | Some (a, b), Some rest => Some (map (fun l => (l, id)) (span a b) ++ rest)
      | _, _ => None
      end
  end.

(* -L restriction of a line map *)
Definition in_ranges (rs : list (N * N)) (l : N) : bool :=
  existsb (fun r => (fst r <=? l) && (l <=? snd r)) rs.

Definition restrict {A} (rs : list (N * N)) (m : list (N * A)) : list (N * A) :=
  filter (fun kv => in_ranges rs (fst kv)) m.

(* the author column of the default format for line l:
   line_authors.get(&line_num).unwrap_or(&hunk.original_author) *)
Definition default_author (la : list (N * str)) (h_author_ : str) (l : N) : str :=
  match find (fun kv => fst kv =? l) la with
  | Some kv => snd kv
  | None => h_author_
  end.

(* ------------------------------------------------------------------ definitions used by the statements *)

(* relational reading of last_listing: the LAST entry that lists the line and has a prompt record *)
Definition listed (log : alog) foreign (e : entry) (line : N) : Prop :=
  entry_contains e line = true /\ find_prompt log foreign (e_hash e) <> None.

(* one line of output, as a function of the line's blame facts and the lookup path *)
Definition line_out (o : opts) (notes : str -> option alog) foreign (path : str) (b : bline) : oline :=
  match notes (bl_sha b) with
  | Some log =>
      match get_line_attribution log foreign (lookup_path (bl_path b) path) (bl_orig b) with
      | Some (hash, p) => mkOline (bl_final b) (ai_name o hash p) (Some hash)
      | None => mkOline (bl_final b) (human_name o (bl_author b)) None
      end
  | None => mkOline (bl_final b) (nolog_name o (bl_author b)) None
  end.

Definition json_opts (o : opts) : opts := mkOpts true (o_human_as_human o) (o_mark_unknown o) (o_split o).
Definition tool_opts (o : opts) : opts := mkOpts false (o_human_as_human o) (o_mark_unknown o) (o_split o).

Definition attribution_of (notes : str -> option alog) foreign (path : str) (b : bline) : option (list N * prompt) :=
  match notes (bl_sha b) with
  | Some log => get_line_attribution log foreign (lookup_path (bl_path b) path) (bl_orig b)
  | None => None
  end.

(* the name shown for a line that is not AI *)
Definition fallback_name (o : opts) (notes : str -> option alog) (b : bline) : list N :=
  match notes (bl_sha b) with
  | Some _ => human_name o (bl_author b)
  | None => nolog_name o (bl_author b)
  end.

(* what --json lists and what the author column of the default format shows, for the same per-line facts *)
Definition json_ai_lines (o : opts) notes foreign (path : str) (bl : list bline) : list (N * str) :=
  let ols := map (line_out (json_opts o) notes foreign path) bl in
  ai_lines (line_authors ols) (prompt_records ols).

Definition default_column (o : opts) notes foreign (path : str) (bl : list bline) (b : bline) : str :=
  default_author (line_authors (map (line_out (tool_opts o) notes foreign path) bl)) (bl_author b) (bl_final b).

(* no human display name is literally one of the prompt hashes in play *)
Definition names_not_hashes (o : opts) notes foreign (path : str) (bl : list bline) : Prop :=
  forall b, In b bl ->
    ~ In (fallback_name (json_opts o) notes b)
         (prompt_records (map (line_out (json_opts o) notes foreign path) bl)).

(* ------------------------------------------------------------------ -L arguments and their validation *)

(* parse_line_range.  `a,b` (split at the first comma); `a,+k` = k lines from a (k >= 1, no u32 overflow);
   a single number n = from n to the end of the file, written (n, line_range_eof) until the file
   length is known. *)
Definition line_range_eof : N := u32_max.

Definition parse_line_range (s : str) : option (N * N) :=
  match split_first c_comma s with
  | Some (a, b) =>
      match parse_u32 a with
      | Some x =>
          match strip_prefix [c_plus] b with
          | Some cnt =>
              match parse_u32 cnt with
              | Some k => if (0 <? k) && (x + (k - 1) <=? u32_max) then Some (x, x + (k - 1)) else None
              | None => None
              end
          | None => match parse_u32 b with Some y => Some (x, y) | None => None end
          end
      | None => None
      end
  | None => match parse_u32 s with Some x => Some (x, line_range_eof) | None => None end
  end.

Definition range_valid (total : N) (r : N * N) : bool :=
  negb ((fst r =? 0) || (snd r =? 0) || (snd r <? fst r) || (total <? snd r)).

(* prepare_blame_request: no -L means the whole file (1, total_lines); every range is validated *)
Definition prepare_ranges (total : N) (requested : list (N * N)) : res (list (N * N)) :=
  let rs := match requested with
            | [] => [(1, total)]
            | _ => map (fun r => if snd r =? line_range_eof then (fst r, total) else r) requested
            end in
  if forallb (range_valid total) rs then Ok rs else Err.

(* prepare_blame_request as a whole.  `count rev` = number of lines of the file at revision rev (None = the
   working copy): the environment.  effective_blame_options pins the revision of --json to HEAD when none is
   given; git blame is run on that effective revision, and the default range, the open `-L n` end and the
   validation must be sized by the SAME content (GenBlame.content_read_after_effective_options). *)
Definition effective_revision (json : bool) (newest : option str) : option str :=
  match newest with
  | Some r => Some r
  | None => if json then Some json_default_revision else None
  end.

Definition sizing_revision (json : bool) (newest : option str) : option str :=
  if content_read_after_effective_options then effective_revision json newest else newest.

Definition prepare_request (count : option str -> N) (json : bool) (newest : option str)
           (requested : list (N * N)) : res (list (N * N)) :=
  prepare_ranges (count (sizing_revision json newest)) requested.

(* shape facts read from the source by the translator; the proofs file checks this is true *)
Definition source_shape_ok : bool :=
  parser_reads_filename && overlay_uses_hunk_path && attribution_first_file_match
  && attribution_entries_reversed && attribution_own_prompts_first && json_grouping_shape && line_range_open_end
  && content_read_after_effective_options
  && (content_prefix =? c_tab) && (N.of_nat (length skipped_prefixes) =? 7).
