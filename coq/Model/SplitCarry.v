(* Model/SplitCarry.v -- definitions only (C04, the carry): which files the split of the NEXT
   commit re-examines.

   Source: /repo/src/authorship/post_commit.rs, fn post_commit
     let mut pathspecs = HashSet::new();
     for checkpoint .. for entry .. if checkpoint_entry_requires_post_processing(..) { pathspecs.insert(entry.file) }
     let initial_attributions_for_pathspecs = working_log.read_initial_attributions();
     for file_path in initial_attributions_for_pathspecs.files.keys() { pathspecs.insert(file_path.clone()); }
     working_va.to_authorship_log_and_initial_working_log(repo, &parent_sha, &commit_sha, Some(&pathspecs))
   and virtual_attribution.rs: collect_committed_hunks / collect_unstaged_hunks only report files
   named by the pathspecs (git diff -- <pathspecs>; the untracked-file branch iterates the
   pathspecs), so a file outside the pathspecs has no committed and no unstaged hunks.

   The shapes are facts regenerated from the source (Gen/GenSplit.v).  If the loop over INITIAL's
   files acquires a condition, initial_loop_unconditional becomes false and the model only knows
   that SOME unknown subset (the parameter keep) is inserted: C04_carry then no longer checks. *)
From Coq Require Import List NArith Bool.
From Verif Require Import Base.Str Base.RangeSet Gen.GenSplit Model.Split.
Import ListNotations.
Open Scope N_scope.

Definition path_mem (f : list N) (ps : list (list N)) : bool := existsb (str_eqb f) ps.

(* loop (b): the files of INITIAL that reach the pathspecs *)
Definition initial_pathspecs (ini_files : list (list N)) (keep : list N -> bool) : list (list N) :=
  if initial_loop_unconditional && pathspecs_only_grow && split_gets_pathspecs
  then ini_files else filter keep ini_files.

(* cp_files: files of AI-relevant checkpoint entries (loop (a)) *)
Definition post_commit_pathspecs (cp_files ini_files : list (list N)) (keep : list N -> bool)
  : list (list N) := cp_files ++ initial_pathspecs ini_files keep.

(* the hunks of file f that the split gets to see *)
Definition hunks_seen {A} (ps : list (list N)) (f : list N) (h : list A) : list A :=
  if path_mem f ps then h else [].

(* the split of one file f inside post_commit; attrs = the attributions of f that
   from_just_working_log builds (INITIAL of the parent's working log plus checkpoints);
   K U H = the added lines and hunk extents git reports for f between parent, commit and work
   tree.  For an untracked file named by the pathspecs U = 1..line_count and
   H = [(0, 1, line_count)] (untracked_whole_file). *)
Definition post_commit_file (cp_files ini_files : list (list N)) (keep : list N -> bool)
           (f : list N) (attrs : list lattr) (K U : list N) (H : list hunk) : split_res :=
  let ps := post_commit_pathspecs cp_files ini_files keep in
  split_file attrs (hunks_seen ps f K) (hunks_seen ps f U) (hunks_seen ps f H).

(* ------------------------------------------------------------------ the pre-commit checkpoint *)
(* Source: /repo/src/commands/checkpoint.rs, fn run, `if is_pre_commit { ... }`:
     let has_no_ai_edits = working_log.all_ai_touched_files().map(|f| f.is_empty()).unwrap_or(true);
     let has_initial_attributions = !working_log.read_initial_attributions().files.is_empty();
     if has_no_ai_edits && !has_initial_attributions && !inter_commit_move { return Ok((0, 0, 0)); }
   The carried claims of INITIAL are positional; the pre-commit checkpoint is what re-anchors them
   to the content being committed (it diffs against the last checkpoint of the file).  So it must
   not be skipped while INITIAL names a file -- whatever entries the working log already has.
   precommit_runs_on_any_initial is regenerated from the source; when the test is anything else
   the model only knows an unknown predicate (other) of the two file sets. *)
Definition has_initial_attributions (initial_files touched_files : list (list N))
           (other : list (list N) -> list (list N) -> bool) : bool :=
  if precommit_runs_on_any_initial
  then negb (match initial_files with [] => true | _ => false end)
  else other initial_files touched_files.

Definition precommit_skipped (no_ai_edits inter_commit_move : bool)
           (initial_files touched_files : list (list N))
           (other : list (list N) -> list (list N) -> bool) : bool :=
  no_ai_edits && negb (has_initial_attributions initial_files touched_files other)
  && negb inter_commit_move.
