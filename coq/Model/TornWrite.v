(* Model/TornWrite.v — the in-place rewrite of a journal file at the granularity of its system calls.

   write_all_checkpoints / append_event_to_file call fs::write(path, content): open(O_TRUNC), then
   write(content) at offset 0.  Two writers A and B therefore issue four steps; every interleaving that
   keeps each writer's own order is a schedule.  A write at offset 0 replaces the first |content| bytes
   and keeps what lies beyond them (the file is not truncated again by the write). *)
From Coq Require Import List Arith Bool.
Import ListNotations.

Section Torn.
Context {A : Type}.

Inductive tstep := TruncA | WriteA | TruncB | WriteB.

Definition write_at0 (c file : list A) : list A := c ++ skipn (length c) file.

Definition tstep_exec (a b : list A) (file : list A) (s : tstep) : list A :=
  match s with
  | TruncA | TruncB => []
  | WriteA => write_at0 a file
  | WriteB => write_at0 b file
  end.

Definition texec (a b : list A) (sch : list tstep) (file : list A) : list A :=
  fold_left (tstep_exec a b) sch file.

(* the six schedules of two writers that keep program order *)
Definition tschedules : list (list tstep) :=
  [ [TruncA; WriteA; TruncB; WriteB]; [TruncB; WriteB; TruncA; WriteA];
    [TruncA; TruncB; WriteA; WriteB]; [TruncA; TruncB; WriteB; WriteA];
    [TruncB; TruncA; WriteA; WriteB]; [TruncB; TruncA; WriteB; WriteA] ].

Definition is_tstep_eq (x y : tstep) : bool :=
  match x, y with
  | TruncA, TruncA | WriteA, WriteA | TruncB, TruncB | WriteB, WriteB => true
  | _, _ => false
  end.

Fixpoint index_of (x : tstep) (l : list tstep) : nat :=
  match l with
  | [] => 0
  | y :: r => if is_tstep_eq x y then 0 else S (index_of x r)
  end.

Fixpoint count_of (x : tstep) (l : list tstep) : nat :=
  match l with
  | [] => 0
  | y :: r => (if is_tstep_eq x y then 1 else 0) + count_of x r
  end.

(* a schedule of the two writers: each step once, each writer's truncation before its write *)
Definition tvalid (sch : list tstep) : bool :=
  Nat.eqb (length sch) 4 && Nat.eqb (count_of TruncA sch) 1 && Nat.eqb (count_of WriteA sch) 1
  && Nat.eqb (count_of TruncB sch) 1 && Nat.eqb (count_of WriteB sch) 1
  && Nat.ltb (index_of TruncA sch) (index_of WriteA sch)
  && Nat.ltb (index_of TruncB sch) (index_of WriteB sch).

(* both truncations happen before both writes *)
Definition overlapped (sch : list tstep) : bool :=
  Nat.ltb (index_of TruncA sch) (index_of WriteB sch) && Nat.ltb (index_of TruncB sch) (index_of WriteA sch)
  && Nat.ltb (index_of TruncA sch) (index_of WriteA sch) && Nat.ltb (index_of TruncB sch) (index_of WriteB sch)
  && Nat.ltb (index_of TruncB sch) (index_of WriteB sch).

Definition a_last (sch : list tstep) : bool := Nat.ltb (index_of WriteB sch) (index_of WriteA sch).

End Torn.
Arguments tstep : clear implicits.
