(* Model/Cli.v — the git proxy's top-level argument scanner and alias resolver (C18).
   Definitions only.  Follows /repo/src/git/cli_parser.rs (parse_git_cli_args with its nested
   classify / is_eq_form / take_valueish, the post-parse help/version rewrite, is_help,
   ParsedGitInvocation::to_invocation_vec) and /repo/src/commands/git_handlers.rs
   (parse_alias_tokens, resolve_alias_impl).  Tokens are strings of code points; every literal
   the code compares with is ASCII, so byte offsets and code-point offsets coincide on the
   compared prefixes.  The option tables come from Gen/GenCli.v (regenerated from the source).

   The code has no reachable panic: every index is guarded (args[i] by i < args.len(),
   all[i + 1] by i + 1 < all.len(), as_bytes()[long.len()] by tok.len() > long.len() + 1, and
   command.take().unwrap() sits under command.is_some()), so there is no Panic outcome here.

   Shape of the model of the main loop: the Rust loop pushes tokens on global_args /
   pre_command_meta in input order and advances i by one or two; [scan] returns the same three
   things (globals, buffered meta tokens, saw_end_of_opts, and the unread suffix args[i..])
   by structural recursion on the argument list. *)
From Coq Require Import List NArith Bool.
From Verif Require Import Base.Str Gen.GenCli.
Import ListNotations.
Open Scope N_scope.

Definition c_eq : cp := 61.
Definition c_sq : cp := 39.
Definition c_bs : cp := 92.
Definition c_bang : cp := 33.
Definition dd : str := [45; 45].                      (* the token -- *)

Definition is_nil {A} (l : list A) : bool := match l with [] => true | _ => false end.

(* str::starts_with(p) *)
Fixpoint starts_with (p s : str) : bool :=
  match p, s with
  | [], _ => true
  | x :: p', y :: s' => (x =? y) && starts_with p' s'
  | _ :: _, [] => false
  end.

(* is_eq_form(tok, long): tok.len() > long.len() + 1 && tok.starts_with(long) && tok[long.len()] == '='
   i.e. tok = long ++ '=' :: v with v non-empty *)
Fixpoint is_eq_form (tok long : str) : bool :=
  match long, tok with
  | [], c :: v => (c =? c_eq) && negb (is_nil v)
  | x :: l', y :: t' => (x =? y) && is_eq_form t' l'
  | _, [] => false
  end.

Definition kind_eqb (a b : cli_kind) : bool :=
  match a, b with
  | KNoValue, KNoValue | KTakesValue, KTakesValue | KMeta, KMeta | KUnknown, KUnknown => true
  | _, _ => false
  end.

(* one test of the classify chain *)
Definition rule_kind (r : cli_rule) (tok : str) : option cli_kind :=
  match r with
  | RExact k toks => if existsb (str_eqb tok) toks then Some k else None
  | REqForm k long => if str_eqb tok long || is_eq_form tok long then Some k else None
  | RPrefix k p => if str_eqb tok p || starts_with p tok then Some k else None
  end.

Fixpoint classify_with (rs : list cli_rule) (tok : str) : cli_kind :=
  match rs with
  | [] => KUnknown
  | r :: rs' => match rule_kind r tok with Some k => k | None => classify_with rs' tok end
  end.

Definition classify (tok : str) : cli_kind := classify_with classify_rules tok.

(* let key = if tok.starts_with("-C") { "-C" } else if ... else { "" } *)
Fixpoint key_with (ch : list (str * str)) (tok : str) : str :=
  match ch with
  | [] => []
  | (p, k) :: ch' => if starts_with p tok then k else key_with ch' tok
  end.
Definition key_of (tok : str) : str := key_with key_chain tok.

(* tok.find('=') = Some(eq) with eq > 0 *)
Definition has_eq_after_first (tok : str) : bool :=
  match tok with [] => false | c :: t => negb (c =? c_eq) && mem c_eq t end.

(* take_valueish returns the token alone (attached value): --long=VAL, or sticky -Cpath / -cname=value.
   (The two pure conjuncts of the first test are written in the other order than in the source.) *)
Definition takes_alone (tok key : str) : bool :=
  (starts_with dd tok && has_eq_after_first tok)
  || existsb (fun k => str_eqb key k && negb (str_eqb tok k) && starts_with k tok) sticky_keys.

(* take_valueish(all, i, key) with tok = all[i], rest = all[i+1..]: (tokens to push, unread rest) *)
Definition take_valueish (tok : str) (rest : list str) (key : str) : list str * list str :=
  if takes_alone tok key then ([tok], rest)
  else match rest with
       | v :: rest' => ([tok; v], rest')
       | [] => ([tok], [])
       end.

(* The first pass.  Result: (global_args, pre_command_meta, saw_end_of_opts, args[i..]). *)
Fixpoint scan (a : list str) : list str * list str * bool * list str :=
  match a with
  | [] => ([], [], false, [])
  | tok :: r =>
      if str_eqb tok dd then ([], [], true, r)
      else match classify tok with
           | KNoValue => let '(g, pre, sdd, rest) := scan r in (tok :: g, pre, sdd, rest)
           | KTakesValue =>
               (* inlined take_valueish tok r (key_of tok) *)
               if takes_alone tok (key_of tok) then
                 let '(g, pre, sdd, rest) := scan r in (tok :: g, pre, sdd, rest)
               else match r with
                    | v :: r' => let '(g, pre, sdd, rest) := scan r' in (tok :: v :: g, pre, sdd, rest)
                    | [] => ([tok], [], false, [])
                    end
           | KMeta => let '(g, pre, sdd, rest) := scan r in (g, tok :: pre, sdd, rest)
           | KUnknown => ([], [], false, a)       (* dash or not: the loop breaks with i on tok *)
           end
  end.

Record parsed := mkParsed {
  globals : list str;
  command : option str;
  cargs : list str;
  saw_dd : bool;
  is_help : bool }.

Definition is_help_tok (t : str) : bool := existsb (str_eqb t) help_tokens.
Definition is_version_tok (t : str) : bool := existsb (str_eqb t) version_tokens.
Definition dash_first (t : str) : bool := first_is c_dash t.          (* t.starts_with('-') *)

(* `git version` args from a token list: skip the first -v/--version, keep the others *)
Fixpoint drop_first_version (dropped : bool) (l : list str) : list str :=
  match l with
  | [] => []
  | t :: l' => if negb dropped && is_version_tok t then drop_first_version true l'
               else t :: drop_first_version dropped l'
  end.

(* `git help` args from pre_command_meta: skip the first help token and every version token *)
Fixpoint help_filter (dropped : bool) (l : list str) : list str :=
  match l with
  | [] => []
  | t :: l' => if negb dropped && is_help_tok t then help_filter true l'
               else if is_version_tok t then help_filter dropped l'
               else t :: help_filter dropped l'
  end.

(* no command + version: skip the first version token, then keep only dash tokens *)
Fixpoint version_filter (dropped : bool) (l : list str) : list str :=
  match l with
  | [] => []
  | t :: l' => if negb dropped && is_version_tok t then version_filter true l'
               else if dash_first t then t :: version_filter dropped l'
               else version_filter dropped l'
  end.

Definition not_help_version (t : str) : bool := negb (is_help_tok t || is_version_tok t).

(* everything after the loop, except the (untouched) global_args:
   (command, command_args, is_help) from pre_command_meta, saw_end_of_opts and args[i..] *)
Definition finish_core (pre : list str) (sdd : bool) (rest : list str)
  : option str * list str * bool :=
  (* "if command.is_none()": always the case here *)
  let '(cmd, rest') :=
    match rest with
    | x :: r => if sdd then (Some x, r)
                else if negb (dash_first x) then (Some x, r)
                else (None, rest)
    | [] => (None, [])
    end in
  let cargs0 := match cmd with Some _ => rest' | None => pre ++ rest' end in
  let pre_has_help := existsb is_help_tok pre in
  let pre_has_version := existsb is_version_tok pre in
  let '(cmd1, cargs1) :=
    match cmd with
    | Some c =>
        if pre_has_help then (Some help_word, c :: cargs0)
        else if pre_has_version then (Some version_word, drop_first_version false pre)
        else (cmd, cargs0)
    | None =>
        if pre_has_help then (Some help_word, help_filter false pre ++ filter not_help_version cargs0)
        else if pre_has_version then (Some version_word, version_filter false cargs0)
        else (cmd, cargs0)
    end in
  let ish :=
    (match cmd1 with Some c => existsb (str_eqb c) is_help_commands | None => false end)
    || existsb is_help_tok pre || existsb is_help_tok cargs1 in
  (cmd1, cargs1, ish).

Definition finish (s : list str * list str * bool * list str) : parsed :=
  let '(g, pre, sdd, rest) := s in
  let '(cmd1, cargs1, ish) := finish_core pre sdd rest in
  mkParsed g cmd1 cargs1 sdd ish.

(* parse_git_cli_args *)
Definition parse (a : list str) : parsed := finish (scan a).

(* ParsedGitInvocation::to_invocation_vec *)
Definition to_vec (p : parsed) : list str :=
  globals p ++ (if saw_dd p then [dd] else [])
  ++ (match command p with Some c => [c] | None => [] end) ++ cargs p.

(* ------------------------------------------------------------------ aliases *)

(* str::trim_start *)
Fixpoint trim_start (s : str) : str :=
  match s with
  | [] => []
  | c :: s' => if is_ws c then trim_start s' else s
  end.

(* the character loop of parse_alias_tokens; accumulators in source order *)
Fixpoint alias_loop (s : str) (tokens : list str) (cur : str) (in_s in_d esc : bool)
  : option (list str) :=
  match s with
  | [] =>
      let cur := if esc then cur ++ [c_bs] else cur in
      if in_s || in_d then None
      else Some (if is_nil cur then tokens else tokens ++ [cur])
  | ch :: s' =>
      if esc then alias_loop s' tokens (cur ++ [ch]) in_s in_d false
      else if in_s then
        (if ch =? c_sq then alias_loop s' tokens cur false in_d false
         else alias_loop s' tokens (cur ++ [ch]) in_s in_d false)
      else if in_d then
        (if ch =? c_dq then alias_loop s' tokens cur in_s false false
         else if ch =? c_bs then alias_loop s' tokens cur in_s in_d true
         else alias_loop s' tokens (cur ++ [ch]) in_s in_d false)
      else if ch =? c_sq then alias_loop s' tokens cur true in_d false
      else if ch =? c_dq then alias_loop s' tokens cur in_s true false
      else if ch =? c_bs then alias_loop s' tokens cur in_s in_d true
      else if is_ws ch then
        (if is_nil cur then alias_loop s' tokens cur in_s in_d false
         else alias_loop s' (tokens ++ [cur]) [] in_s in_d false)
      else alias_loop s' tokens (cur ++ [ch]) in_s in_d false
  end.

(* None: shell alias (leading '!') or unbalanced quote *)
Definition parse_alias_tokens (v : str) : option (list str) :=
  let t := trim_start v in
  if first_is c_bang t then None else alias_loop t [] [] false false false.

(* alias table: association list name -> value, standing for repository.config_get_str("alias.<name>").
   git config semantics: the last definition wins. *)
Fixpoint lookup (name : str) (tbl : list (str * str)) : option str :=
  match tbl with
  | [] => None
  | (n, v) :: tbl' =>
      match lookup name tbl' with
      | Some v' => Some v'
      | None => if str_eqb name n then Some v else None
      end
  end.

Inductive resolve_result :=
  | RNone                    (* the function returns None: cycle, shell alias, unbalanced quote *)
  | RSome (p : parsed)
  | RFuel.                   (* fuel exhausted: would be a non-terminating loop; proved unreachable *)

Fixpoint resolve_loop (fuel : nat) (tbl : list (str * str)) (cur : parsed) (seen : list str)
  : resolve_result :=
  match fuel with
  | O => RFuel
  | S f =>
      match command cur with
      | None => RSome cur
      | Some c =>
          if existsb (str_eqb c) seen then RNone               (* !seen.insert(command) *)
          else match lookup c tbl with
               | None => RSome cur
               | Some v =>
                   match parse_alias_tokens v with
                   | None => RNone
                   | Some toks =>
                       resolve_loop f tbl (parse (globals cur ++ toks ++ cargs cur)) (c :: seen)
                   end
               end
      end
  end.

Definition resolve_alias (tbl : list (str * str)) (p : parsed) : resolve_result :=
  resolve_loop (S (length tbl)) tbl p [].

(* ------------------------------------------------------------------ input classes *)

(* no meta token is met by the scan before the command is decided *)
Fixpoint no_pre_command_meta (a : list str) : bool :=
  match a with
  | [] => true
  | tok :: r =>
      if str_eqb tok dd then true
      else match classify tok with
           | KMeta => false
           | KUnknown => true
           | KNoValue => no_pre_command_meta r
           | KTakesValue =>
               if takes_alone tok (key_of tok) then no_pre_command_meta r
               else match r with _ :: r' => no_pre_command_meta r' | [] => true end
           end
  end.

(* independent statement of "the subcommand": walk over the global options, skipping the value of
   a detached value-taking option; the token after a top-level -- ; the first non-dash token *)
Fixpoint spec_command (a : list str) : option str :=
  match a with
  | [] => None
  | tok :: r =>
      if str_eqb tok dd then hd_error r
      else match classify tok with
           | KNoValue => spec_command r
           | KTakesValue =>
               if takes_alone tok (key_of tok) then spec_command r
               else match r with _ :: r' => spec_command r' | [] => None end
           | _ => if dash_first tok then None else Some tok
           end
  end.

Definition unknown_dash (x : str) : bool :=
  negb (str_eqb x dd) && kind_eqb (classify x) KUnknown && dash_first x.

Definition any_help_version (r : list str) : bool :=
  existsb (fun t => is_help_tok t || is_version_tok t) r.

(* what may follow the first meta token for the proxy's vector to be the documented normalisation *)
Definition tail_ok (m : str) (r : list str) : bool :=
  match r with
  | [] => true
  | x :: _ =>
      if is_help_tok m then
        negb (dash_first x) || (unknown_dash x && negb (any_help_version r))
      else if is_version_tok m then unknown_dash x && forallb dash_first r
      else unknown_dash x
  end.

(* the first meta token met by the scan is followed by an acceptable tail *)
Fixpoint meta_last (a : list str) : bool :=
  match a with
  | [] => false
  | tok :: r =>
      if str_eqb tok dd then false
      else match classify tok with
           | KMeta => tail_ok tok r
           | KUnknown => false
           | KNoValue => meta_last r
           | KTakesValue =>
               if takes_alone tok (key_of tok) then meta_last r
               else match r with _ :: r' => meta_last r' | [] => false end
           end
  end.

Definition meta_word (m : str) : str :=
  if is_help_tok m then help_word else if is_version_tok m then version_word else m.

(* the documented normalisation: the first meta token becomes the subcommand word, in place *)
Fixpoint meta_normalise (a : list str) : list str :=
  match a with
  | [] => []
  | tok :: r =>
      if str_eqb tok dd then a
      else match classify tok with
           | KMeta => meta_word tok :: r
           | KUnknown => a
           | KNoValue => tok :: meta_normalise r
           | KTakesValue =>
               if takes_alone tok (key_of tok) then tok :: meta_normalise r
               else match r with v :: r' => tok :: v :: meta_normalise r' | [] => a end
           end
  end.

(* known class: a meta token is met before the command and the tail is not acceptable *)
Definition Known_C18 (a : list str) : bool := negb (no_pre_command_meta a) && negb (meta_last a).

(* ------------------------------------------------------------------ git's own top-level scan
   TRUSTED hand model of git 2.39 git.c (handle_options + the two rewrites in cmd_main),
   validated differentially against /usr/bin/git by vlib/c18.py.  handle_options walks the
   tokens while they start with '-'; it stops (without consuming) at --help/-h/--version/-v;
   options with a detached value consume two tokens; --exec-path (no '='), --html-path,
   --man-path, --info-path, --list-cmds=... print and exit; anything else (including "--",
   -Cpath, -cname=v) is "unknown option" + usage; a detached-value option that is last is
   an error.  In all those exit cases git's behaviour depends only on the prefix up to and
   including that token, so git_norm truncates there.  cmd_main then rewrites a FIRST
   remaining --help/-h to help and --version/-v to version. *)
Definition git_novalue : list str :=
  [ [45;112]; [45;45;112;97;103;105;110;97;116;101]; [45;80]; [45;45;110;111;45;112;97;103;101;114];
    [45;45;110;111;45;114;101;112;108;97;99;101;45;111;98;106;101;99;116;115];
    [45;45;98;97;114;101];
    [45;45;108;105;116;101;114;97;108;45;112;97;116;104;115;112;101;99;115];
    [45;45;103;108;111;98;45;112;97;116;104;115;112;101;99;115];
    [45;45;110;111;103;108;111;98;45;112;97;116;104;115;112;101;99;115];
    [45;45;105;99;97;115;101;45;112;97;116;104;115;112;101;99;115];
    [45;45;110;111;45;111;112;116;105;111;110;97;108;45;108;111;99;107;115] ].
(* -p --paginate -P --no-pager --no-replace-objects --bare --literal-pathspecs --glob-pathspecs
   --noglob-pathspecs --icase-pathspecs --no-optional-locks *)
Definition git_detached : list str :=
  [ [45;45;103;105;116;45;100;105;114]; [45;45;110;97;109;101;115;112;97;99;101];
    [45;45;119;111;114;107;45;116;114;101;101]; [45;45;115;117;112;101;114;45;112;114;101;102;105;120];
    [45;99]; [45;45;99;111;110;102;105;103;45;101;110;118];
    [45;45;115;104;97;108;108;111;119;45;102;105;108;101]; [45;67] ].
(* --git-dir --namespace --work-tree --super-prefix -c --config-env --shallow-file -C *)
Definition git_eq_prefixes : list str :=
  [ [45;45;101;120;101;99;45;112;97;116;104;61]; [45;45;103;105;116;45;100;105;114;61];
    [45;45;110;97;109;101;115;112;97;99;101;61]; [45;45;119;111;114;107;45;116;114;101;101;61];
    [45;45;115;117;112;101;114;45;112;114;101;102;105;120;61];
    [45;45;99;111;110;102;105;103;45;101;110;118;61] ].
(* --exec-path= --git-dir= --namespace= --work-tree= --super-prefix= --config-env=   (skip_prefix) *)

Inductive git_kind := GNoValue | GDetached | GExit.

Definition git_classify (t : str) : git_kind :=
  if existsb (str_eqb t) git_novalue then GNoValue
  else if existsb (str_eqb t) git_detached then GDetached
  else if existsb (fun p => starts_with p t) git_eq_prefixes then GNoValue
  else GExit.

Fixpoint git_norm (a : list str) : list str :=
  match a with
  | [] => []
  | t :: r =>
      if negb (dash_first t) then a
      else if is_help_tok t then help_word :: r
      else if is_version_tok t then version_word :: r
      else match git_classify t with
           | GNoValue => t :: git_norm r
           | GDetached => match r with v :: r' => t :: v :: git_norm r' | [] => [t] end
           | GExit => [t]
           end
  end.

(* the subcommand git dispatches on, if its scan gets that far *)
Fixpoint git_command (a : list str) : option str :=
  match a with
  | [] => None
  | t :: r =>
      if negb (dash_first t) then Some t
      else if is_help_tok t then Some help_word
      else if is_version_tok t then Some version_word
      else match git_classify t with
           | GNoValue => git_command r
           | GDetached => match r with _ :: r' => git_command r' | [] => None end
           | GExit => None
           end
  end.

(* git expands alias.<cmd> only when <cmd> is not a builtin (nor a git-<cmd> on PATH) *)
Definition git_expands_alias (builtins : list str) (tbl : list (str * str)) (cmd : str) : bool :=
  negb (existsb (str_eqb cmd) builtins) && (match lookup cmd tbl with Some _ => true | None => false end).

(* ------------------------------------------------------------------ git's own alias tokeniser
   TRUSTED transcription of git 2.39 alias.c split_cmdline, validated against /usr/bin/git by
   vlib/c18.py (rev-parse --sq-quote).  handle_alias hands it the configured value as it is (no
   trimming; a shell alias is recognised only by a '!' at index 0).  The C loop is
       unquoted isspace(c): end the word, skip the following blanks, ALWAYS open a new word
       unquoted ' or double quote: open a quote;   c == quoted: close it
       backslash unless inside single quotes: take the next char literally; none left = BAD_ENDING
       at the end: unclosed quote = error; the last word is always there.
   Here the two-char backslash step is one step with a pending flag [esc], and the inner skip loop
   is the flag [ab] (just after a blank), so that one char is consumed per step. *)
Definition git_space (c : cp) : bool := (c =? 9) || (c =? 10) || (c =? 13) || (c =? 32).  (* sane_ctype GIT_SPACE *)

Inductive qstate := QNone | QSingle | QDouble.
Definition is_single (q : qstate) : bool := match q with QSingle => true | _ => false end.
Definition is_double (q : qstate) : bool := match q with QDouble => true | _ => false end.

Fixpoint git_loop (s : str) (words : list str) (cur : str) (q : qstate) (esc ab : bool)
  : option (list str) :=
  match s with
  | [] => if esc then None                                   (* SPLIT_CMDLINE_BAD_ENDING *)
          else match q with
               | QNone => Some (words ++ [cur])
               | _ => None                                   (* SPLIT_CMDLINE_UNCLOSED_QUOTE *)
               end
  | c :: s' =>
      if esc then git_loop s' words (cur ++ [c]) q false false
      else match q with
           | QNone =>
               if git_space c then
                 (if ab then git_loop s' words cur QNone false true
                  else git_loop s' (words ++ [cur]) [] QNone false true)
               else if c =? c_sq then git_loop s' words cur QSingle false false
               else if c =? c_dq then git_loop s' words cur QDouble false false
               else if c =? c_bs then git_loop s' words cur QNone true false
               else git_loop s' words (cur ++ [c]) QNone false false
           | QSingle =>
               if c =? c_sq then git_loop s' words cur QNone false false
               else git_loop s' words (cur ++ [c]) QSingle false false
           | QDouble =>
               if c =? c_dq then git_loop s' words cur QNone false false
               else if c =? c_bs then git_loop s' words cur QDouble true false
               else git_loop s' words (cur ++ [c]) QDouble false false
           end
  end.

Definition git_split (v : str) : option (list str) := git_loop v [] [] QNone false false.

(* Semantic edge classifier: runs git's automaton on the value, remembering only whether the
   current word is empty, and answers true as soon as
     - git would push an empty word (leading blank, empty quoted word, trailing blank, empty value), or
     - an unquoted, unescaped char is whitespace for Rust's char::is_whitespace but not for git, or
     - the value ends in an unquoted pending backslash. *)
Fixpoint edge_loop (s : str) (cur_empty : bool) (q : qstate) (esc ab : bool) : bool :=
  match s with
  | [] => match q with
          | QNone => if esc then true else cur_empty
          | _ => false                      (* unclosed quote: both sides give up *)
          end
  | c :: s' =>
      if esc then edge_loop s' false q false false
      else match q with
           | QNone =>
               if git_space c then
                 (if ab then edge_loop s' true QNone false true
                  else if cur_empty then true
                  else edge_loop s' true QNone false true)
               else if is_ws c then true
               else if c =? c_sq then edge_loop s' cur_empty QSingle false false
               else if c =? c_dq then edge_loop s' cur_empty QDouble false false
               else if c =? c_bs then edge_loop s' cur_empty QNone true false
               else edge_loop s' false QNone false false
           | QSingle =>
               if c =? c_sq then edge_loop s' cur_empty QNone false false
               else edge_loop s' false QSingle false false
           | QDouble =>
               if c =? c_dq then edge_loop s' cur_empty QNone false false
               else if c =? c_bs then edge_loop s' cur_empty QDouble true false
               else edge_loop s' false QDouble false false
           end
  end.

Definition alias_edge (v : str) : bool := edge_loop v true QNone false false.

(* a shell alias for the proxy (after trim_start) *)
Definition is_shell_alias (v : str) : bool := first_is c_bang (trim_start v).
