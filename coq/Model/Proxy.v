(* Model/Proxy.v — the control flow of the git proxy (src/commands/git_handlers.rs: handle_git,
   run_pre_command_hooks, run_post_command_hooks, proxy_to_git, exit_with_status,
   resolve_child_git_hooks_path_override; src/commands/hooks/commit_hooks.rs: the only hook that
   can end the process before git starts; src/git/repo_storage.rs: for_ai_dir).
   Definitions only.  What hook bodies do (Ok / Err / panic / process::exit) and what the child git
   does (exit code or signal) are environment facts; the skeleton — where panics are caught, where
   the process can exit — is read from the source (Gen/GenProxy.v). *)
From Verif Require Import Base.Str.
From Verif Require Import Gen.GenProxy.
Open Scope N_scope.

Inductive hook_res := HOk | HErr | HPanic | HExit (code : N).
Inductive child := Exited (code : N) | Signaled (sig : N).

Inductive outcome :=
| Ran (hooks_path : option str) (argv : list str) (st : child) (post_ran : bool)
    (* git was spawned with [-c core.hooksPath=..] ++ argv and ended with st; the wrapper then
       mirrors st (exit code, or re-raises the signal) *)
| Refused (code : N)      (* the wrapper exits before spawning git *)
| Died.                   (* the wrapper panics before spawning git (exit 101, nothing ran) *)

Record facts := mkFacts {
  f_completion : bool;          (* shell-completion context *)
  f_repo_found : bool;
  f_storage_ok : bool;          (* the private directory can be prepared *)
  f_allowed : bool;             (* repository allowed by configuration *)
  f_is_help : bool;
  f_command : option str;
  f_argv_user : list str;       (* what the user typed *)
  f_argv_parsed : list str;     (* to_invocation_vec (parse argv_user)  — C18 *)
  f_argv_alias : option (list str);  (* alias-resolved invocation, when hooks are on *)
  f_pre : hook_res;
  f_child : child;
  f_post : hook_res;
  f_hook_state : bool;          (* managed git hooks installed in this repository *)
  f_prev_hooks : option str;    (* the user's previous hooks dir *)
  f_explicit_hooks_override : bool
}.

Definition str_in (s : str) (l : list str) : bool := existsb (str_eqb s) l.

Definition uses_managed_hooks (c : option str) : bool :=
  match c with Some s => str_in s managed_hook_commands | None => false end.

Definition null_hooks : str := [47; 100; 101; 118; 47; 110; 117; 108; 108].   (* /dev/null *)

Definition hooks_override (f : facts) : option str :=
  if uses_managed_hooks (f_command f) && f_hook_state f && f_repo_found f && negb (f_explicit_hooks_override f)
  then Some (match f_prev_hooks f with Some p => p | None => null_hooks end)
  else None.

Definition c_clone : str := [99; 108; 111; 110; 101].
Definition c_commit : str := [99; 111; 109; 109; 105; 116].
Definition sigint : N := 2.

(* a guarded hook body: a panic is caught when the source has catch_unwind there *)
Definition guarded (g : bool) (r : hook_res) : hook_res :=
  match r with HPanic => if g then HErr else HPanic | x => x end.

Definition is_cmd (c : option str) (s : str) : bool :=
  match c with Some x => str_eqb x s | None => false end.

Definition handle_git (f : facts) : outcome :=
  if f_completion f then Ran None (f_argv_user f) (f_child f) false
  else
    (* find_repository(..).ok(): an Err gives no repository; a panic while preparing storage kills the wrapper *)
    if f_repo_found f && negb (f_storage_ok f) && storage_init_panics then Died
    else
      let has_repo := f_repo_found f in
      let skip := negb (f_allowed f) in
      if is_cmd (f_command f) c_clone && negb (f_is_help f) && negb skip then
        Ran None (f_argv_parsed f) (f_child f) true
      else if negb (f_is_help f) && has_repo && negb skip then
        let argv := match f_argv_alias f with Some a => a | None => f_argv_parsed f end in
        match guarded pre_hooks_guarded (f_pre f) with
        | HExit c =>
            (* only the commit pre hook can exit; any other hook body has no exit site *)
            if commit_pre_hook_can_exit && is_cmd (f_command f) c_commit then Refused c
            else Ran (hooks_override f) argv (f_child f) true
        | HPanic => Died
        | _ =>
            match f_child f with
            | Signaled s => if s =? sigint then Ran (hooks_override f) argv (f_child f) false
                            else
                              match guarded post_hooks_guarded (f_post f) with
                              | HPanic => Died      (* would happen AFTER git ran; see post_safe *)
                              | _ => Ran (hooks_override f) argv (f_child f) true
                              end
            | Exited _ =>
                match guarded post_hooks_guarded (f_post f) with
                | HPanic => Died
                | _ => Ran (hooks_override f) argv (f_child f) true
                end
            end
        end
      else Ran (hooks_override f) (f_argv_parsed f) (f_child f) false.

(* the wrapper's own termination, as the parent shell sees it *)
Definition wrapper_exit (o : outcome) : child :=
  match o with
  | Ran _ _ st _ => if exit_mirrors_child then st else Exited 0
  | Refused c => Exited c
  | Died => Exited 101
  end.
