(* Model/Conc.v — C11: concurrent git-ai activity on the shared journals of one repository.
   DEFINITIONS ONLY (proofs: Proofs/ConcProofs.v).

   Shared state = a store of journal objects:
     OCp w b   .git/ai[/worktrees/<w>]/working_logs/<b>/checkpoints.jsonl   (list of checkpoints)
     OInit w b .../working_logs/<b>/INITIAL                                 (blindly overwritten)
     ORw w     .git/ai[/worktrees/<w>]/rewrite_log                          (newest first, <= MAX_EVENTS)
     ONotes    refs/notes/ai of the common git dir                          (commit -> note)
   An operation is a PROGRAM: a list of atomic steps over (shared store, thread-local registers).
   The control flow of every program is data independent, so a schedule (list of thread ids)
   determines the trace of executed steps (trace_of), and the trace determines the final store
   (exec).  A schedule entry for a finished or unknown thread is a no-op.

   Source correspondence (all in /repo/src):
     append_checkpoint (git/repo_storage.rs) = read_all_checkpoints().unwrap_or_default();
         push; prune_old_char_attributions; write_all_checkpoints          -> rmw (AppendCp w b x)
     append_event_to_file (git/rewrite_log.rs) = read_to_string; parse (truncate MAX_EVENTS);
         prepend; truncate MAX_EVENTS; fs::write                           -> rmw (AppendEv w e)
     notes_add (git/refs.rs) = `git notes --ref=ai add -f`: git reads the notes tree of the tip,
         inserts, writes a commit and sets the ref WITHOUT an old-value check -> rmw (NotesAdd k v)
         (its error, if any, is swallowed by handle_rewrite_log_event: `if let Ok(_) = ... {}`)
     post_commit (authorship/post_commit.rs) = read_all_checkpoints; refresh prompts;
         write_all_checkpoints; ...; notes_add; write_initial_attributions -> commit_prog
     checkpoint::run (commands/checkpoint.rs) = read checkpoints, read INITIAL (both only used to
         compute the payload), append_checkpoint                          -> checkpoint_run
   Whether an append is ONE atomic step or a read step followed by a write step is decided by the
   translator (Gen/GenConc.v: does the source take a lock there?).
   Abstractions: file reads and writes are atomic steps (a torn read can only happen inside an
   overlapping window, which is the known class anyway); the payload x of a checkpoint is fixed
   by the program (its dependence on the earlier reads is not modelled); deletion of the old
   working log after a commit is not modelled. *)
From Coq Require Import List NArith Bool Arith.
From Verif Require Import Base.Str Gen.GenConc.
Import ListNotations.
Open Scope N_scope.

(* ------------------------------------------------------------------ data *)
(* a checkpoint: identity + entries (file id, carries char-level attributions?) *)
Record cpt := { cp_id : N; cp_entries : list (N * bool) }.

Definition entry_files (c : cpt) : list N := map fst (cp_entries c).

(* prune_old_char_attributions: an entry keeps its char-level attributions iff no LATER
   checkpoint has an entry for the same file *)
Definition clear_older (later : list N) (c : cpt) : cpt :=
  {| cp_id := cp_id c;
     cp_entries := map (fun e => (fst e, snd e && negb (mem (fst e) later))) (cp_entries c) |}.

Fixpoint prune (l : list cpt) : list cpt :=
  match l with
  | [] => []
  | c :: r => clear_older (flat_map entry_files r) c :: prune r
  end.

Inductive obj := OCp (w b : N) | OInit (w b : N) | ORw (w : N) | ONotes | OBlob (w b s : N).

Definition obj_eqb (a b : obj) : bool :=
  match a, b with
  | OCp w1 b1, OCp w2 b2 => (w1 =? w2) && (b1 =? b2)
  | OInit w1 b1, OInit w2 b2 => (w1 =? w2) && (b1 =? b2)
  | ORw w1, ORw w2 => w1 =? w2
  | ONotes, ONotes => true
  | OBlob w1 b1 s1, OBlob w2 b2 s2 => (w1 =? w2) && ((b1 =? b2) && (s1 =? s2))
  | _, _ => false
  end.

Inductive val :=
| VCp (l : list cpt)
| VInit (l : list N)
| VEv (l : list N)
| VNotes (l : list (N * N))
| VBlob (l : list N).

(* what a reader makes of a file of the wrong shape: nothing (unwrap_or_default / skip malformed) *)
Definition as_cp (v : val) : list cpt := match v with VCp l => l | _ => [] end.
Definition as_ev (v : val) : list N := match v with VEv l => l | _ => [] end.
Definition as_notes (v : val) : list (N * N) := match v with VNotes l => l | _ => [] end.
Definition as_init (v : val) : list N := match v with VInit l => l | _ => [] end.
Definition as_blob (v : val) : list N := match v with VBlob l => l | _ => [] end.

Definition default_val (o : obj) : val :=
  match o with
  | OCp _ _ => VCp [] | OInit _ _ => VInit [] | ORw _ => VEv [] | ONotes => VNotes []
  | OBlob _ _ _ => VBlob []
  end.

(* ------------------------------------------------------------------ operations *)
Inductive opk :=
| AppendCp (w b : N) (x : cpt)         (* append_checkpoint *)
| RefreshCp (w b : N)                  (* post_commit: read all, refresh prompts, write all *)
| AppendEv (w e : N)                   (* append_event_to_file *)
| NotesAdd (k v : N)                   (* git notes --ref=ai add -f *)
| WriteInit (w b : N) (v : list N)     (* write_initial_attributions: blind overwrite *)
| BlobTrunc (w b s : N)                (* fs::write of blobs/<s>, first half: the file is truncated *)
| BlobFill (w b s : N) (c : list N)    (* ... second half: the content is there *)
| BlobGet (w b s : N)                  (* get_file_version: only read (the identity as an update) *)
| ResetCp (w b : N).                   (* reset_working_log: checkpoints.jsonl emptied (blind) *)

Definition obj_of (k : opk) : obj :=
  match k with
  | AppendCp w b _ => OCp w b
  | RefreshCp w b => OCp w b
  | AppendEv w _ => ORw w
  | NotesAdd _ _ => ONotes
  | WriteInit w b _ => OInit w b
  | BlobTrunc w b s => OBlob w b s
  | BlobFill w b s _ => OBlob w b s
  | BlobGet w b s => OBlob w b s
  | ResetCp w b => OCp w b
  end.

Fixpoint upsert (k v : N) (l : list (N * N)) : list (N * N) :=
  match l with
  | [] => [(k, v)]
  | (k', v') :: r => if k' =? k then (k, v) :: r else (k', v') :: upsert k v r
  end.

(* the new content of the object, computed from what the operation READ *)
Definition apply_op (k : opk) (read : val) : val :=
  match k with
  | AppendCp _ _ x => VCp (prune (as_cp read ++ [x]))
  | RefreshCp _ _ => VCp (as_cp read)
  | AppendEv _ e => VEv (firstn max_events (e :: firstn max_events (as_ev read)))
  | NotesAdd c n => VNotes (upsert c n (as_notes read))
  | WriteInit _ _ x => VInit x
  | BlobTrunc _ _ _ => VBlob []
  | BlobFill _ _ _ c => VBlob c
  | BlobGet _ _ _ => read
  | ResetCp _ _ => VCp []
  end.

(* ------------------------------------------------------------------ programs and traces *)
Inductive step :=
| SRead (k : opk)      (* register[obj_of k] := shared[obj_of k] *)
| SWrite (k : opk)     (* shared[obj_of k] := apply_op k register[obj_of k] *)
| SAtomic (k : opk)    (* shared[obj_of k] := apply_op k shared[obj_of k]   (under a lock) *)
| SPeek (o : obj).     (* a read that is only used to compute payloads *)

Definition program := list step.
Definition event := (nat * step)%type.

Fixpoint set_nth {A : Type} (n : nat) (x : A) (l : list A) : list A :=
  match l, n with
  | [], _ => []
  | _ :: r, O => x :: r
  | y :: r, S n' => y :: set_nth n' x r
  end.

(* the scheduler: thread t executes its next step *)
Fixpoint trace_of (progs : list program) (sched : list nat) : list event :=
  match sched with
  | [] => []
  | t :: sched' =>
      match nth_error progs t with
      | Some (st :: rest) => (t, st) :: trace_of (set_nth t rest progs) sched'
      | _ => trace_of progs sched'
      end
  end.

Definition store := obj -> val.

Definition upd (o : obj) (v : val) (s : store) : store :=
  fun o' => if obj_eqb o' o then v else s o'.

Record config := { shared : store; reg : nat -> obj -> val }.

Definition upd_reg (t : nat) (o : obj) (v : val) (r : nat -> obj -> val) : nat -> obj -> val :=
  fun t' o' => if Nat.eqb t' t && obj_eqb o' o then v else r t' o'.

Definition exec_event (c : config) (e : event) : config :=
  match snd e with
  | SRead k => {| shared := shared c;
                  reg := upd_reg (fst e) (obj_of k) (shared c (obj_of k)) (reg c) |}
  | SWrite k => {| shared := upd (obj_of k) (apply_op k (reg c (fst e) (obj_of k))) (shared c);
                   reg := reg c |}
  | SAtomic k => {| shared := upd (obj_of k) (apply_op k (shared c (obj_of k))) (shared c);
                    reg := reg c |}
  | SPeek _ => c
  end.

Definition exec (tr : list event) (c : config) : config := fold_left exec_event tr c.

Definition init_config (s0 : store) : config :=
  {| shared := s0; reg := fun _ o => default_val o |}.

Definition run (progs : list program) (sched : list nat) (s0 : store) : store :=
  shared (exec (trace_of progs sched) (init_config s0)).

Definition empty_store : store := default_val.

(* ------------------------------------------------------------------ the specification: serial execution *)
Definition is_write (st : step) : option opk :=
  match st with SWrite k => Some k | SAtomic k => Some k | _ => None end.

Fixpoint writes_of (tr : list event) : list opk :=
  match tr with
  | [] => []
  | e :: r => match is_write (snd e) with Some k => k :: writes_of r | None => writes_of r end
  end.

Definition serial_step (s : store) (k : opk) : store :=
  upd (obj_of k) (apply_op k (s (obj_of k))) s.

(* the operations run one after another, each as one indivisible read-modify-write *)
Definition run_serial (ops : list opk) (s : store) : store := fold_left serial_step ops s.

(* ------------------------------------------------------------------ the known class: a stale write *)
(* F = the (thread, object) pairs whose register still equals the shared object *)
Fixpoint memF (t : nat) (o : obj) (F : list (nat * obj)) : bool :=
  match F with
  | [] => false
  | (t', o') :: r => (Nat.eqb t' t && obj_eqb o' o) || memF t o r
  end.

Definition drop_obj (o : obj) (F : list (nat * obj)) : list (nat * obj) :=
  filter (fun p => negb (obj_eqb (snd p) o)) F.

Fixpoint stale_free_aux (F : list (nat * obj)) (tr : list event) : bool :=
  match tr with
  | [] => true
  | e :: r =>
      match snd e with
      | SRead k => stale_free_aux ((fst e, obj_of k) :: F) r
      | SWrite k => memF (fst e) (obj_of k) F && stale_free_aux (drop_obj (obj_of k) F) r
      | SAtomic k => stale_free_aux (drop_obj (obj_of k) F) r
      | SPeek _ => stale_free_aux F r
      end
  end.

(* true iff every write step uses a register that was read after the last write (by anybody)
   to the same object, i.e. no other write to the same object falls inside a read..write window *)
Definition stale_free (tr : list event) : bool := stale_free_aux [] tr.

Definition atomic_windows (progs : list program) (sched : list nat) : Prop :=
  stale_free (trace_of progs sched) = true.

(* Known_C11: some operation's read..write window on an object contains another write to the
   SAME object (two windows on the same file overlap) *)
Definition Known_C11 (progs : list program) (sched : list nat) : Prop :=
  stale_free (trace_of progs sched) = false.

(* ------------------------------------------------------------------ observations *)
Definition cp_ids (v : val) : list N := map cp_id (as_cp v).

(* chronological list of the identities held by a journal *)
Definition view (o : obj) (v : val) : list N :=
  match o with
  | OCp _ _ => cp_ids v
  | ORw _ => rev (as_ev v)
  | _ => []
  end.

Definition appended (k : opk) : list N :=
  match k with
  | AppendCp _ _ x => [cp_id x]
  | AppendEv _ e => [e]
  | _ => []
  end.

(* identities appended to object o by a sequence of operations, in that order *)
Definition log (o : obj) (ops : list opk) : list N :=
  flat_map appended (filter (fun k => obj_eqb (obj_of k) o) ops).

Inductive subseq {A : Type} : list A -> list A -> Prop :=
| sub_nil : forall l, subseq [] l
| sub_skip : forall a l y, subseq a l -> subseq a (y :: l)
| sub_take : forall x a l, subseq a l -> subseq (x :: a) (x :: l).

(* the steps thread t has executed, in order *)
Definition thread_steps (t : nat) (tr : list event) : list step :=
  map snd (filter (fun e => Nat.eqb (fst e) t) tr).

(* ------------------------------------------------------------------ the programs of git-ai *)
Definition rmw (locked : bool) (k : opk) : program :=
  if locked then [SAtomic k] else [SRead k; SWrite k].

Definition append_checkpoint_prog (w b : N) (x : cpt) : program :=
  rmw append_checkpoint_locked (AppendCp w b x).

Definition append_event_prog (w e : N) : program :=
  rmw append_event_locked (AppendEv w e).

Definition notes_add_prog (c n : N) : program :=
  rmw notes_add_locked (NotesAdd c n).

(* `git-ai checkpoint` in worktree w on base commit b *)
Definition checkpoint_run (w b : N) (x : cpt) : program :=
  [SPeek (OCp w b); SPeek (OInit w b)] ++ append_checkpoint_prog w b x.

(* save_current_file_states: the content-addressed blob of a tracked file is (re)written with a plain
   fs::write (truncate, then write) even when it exists already - unless the source says otherwise *)
Definition save_blob (w b : N) (sc : N * list N) : program :=
  if blob_rewritten_in_place
  then [SAtomic (BlobTrunc w b (fst sc)); SAtomic (BlobFill w b (fst sc) (snd sc))]
  else [SAtomic (BlobFill w b (fst sc) (snd sc))].

(* checkpoint::run with its blob traffic: tracked = (sha, content) of the tracked files it snapshots,
   prev = shas of the previous versions it reads back to compute the payload *)
Definition checkpoint_run_full (w b : N) (x : cpt) (tracked : list (N * list N)) (prev : list N) : program :=
  [SPeek (OCp w b); SPeek (OInit w b)] ++ flat_map (save_blob w b) tracked ++ [SPeek (OCp w b)]
  ++ map (fun s => SRead (BlobGet w b s)) prev ++ append_checkpoint_prog w b x.

(* post-command hook of `git commit` in worktree w: parent b, new commit c, rewrite-log event e,
   note n, uncommitted AI claims v carried over to the new base.  It runs AFTER git has moved HEAD
   to c: other actors may already checkpoint against c (OCp w c) while it runs.  What it does to the
   working log of the NEW commit is read from the source (Gen/GenConc.v): on the unchanged tree only
   write_initial_attributions (a blind write of INITIAL), no reset, no delete *)
Definition seed_new_log (w c : N) (v : list N) : program :=
  (if post_commit_resets_new_log then [SAtomic (ResetCp w c)] else [])
  ++ [SAtomic (WriteInit w c v)].

Definition commit_prog (w b c e n : N) (v : list N) : program :=
  append_event_prog w e ++ [SPeek (ORw w)]
  ++ rmw post_commit_refresh_locked (RefreshCp w b)
  ++ [SPeek (OCp w b); SPeek (OInit w b)]
  ++ notes_add_prog c n
  ++ seed_new_log w c v.

(* a history rewrite (rebase, amend, cherry-pick ...): one event, one note per rewritten commit *)
Definition rewrite_prog (w e : N) (notes : list (N * N)) : program :=
  append_event_prog w e ++ flat_map (fun kn => notes_add_prog (fst kn) (snd kn)) notes.

(* programs made of indivisible blocks: peek | atomic | read k; write k' on the same object *)
Fixpoint blocks (p : program) : bool :=
  match p with
  | [] => true
  | SPeek _ :: r => blocks r
  | SAtomic _ :: r => blocks r
  | SRead k :: r =>
      match r with
      | SWrite k' :: r' => obj_eqb (obj_of k) (obj_of k') && blocks r'
      | _ => false
      end
  | SWrite _ :: _ => false
  end.

(* the object a step reads for update or writes *)
Definition touches (st : step) : option obj :=
  match st with
  | SRead k => Some (obj_of k)
  | SWrite k => Some (obj_of k)
  | SAtomic k => Some (obj_of k)
  | SPeek _ => None
  end.

Definition disjoint_progs (progs : list program) : Prop :=
  forall t1 t2 p1 p2 s1 s2 o,
    t1 <> t2 -> nth_error progs t1 = Some p1 -> nth_error progs t2 = Some p2 ->
    In s1 p1 -> In s2 p2 -> touches s1 = Some o -> touches s2 = Some o -> False.

(* the sequential schedule for n two-step programs: 0 0 1 1 2 2 ... *)
Fixpoint seq_sched (i n : nat) : list nat :=
  match n with O => [] | S n' => i :: i :: seq_sched (S i) n' end.

(* ------------------------------------------------------------------ where the journals live *)
(* worktree_storage_ai_dir (git/repository.rs) on canonical paths given as component lists *)
Definition path := list (list N).

Fixpoint path_eqb (a b : path) : bool :=
  match a, b with
  | [], [] => true
  | x :: a', y :: b' => str_eqb x y && path_eqb a' b'
  | _, _ => false
  end.

Fixpoint strip_prefix (p l : path) : option path :=
  match p, l with
  | [], _ => Some l
  | x :: p', y :: l' => if str_eqb x y then strip_prefix p' l' else None
  | _ :: _, [] => None
  end.

Definition leaf (p : path) : list N :=
  match last p [] with [] => s_default | x => x end.

Definition ai_dir (common gitdir : path) : path :=
  if path_eqb gitdir common then common ++ [s_ai]
  else match strip_prefix (common ++ [s_worktrees]) gitdir with
       | Some (x :: rel) => common ++ [s_ai; s_worktrees] ++ x :: rel
       | _ => common ++ [s_ai; s_worktrees; leaf gitdir]
       end.

(* a git dir that git itself creates: the common dir, or <common>/worktrees/<rel> *)
Definition std_gitdir (common g : path) : Prop :=
  g = common \/ exists x rel, g = common ++ [s_worktrees] ++ x :: rel.

(* the file that holds a journal object, gd = git dir of worktree w; the notes ref is not a
   storage file (it is shared by all worktrees) *)
Definition storage_file (common : path) (gd : N -> path) (o : obj) : option path :=
  match o with
  | OCp w b => Some (ai_dir common (gd w) ++ [s_working_logs; [b]; s_checkpoints])
  | OInit w b => Some (ai_dir common (gd w) ++ [s_working_logs; [b]; s_initial])
  | ORw w => Some (ai_dir common (gd w) ++ [s_rewrite_log])
  | ONotes => None
  | OBlob w b s => Some (ai_dir common (gd w) ++ [s_working_logs; [b]; s_blobs; [s]])
  end.

(* ------------------------------------------------------------------ enumeration (for examples and the driver) *)
(* all complete interleavings of threads with the given numbers of steps *)
Fixpoint interleavings_fuel (fuel : nat) (rem : list nat) : list (list nat) :=
  match fuel with
  | O => [[]]
  | S f =>
      if forallb (fun n => Nat.eqb n 0) rem then [[]]
      else flat_map (fun t =>
             match nth_error rem t with
             | Some (S n) => map (cons t) (interleavings_fuel f (set_nth t n rem))
             | _ => []
             end) (seq 0 (length rem))
  end.

Definition interleavings (progs : list program) : list (list nat) :=
  let rem := map (@length step) progs in
  interleavings_fuel (fold_right Nat.add O rem) rem.

(* identities whose append step was executed but which are absent at the end *)
Definition lost (o : obj) (s0 final : store) (tr : list event) : list N :=
  filter (fun i => negb (mem i (view o (final o)))) (view o (s0 o) ++ log o (writes_of tr)).

(* ------------------------------------------------------------------ worktree confinement *)
Definition obj_wt (o : obj) : option N :=
  match o with
  | OCp w _ => Some w | OInit w _ => Some w | ORw w => Some w | ONotes => None
  | OBlob w _ _ => Some w
  end.

(* every object the program reads for update or writes belongs to worktree w *)
Definition confined (w : N) (p : program) : Prop :=
  forall st o, In st p -> touches st = Some o -> obj_wt o = Some w.

(* ------------------------------------------------------------------ witnesses *)
Definition wit_c1 : cpt := {| cp_id := 1; cp_entries := [(10, true)] |}.
Definition wit_c2 : cpt := {| cp_id := 2; cp_entries := [(11, true)] |}.
Definition wit_c3 : cpt := {| cp_id := 3; cp_entries := [(10, true); (12, true)] |}.
Definition wit_cp_progs : list program :=
  [append_checkpoint_prog 0 7 wit_c1; append_checkpoint_prog 0 7 wit_c2].
Definition wit_cp3_progs : list program :=
  [checkpoint_run 0 7 wit_c1; checkpoint_run 0 7 wit_c2; checkpoint_run 0 7 wit_c3].
Definition wit_ev_progs : list program := [append_event_prog 0 1; append_event_prog 0 2].
Definition wit_notes_progs : list program := [notes_add_prog 101 11; notes_add_prog 102 22].
(* commits in two linked worktrees 1 and 2 (different working logs and rewrite logs, same notes ref) *)
Definition wit_commit_progs : list program :=
  [commit_prog 1 7 101 1 11 []; commit_prog 2 7 102 2 22 []].
(* a commit and a checkpoint in the same worktree *)
Definition wit_commit_ckpt_progs : list program :=
  [commit_prog 0 7 101 1 11 []; checkpoint_run 0 7 wit_c2].
Definition wit_wt_progs : list program := [checkpoint_run 1 7 wit_c1; checkpoint_run 2 7 wit_c2].
Definition r1r2w1w2 : list nat := [0; 1; 0; 1]%nat.
(* two checkpoints that both snapshot the tracked, unchanged file with blob 5 = [1;2] (written by an
   earlier checkpoint) and read it back as the previous version *)
Definition wit_blob_progs : list program :=
  [checkpoint_run_full 0 7 wit_c1 [(5, [1; 2])] [5]; checkpoint_run_full 0 7 wit_c2 [(5, [1; 2])] [5]].
Definition wit_blob_store : store := upd (OBlob 0 7 5) (VBlob [1; 2]) empty_store.
Definition sched_torn_blob : list nat :=
  (repeat 1 5 ++ repeat 0 3 ++ [1] ++ repeat 0 5 ++ repeat 1 2)%nat.

(* for one schedule: the known class holds iff some executed append is missing at the end *)
Definition known_iff_lost (o : obj) (progs : list program) (sched : list nat) : bool :=
  let tr := trace_of progs sched in
  Bool.eqb (negb (stale_free tr))
           (negb (match lost o empty_store (run progs sched empty_store) tr with [] => true | _ => false end)).

(* what post_commit would be with a reset of the new commit's working log before seeding it *)
Definition wit_reset_progs : list program :=
  [[SAtomic (ResetCp 0 101); SAtomic (WriteInit 0 101 [3])]; checkpoint_run 0 101 wit_c2].
Definition sched_ckpt_then_seed : list nat := [1; 1; 1; 1; 0; 0]%nat.
