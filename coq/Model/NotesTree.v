(* Model/NotesTree.v -- the tree behind refs/notes/ai as git-ai writes and reads it (C05, part 1).
   Definitions only; proofs in Proofs/NotesTreeProofs.v.

   Source: /repo/src/git/refs.rs
     notes_path_for_object          -> notes_path_for_object (string level, with the slice panic)
                                       fanout_path           (the same as a list of path components)
     notes_add_batch / notes_add_blob_batch
                                    -> batch_write   (the fast-import command list: for every entry,
                                                       after deduplication, `D <sha>` (only when it differs
                                                       from the fan-out path), `D <aa>/<rest>`,
                                                       `M 100644 <blob> <aa>/<rest>`)
     note_blob_oids_for_commits     -> lookup        (cat-file --batch-check of `refs/notes/ai:<sha>` and
                                                       `refs/notes/ai:<aa>/<rest>`; the first that is a blob)
     get_authorship / show_authorship_note shell out to `git notes --ref=ai show`, i.e. git's own
     reader                         -> git_lookup

   A tree is a finite map from paths (lists of components, byte strings) to blobs.  Only blobs are
   stored; directories are implicit (git has no empty trees inside a tree).

   Facts about git that the model states and the system-level check validates on the real git
   (trees built with mktree / commit-tree / update-ref, read with `git notes show` / `git notes list`):
     G1  git's notes reader finds the note of object `sha` at ANY path whose directory components
         have two characters and whose concatenation is `sha` (git_lookup);
     G2  when two such paths exist, `git notes show` prints the concatenation of both blobs;
     G3  fast-import `D p` removes the entry p and everything below it, and is a no-op when p
         does not exist; `M 100644 b p` replaces whatever was at or below p and turns a blob that is
         a proper prefix of p into a directory. *)
From Coq Require Import PeanoNat.
From Verif Require Import Base.Str Gen.GenNotes.

Definition path := list str.
Definition blob := N.
Definition tree := list (path * blob).

Inductive outcome (A : Type) := Ok (a : A) | Panic.
Arguments Ok {A} a.
Arguments Panic {A}.

Definition c_slash : cp := 47.

(* ---------- notes_path_for_object (bytes of a UTF-8 string) ----------
   if oid.len() <= 2 { oid } else { format!("{}/{}", &oid[..2], &oid[2..]) }
   A str slice at a byte index that is not a char boundary panics. *)
Definition is_char_boundary_byte (b : N) : bool := negb ((128 <=? b) && (b <? 192)).

Definition notes_path_for_object (oid : str) : outcome str :=
  if (length oid <=? 2)%nat then Ok oid
  else match nth_error oid 2 with
       | Some b => if is_char_boundary_byte b
                   then Ok (firstn 2 oid ++ [c_slash] ++ skipn 2 oid)
                   else Panic
       | None => Ok oid
       end.

(* the same as path components *)
Definition fanout_path (sha : str) : path :=
  if (length sha <=? 2)%nat then [sha] else [firstn 2 sha; skipn 2 sha].

(* ---------- paths ---------- *)
Fixpoint path_eqb (p q : path) : bool :=
  match p, q with
  | [], [] => true
  | a :: p', b :: q' => str_eqb a b && path_eqb p' q'
  | _, _ => false
  end.

Fixpoint is_prefix (p q : path) : bool :=
  match p, q with
  | [], _ => true
  | a :: p', b :: q' => str_eqb a b && is_prefix p' q'
  | _ :: _, [] => false
  end.

(* the object a path annotates: the components without the slashes *)
Definition key (p : path) : str := concat p.

(* ---------- fast-import file commands (G3) ---------- *)
Definition fi_delete (p : path) (t : tree) : tree :=
  filter (fun e => negb (is_prefix p (fst e))) t.

Definition fi_modify (p : path) (b : blob) (t : tree) : tree :=
  filter (fun e => negb (is_prefix p (fst e)) && negb (is_prefix (fst e) p)) t ++ [(p, b)].

(* ---------- notes_add_batch ----------
   entries.iter().rev() / seen.insert / reverse: the last entry of every sha survives, in the
   order of those last occurrences *)
Fixpoint dedup_last (es : list (str * blob)) : list (str * blob) :=
  match es with
  | [] => []
  | e :: r => if existsb (fun e' => str_eqb (fst e') (fst e)) r then dedup_last r
              else e :: dedup_last r
  end.

(* deep_fanout_note_paths_for_object: <aa>/<bb>/<rest>, <aa>/<bb>/<cc>/<rest>, ... as components;
   split_dirs d s = d two-character directories followed by the rest *)
Fixpoint split_dirs (d : nat) (s : str) : path :=
  match d with
  | O => [s]
  | S d' => firstn 2 s :: split_dirs d' (skipn 2 s)
  end.

(* dirs = 2, 3, ... while oid.len() > dirs * 2 *)
Definition deep_paths (sha : str) : list path :=
  map (fun d => split_dirs d sha) (seq 2 (Nat.div (length sha - 1) 2 - 1)).

(* the D commands of one entry.  all = GenNotes.gn_all_layouts: the deeper fan-out forms are deleted
   (and probed by the lookup) as well; false = the code before that repair *)
Definition delete_paths (all : bool) (sha : str) : list path :=
  (if path_eqb [sha] (fanout_path sha) then [] else [[sha]]) ++ [fanout_path sha]
  ++ (if all then deep_paths sha else []).

Definition write_one_with (all : bool) (t : tree) (e : str * blob) : tree :=
  fi_modify (fanout_path (fst e)) (snd e)
            (fold_left (fun t' p => fi_delete p t') (delete_paths all (fst e)) t).

Definition batch_write_with (all : bool) (t : tree) (es : list (str * blob)) : tree :=
  fold_left (write_one_with all) (dedup_last es) t.

Definition write_one := write_one_with gn_all_layouts.
Definition batch_write := batch_write_with gn_all_layouts.

(* ---------- note_blob_oids_for_commits ---------- *)
Definition find_blob (t : tree) (p : path) : option blob :=
  match find (fun e => path_eqb (fst e) p) t with
  | Some e => Some (snd e)
  | None => None
  end.

Fixpoint first_blob (t : tree) (ps : list path) : option blob :=
  match ps with
  | [] => None
  | p :: r => match find_blob t p with Some b => Some b | None => first_blob t r end
  end.

Definition probe_paths (all : bool) (sha : str) : list path :=
  [sha] :: fanout_path sha :: (if all then deep_paths sha else []).

Definition lookup_with (all : bool) (t : tree) (sha : str) : option blob :=
  first_blob t (probe_paths all sha).

Definition lookup := lookup_with gn_all_layouts.

(* ---------- git's own reader (G1, G2) ---------- *)
Definition is_nil {A} (l : list A) : bool := match l with [] => true | _ => false end.

Definition git_path_ok (p : path) : bool :=
  negb (is_nil p) && forallb (fun c => (length c =? 2)%nat) (removelast p).

Definition git_lookup (t : tree) (sha : str) : list blob :=
  map snd (filter (fun e => git_path_ok (fst e) && str_eqb (key (fst e)) sha) t).

Definition opt_list {A} (o : option A) : list A := match o with Some a => [a] | None => [] end.

(* ---------- invariants ---------- *)
Fixpoint str_mem (s : str) (l : list str) : bool :=
  match l with [] => false | x :: r => str_eqb x s || str_mem s r end.

Fixpoint nodup_strs (l : list str) : bool :=
  match l with [] => true | x :: r => negb (str_mem x r) && nodup_strs r end.

Definition keys (t : tree) : list str := map (fun e => key (fst e)) t.

(* exactly one entry per annotated object *)
Definition unique_keys (t : tree) : Prop := NoDup (keys t).
Definition unique_keysb (t : tree) : bool := nodup_strs (keys t).

(* fan-out depth at most one: `<sha>` or `<aa>/<rest>` *)
Definition path_le1 (p : path) : bool :=
  match p with
  | [_] => true
  | [a; b] => (length a =? 2)%nat && negb (is_nil b)
  | _ => false
  end.

Definition layout_le1 (t : tree) : bool := forallb (fun e => path_le1 (fst e)) t.

(* any layout git's reader accepts: two-character directories, a non-empty last component *)
Definition path_ok (p : path) : bool :=
  match p with
  | [] => false
  | [_] => true
  | _ => git_path_ok p && negb (is_nil (last p []))
  end.

Definition layout_ok (t : tree) : bool := forallb (fun e => path_ok (fst e)) t.

(* every annotated object name is longer than a fan-out directory name (true of hex object ids) *)
Definition long_keys (t : tree) : bool := forallb (fun e => (2 <? length (key (fst e)))%nat) t.

(* the class of trees on which the code before the repair (gn_all_layouts = false) went wrong: some
   note sits deeper than one fan-out level (git does this on its own once the notes ref holds some
   65 000 notes) *)
Definition Known_C05_fanout (t : tree) : bool := negb (layout_le1 t).

(* ---------- witnesses ---------- *)
(* object id abcdef (in ASCII), stored two levels deep as ab/cd/ef *)
Definition w_sha : str := [97; 98; 99; 100; 101; 102].
Definition w_tree2 : tree := [([[97; 98]; [99; 100]; [101; 102]], 1)].
