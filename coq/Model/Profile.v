(* Model/Profile.v — the internal-git "profile" machinery of git-ai and a small format semantics
   of the git options / configuration keys that change the text git-ai parses (C12).
   Definitions only.

   PART 1 follows /repo/src/git/repository.rs: first_git_subcommand_index, strip_profile_conflicts
   (with its should_drop closure and the split-argument rule), profile_options,
   args_with_internal_git_profile, args_with_disabled_hooks_if_needed, global_args_for_exec and the
   normalisation of the global args in find_repository.  Every table is taken from
   Gen/GenProfile.v (regenerated from the source); the translator also compares the control
   skeleton of each function with the text this model was written from.  None of these functions
   can panic: every index is guarded (args[index] by index < args.len(); args[..=command_index]
   and args[command_index + 1..] by command_index < args.len(), which first_git_subcommand_index
   guarantees), so there is no Panic outcome.

   Shape: the Rust loops walk an index that advances by one or two; the model walks the list
   with a `skip` flag (first_git_subcommand_index) or consumes two elements (split-argument rule).
   `find_sub` returns the three slices the callers use: args[..ci], args[ci], args[ci+1..].

   PART 2 is the TRUSTED git-side table (from git 2.39 documentation: git-diff(1), git-config(1),
   diff.c): which command-line tokens and which configuration keys set which component of the
   output format, resolved as "last matching command-line option, else the configuration key
   (when the command reads it), else git's default".  It is validated by the metamorphic runs of
   vlib/c12.py, not proved.

   PART 3 classifies the generated inventory of internal invocations (Gen/GenInternalGit.v). *)
From Coq Require Import List NArith Bool.
From Coq Require Import Init.Byte Strings.Byte.
From Verif Require Import Base.Str Gen.GenProfile Gen.GenInternalGit Gen.GenStateProbes.
Import ListNotations.
Open Scope N_scope.

(* ASCII literals for the hand-written git-side tables: "--color"%lit is a list of bytes, s2l turns it
   into code points.  (A private literal type rather than Coq's string: the extracted module is opened
   in front of prelude.ml, where a type called string would shadow OCaml's.) *)
Inductive lit := Lit (bs : list byte).
Definition lit_of_bytes (bs : list byte) : lit := Lit bs.
Definition bytes_of_lit (l : lit) : list byte := match l with Lit bs => bs end.
Declare Scope lit_scope.
Delimit Scope lit_scope with lit.
Bind Scope lit_scope with lit.
String Notation lit lit_of_bytes bytes_of_lit : lit_scope.

Definition s2l (x : lit) : str := map Byte.to_N (bytes_of_lit x).
Arguments s2l x%lit.

Definition dd : str := [45; 45].                      (* the token -- *)
Definition c_eqs : cp := 61.

(* str::starts_with(p) *)
Fixpoint starts_with (p s : str) : bool :=
  match p, s with
  | [], _ => true
  | x :: p', y :: s' => (x =? y) && starts_with p' s'
  | _ :: _, [] => false
  end.

(* s.strip_prefix(p) *)
Fixpoint strip_prefix (p s : str) : option str :=
  match p, s with
  | [], _ => Some s
  | x :: p', y :: s' => if x =? y then strip_prefix p' s' else None
  | _ :: _, [] => None
  end.

Definition mem_str (s : str) (l : list str) : bool := existsb (str_eqb s) l.

(* ================================================================================ PART 1 *)

Inductive profile := General | PatchParse | NumstatParse | RawDiffParse.

Definition profile_eqb (a b : profile) : bool :=
  match a, b with
  | General, General | PatchParse, PatchParse | NumstatParse, NumstatParse | RawDiffParse, RawDiffParse => true
  | _, _ => false
  end.

Definition profile_index (p : profile) : N :=
  match p with General => 0 | PatchParse => 1 | NumstatParse => 2 | RawDiffParse => 3 end.

Definition profile_of_index (n : N) : profile :=
  if n =? 1 then PatchParse else if n =? 2 then NumstatParse else if n =? 3 then RawDiffParse else General.

(* fn profile_options *)
Definition profile_options (p : profile) : list str :=
  match p with
  | General => gen_pins_General
  | PatchParse => gen_pins_PatchParse
  | NumstatParse => gen_pins_NumstatParse
  | RawDiffParse => gen_pins_RawDiffParse
  end.

Definition drop_exact (p : profile) : list str :=
  match p with
  | General => gen_drop_exact_General
  | PatchParse => gen_drop_exact_PatchParse
  | NumstatParse => gen_drop_exact_NumstatParse
  | RawDiffParse => gen_drop_exact_RawDiffParse
  end.

Definition drop_prefix (p : profile) : list str :=
  match p with
  | General => gen_drop_prefix_General
  | PatchParse => gen_drop_prefix_PatchParse
  | NumstatParse => gen_drop_prefix_NumstatParse
  | RawDiffParse => gen_drop_prefix_RawDiffParse
  end.

(* the should_drop closure: a disjunction of `arg == lit` and `arg.starts_with(lit)` tests *)
Definition should_drop (p : profile) (a : str) : bool :=
  mem_str a (drop_exact p) || existsb (fun pre => starts_with pre a) (drop_prefix p).

(* matches!(profile, InternalGitProfile::PatchParse) && (args[index] == "--src-prefix" || ...) *)
Definition is_split_opt (p : profile) (a : str) : bool :=
  (profile_index p =? gen_split_profile_index) && mem_str a gen_split_opts.

(* arg.starts_with('-') *)
Definition is_dash (a : str) : bool := first_is c_dash a.

(* the matches! table of first_git_subcommand_index, parameterised so that git's own table can be
   plugged in (PART 2) *)
Definition takes_value_in (tbl : list str) (a : str) : bool := mem_str a tbl.

(* first_git_subcommand_index as the three slices (args[..ci], args[ci], args[ci+1..]).
   skip = the previous token was a value-taking global option (index += 2). *)
Fixpoint find_sub_with (tbl : list str) (args : list str) (skip : bool) : option (list str * str * list str) :=
  match args with
  | [] => None
  | a :: rest =>
      if skip then
        match find_sub_with tbl rest false with
        | Some (g, s, r) => Some (a :: g, s, r)
        | None => None
        end
      else if negb (is_dash a) then Some ([], a, rest)
      else
        match find_sub_with tbl rest (takes_value_in tbl a) with
        | Some (g, s, r) => Some (a :: g, s, r)
        | None => None
        end
  end.

Definition find_sub (args : list str) : option (list str * str * list str) :=
  find_sub_with gen_value_globals args false.

Definition first_git_subcommand_index (args : list str) : option nat :=
  match find_sub args with Some (g, _, _) => Some (List.length g) | None => None end.

(* the while loop of strip_profile_conflicts over args[command_index + 1..] *)
Fixpoint strip_tail (p : profile) (r : list str) : list str :=
  match r with
  | [] => []
  | a :: r' =>
      if str_eqb a dd then a :: r'
      else if negb (should_drop p a) then a :: strip_tail p r'
      else if is_split_opt p a then
        match r' with
        | [] => []
        | b :: r'' => if str_eqb b dd then strip_tail p r' else strip_tail p r''
        end
      else strip_tail p r'
  end.

Definition strip_profile_conflicts (p : profile) (args : list str) : list str :=
  if profile_eqb p General then args
  else match find_sub args with
       | None => args
       | Some (g, s, r) => g ++ s :: strip_tail p r
       end.

(* tokens before the first `--` *)
Fixpoint before_dd (r : list str) : list str :=
  match r with
  | [] => []
  | a :: r' => if str_eqb a dd then [] else a :: before_dd r'
  end.

Definition is_nil {A} (l : list A) : bool := match l with [] => true | _ => false end.

(* let present = &args[command_index + 1..options_end];   (options_end = the first `--` or the end)
   for option in options { if !present.iter().any(|arg| arg == option) { out.push(option) } } *)
Definition missing_pins (p : profile) (present : list str) : list str :=
  filter (fun o => negb (mem_str o present)) (profile_options p).

Definition args_with_internal_git_profile (p : profile) (args : list str) : list str :=
  if profile_eqb p General then args
  else
    let a1 := strip_profile_conflicts p args in
    match find_sub a1 with
    | None => a1
    | Some (g, s, r) =>
        if is_nil (profile_options p) then a1
        else g ++ s :: missing_pins p (before_dd r) ++ r
    end.

(* args.windows(2).any(|pair| pair[0] == "-c" && pair[1].starts_with("core.hooksPath=")) *)
Fixpoint windows2_any (args : list str) : bool :=
  match args with
  | a :: ((b :: _) as rest) =>
      (str_eqb a gen_hooks_flag && starts_with gen_hooks_key_eq b) || windows2_any rest
  | _ => false
  end.

Definition already_overrides_hooks (args : list str) : bool :=
  windows2_any args
  || existsb (fun a => starts_with gen_hooks_sticky a || starts_with gen_hooks_long a) args.

(* disabled = should_disable_internal_git_hooks() (a thread-local / global counter) *)
Definition args_with_disabled_hooks_if_needed (disabled : bool) (args : list str) : list str :=
  if negb disabled then args
  else if already_overrides_hooks args then args
  else gen_hooks_flag :: (gen_hooks_key_eq ++ gen_null_hooks_path) :: args.

(* exec_git_with_profile: the argv handed to the git process *)
Definition effective_args (disabled : bool) (p : profile) (args : list str) : list str :=
  args_with_internal_git_profile p (args_with_disabled_hooks_if_needed disabled args).

(* Repository::global_args_for_exec *)
Definition global_args_for_exec (global_args : list str) : list str :=
  if mem_str gen_exec_global_opt global_args then global_args else global_args ++ [gen_exec_global_opt].

(* Path::is_relative / PathBuf::join on Unix, on the textual level (no normalisation of `..`) *)
Definition c_slash : cp := 47.
Definition path_is_relative (v : str) : bool := negb (first_is c_slash v).
Definition path_join (base v : str) : str :=
  if path_is_relative v then (if last_is c_slash base then base ++ v else base ++ c_slash :: v) else v.

Definition path_opts : list str := gen_path_opts.

(* the `--opt=value` arm of absolutize_git_dir_and_work_tree for one token *)
Fixpoint absolutize_eq (base : str) (opts : list str) (a : str) : str :=
  match opts with
  | [] => a
  | o :: opts' =>
      match strip_prefix (o ++ [c_eqs]) a with
      | Some v => if path_is_relative v then o ++ c_eqs :: path_join base v else a
      | None => absolutize_eq base opts' a
      end
  end.

(* fn absolutize_git_dir_and_work_tree: the loop visits every index; at an exact `--git-dir` /
   `--work-tree` it rewrites the NEXT token (which is then visited in its rewritten form).
   prev = the previous (possibly rewritten) token was such an exact option. *)
Fixpoint absolutize (base : str) (args : list str) (prev : bool) : list str :=
  match args with
  | [] => []
  | a :: rest =>
      let a1 := if prev && path_is_relative a then path_join base a else a in
      let exact := mem_str a1 path_opts in
      (if exact then a1 else absolutize_eq base path_opts a1) :: absolutize base rest exact
  end.

(* fn resolve_command_base_dir: the directory the user's `-C` options lead to.  cwd = the process working
   directory, None when std::env::current_dir() fails (the directory was removed); it is consulted only
   while no absolute `-C` has been seen (base = None).  None = Err (missing path after -C, or the
   working directory is needed and unavailable). *)
Fixpoint resolve_base_from (cwd base : option str) (ga : list str) : option str :=
  match ga with
  | [] => match base with Some b => Some b | None => cwd end
  | f :: rest =>
      if str_eqb f gen_norm_flag then
        match rest with
        | [] => None                                  (* Missing path after -C *)
        | p :: rest' =>
            if path_is_relative p then
              match base with
              | Some cur => resolve_base_from cwd (Some (path_join cur p)) rest'
              | None => match cwd with
                        | Some d => resolve_base_from cwd (Some (path_join d p)) rest'
                        | None => None                (* current_dir() failed *)
                        end
              end
            else resolve_base_from cwd (Some p) rest'
        end
      else resolve_base_from cwd base rest
  end.

Definition resolve_command_base_dir (cwd : option str) (ga : list str) : option str :=
  resolve_base_from cwd None ga.

(* the `names` closure: some argument is the option itself or option=value *)
Definition names_opt (o : str) (ga : list str) : bool :=
  existsb (fun a => match strip_prefix o a with
                    | Some rest => is_nil rest || first_is c_eqs rest
                    | None => false
                    end) ga.

(* find_repository: normalisation of the user's global args; root = the work tree (or git dir),
   base = resolve_command_base_dir, git_dir_raw = the --git-dir line of rev-parse (joined to base when
   relative).  [] and [-C x] become [-C root]; every other shape keeps its options (relative
   --git-dir / --work-tree made absolute; a --work-tree without --git-dir gets the discovered git dir)
   and gets a final `-C root`. *)
Definition other_shape_args (ga : list str) (root base git_dir_raw : str) : list str :=
  absolutize base ga false
  ++ (if names_opt (s2l "--work-tree") ga && negb (names_opt (s2l "--git-dir") ga)
      then [s2l "--git-dir=" ++ path_join base git_dir_raw] else [])
  ++ [gen_norm_flag; root].

Definition normalize_global_args (global_args : list str) (root base git_dir_raw : str) : list str :=
  match global_args with
  | [] => [gen_norm_flag; root]
  | [f; x] =>
      if str_eqb f gen_norm_flag then (if negb (str_eqb x root) then [f; root] else global_args)
      else other_shape_args global_args root base git_dir_raw
  | _ => other_shape_args global_args root base git_dir_raw
  end.

Definition normalised_shape (global_args : list str) : bool :=
  match global_args with
  | [] => true
  | [f; _] => str_eqb f gen_norm_flag
  | _ => false
  end.

(* git's side of `-C`: where a git process started in cur ends up (git.c handle_options) *)
Fixpoint final_dir (tbl : list str) (cur : str) (ga : list str) (skip : bool) : str :=
  match ga with
  | [] => cur
  | a :: rest =>
      if skip then final_dir tbl cur rest false
      else if str_eqb a gen_norm_flag then
        match rest with
        | [] => cur
        | p :: rest' => final_dir tbl (path_join cur p) rest' false
        end
      else final_dir tbl cur rest (takes_value_in tbl a)
  end.

(* ================================================================================ PART 2 *)
(* TRUSTED: git's side.  Components of the output format that change the text git-ai parses. *)

Inductive comp :=
  | CExtDiff | CTextconv | CSrcPrefix | CDstPrefix | CRelative | CColor | CAlgorithm | CIndent
  | CInterHunk | CRenames | CContext | CWordDiff | CQuotePath.

Definition all_comps : list comp :=
  [CExtDiff; CTextconv; CSrcPrefix; CDstPrefix; CRelative; CColor; CAlgorithm; CIndent;
   CInterHunk; CRenames; CContext; CWordDiff; CQuotePath].

Definition comp_eqb (a b : comp) : bool :=
  match a, b with
  | CExtDiff, CExtDiff | CTextconv, CTextconv | CSrcPrefix, CSrcPrefix | CDstPrefix, CDstPrefix
  | CRelative, CRelative | CColor, CColor | CAlgorithm, CAlgorithm | CIndent, CIndent
  | CInterHunk, CInterHunk | CRenames, CRenames | CContext, CContext | CWordDiff, CWordDiff
  | CQuotePath, CQuotePath => true
  | _, _ => false
  end.

Definition v_on : str := s2l "on".
Definition v_off : str := s2l "off".

(* one row of the option table: how a single command-line token sets a component *)
Inductive matcher :=
  | MExact (tok : str) (v : str)            (* the token itself -> value v *)
  | MPrefixVal (pre : str)                  (* pre ++ v -> value v (v may be empty) *)
  | MPrefixConst (pre : str) (v : str).     (* any token starting with pre -> value v *)

Definition matcher_effect (m : matcher) (t : str) : option str :=
  match m with
  | MExact tok v => if str_eqb t tok then Some v else None
  | MPrefixVal pre => strip_prefix pre t
  | MPrefixConst pre v => if starts_with pre t then Some v else None
  end.

(* git-diff(1) of git 2.39: single-token options, per component; first matching row *)
Definition opt_table (c : comp) : list matcher :=
  match c with
  | CExtDiff => [MExact (s2l "--ext-diff") v_on; MExact (s2l "--no-ext-diff") v_off]
  | CTextconv => [MExact (s2l "--textconv") v_on; MExact (s2l "--no-textconv") v_off]
  | CSrcPrefix => [MPrefixVal (s2l "--src-prefix="); MExact (s2l "--no-prefix") []]
  | CDstPrefix => [MPrefixVal (s2l "--dst-prefix="); MExact (s2l "--no-prefix") []]
  | CRelative => [MExact (s2l "--relative") v_on; MPrefixConst (s2l "--relative=") v_on;
                  MExact (s2l "--no-relative") v_off]
  | CColor => [MExact (s2l "--color") (s2l "always"); MPrefixVal (s2l "--color=");
               MExact (s2l "--no-color") (s2l "never")]
  | CAlgorithm => [MPrefixVal (s2l "--diff-algorithm="); MExact (s2l "--patience") (s2l "patience");
                   MExact (s2l "--histogram") (s2l "histogram"); MExact (s2l "--minimal") (s2l "minimal");
                   MPrefixConst (s2l "--anchored=") (s2l "anchored")]
  | CIndent => [MExact (s2l "--indent-heuristic") v_on; MExact (s2l "--no-indent-heuristic") v_off]
  | CInterHunk => [MPrefixVal (s2l "--inter-hunk-context=")]
  | CRenames => [MExact (s2l "--no-renames") v_off;
                 MExact (s2l "--find-copies-harder") (s2l "copies");
                 MExact (s2l "--find-renames") (s2l "renames"); MPrefixConst (s2l "--find-renames=") (s2l "renames");
                 MExact (s2l "--find-copies") (s2l "copies"); MPrefixConst (s2l "--find-copies=") (s2l "copies");
                 MPrefixConst (s2l "-M") (s2l "renames"); MPrefixConst (s2l "-C") (s2l "copies")]
  | CContext => [MPrefixVal (s2l "--unified="); MPrefixVal (s2l "-U");
                 MExact (s2l "-W") (s2l "function"); MExact (s2l "--function-context") (s2l "function")]
  | CWordDiff => [MExact (s2l "--word-diff") (s2l "plain"); MPrefixVal (s2l "--word-diff=");
                  MExact (s2l "--color-words") (s2l "color"); MPrefixConst (s2l "--color-words=") (s2l "color")]
  | CQuotePath => [MExact (s2l "-z") (s2l "nul")]
  end.

Fixpoint first_effect (ms : list matcher) (t : str) : option str :=
  match ms with
  | [] => None
  | m :: ms' => match matcher_effect m t with Some v => Some v | None => first_effect ms' t end
  end.

Definition tok_effect (c : comp) (t : str) : option str := first_effect (opt_table c) t.

(* options of the diff family whose value may be given as the NEXT token (parse-options accepts the
   separate form for every option with a mandatory argument) *)
Definition sep_value_opts : list str :=
  map s2l ["--src-prefix"; "--dst-prefix"; "--inter-hunk-context"; "--diff-algorithm"; "--anchored";
           "--line-prefix"; "--output"; "--output-indicator-new"; "--output-indicator-old";
           "--output-indicator-context"; "--ws-error-highlight"; "--skip-to"; "--rotate-to";
           "--diff-filter"; "--submodule"; "--stat-width"; "--stat-name-width"; "--stat-count";
           "--stat-graph-width"; "--abbrev"; "--word-diff-regex"; "--ignore-matching-lines";
           "-O"; "-S"; "-G"; "-I"; "-l"]%lit.

Definition is_sep_value (t : str) : bool := mem_str t sep_value_opts.

(* effect of `opt value` given as two tokens *)
Definition split_effect (c : comp) (t v : str) : option str :=
  match c with
  | CSrcPrefix => if str_eqb t (s2l "--src-prefix") then Some v else None
  | CDstPrefix => if str_eqb t (s2l "--dst-prefix") then Some v else None
  | CInterHunk => if str_eqb t (s2l "--inter-hunk-context") then Some v else None
  | CAlgorithm => if str_eqb t (s2l "--diff-algorithm") then Some v
                  else if str_eqb t (s2l "--anchored") then Some (s2l "anchored") else None
  | _ => None
  end.

Definition upd (cur new : option str) : option str :=
  match new with Some v => Some v | None => cur end.

(* last matching option wins: left-to-right scan of the option region *)
Fixpoint scan (c : comp) (toks : list str) (cur : option str) : option str :=
  match toks with
  | [] => cur
  | t :: rest =>
      if is_sep_value t then
        match rest with
        | [] => cur                                    (* git: option requires a value *)
        | v :: rest' => scan c rest' (upd cur (split_effect c t v))
        end
      else scan c rest (upd cur (tok_effect c t))
  end.

(* from the first `--` on (inclusive) *)
Fixpoint from_dd (r : list str) : list str :=
  match r with
  | [] => []
  | a :: r' => if str_eqb a dd then r else from_dd r'
  end.

(* configuration: (canonical lower-case key, value), later entries win *)
Definition config := list (str * str).

Fixpoint cfg_get (cfg : config) (k : str) : option str :=
  match cfg with
  | [] => None
  | (k', v) :: cfg' => match cfg_get cfg' k with
                       | Some w => Some w
                       | None => if str_eqb k k' then Some v else None
                       end
  end.

Definition lower1 (c : cp) : cp := if (65 <=? c) && (c <=? 90) then c + 32 else c.

(* `-c key=value` before the subcommand (value-less form `-c key` means true) *)
Fixpoint dash_c_pairs (g : list str) : config :=
  match g with
  | [] => []
  | f :: rest =>
      match rest with
      | [] => []
      | kv :: rest' =>
          if str_eqb f (s2l "-c") then
            match split_first c_eqs kv with
            | Some (k, v) => (map lower1 k, v) :: dash_c_pairs rest'
            | None => (map lower1 kv, s2l "true") :: dash_c_pairs rest'
            end
          else dash_c_pairs rest
      end
  end.

Definition cfg_true (v : str) : bool :=
  let l := map lower1 v in
  mem_str l (map s2l ["true"; "yes"; "on"; "1"]%lit).

Definition cfg_bool (cfg : config) (k : lit) : option bool :=
  match cfg_get cfg (s2l k) with Some v => Some (cfg_true v) | None => None end.

Definition cfg_color_value (v : str) : str :=
  let l := map lower1 v in
  if str_eqb l (s2l "always") then s2l "always"
  else if mem_str l (map s2l ["never"; "false"; "no"; "off"; "0"]%lit) then s2l "never"
  else s2l "auto".

(* what the configuration says about a component (git-config(1), diff.c git_diff_ui_config) *)
Definition cfg_effect (c : comp) (cfg : config) : option str :=
  match c with
  | CExtDiff | CTextconv | CWordDiff => None      (* configuration names the programs, it does not allow them *)
  | CSrcPrefix =>
      match cfg_bool cfg "diff.noprefix" with
      | Some true => Some []
      | _ => match cfg_bool cfg "diff.mnemonicprefix" with
             | Some true => Some (s2l "<mnemonic-src>")
             | _ => None
             end
      end
  | CDstPrefix =>
      match cfg_bool cfg "diff.noprefix" with
      | Some true => Some []
      | _ => match cfg_bool cfg "diff.mnemonicprefix" with
             | Some true => Some (s2l "<mnemonic-dst>")
             | _ => None
             end
      end
  | CRelative => match cfg_bool cfg "diff.relative" with Some true => Some v_on | Some false => Some v_off | None => None end
  | CColor =>
      match cfg_get cfg (s2l "color.diff") with
      | Some v => Some (cfg_color_value v)
      | None => match cfg_get cfg (s2l "color.ui") with
                | Some v => Some (cfg_color_value v)
                | None => None
                end
      end
  | CAlgorithm => cfg_get cfg (s2l "diff.algorithm")
  | CIndent => match cfg_bool cfg "diff.indentheuristic" with Some true => Some v_on | Some false => Some v_off | None => None end
  | CInterHunk => cfg_get cfg (s2l "diff.interhunkcontext")
  | CRenames =>
      match cfg_get cfg (s2l "diff.renames") with
      | Some v => if mem_str (map lower1 v) (map s2l ["copies"; "copy"]%lit) then Some (s2l "copies")
                  else if cfg_true v then Some (s2l "renames") else Some v_off
      | None => None
      end
  | CContext => cfg_get cfg (s2l "diff.context")
  | CQuotePath => match cfg_bool cfg "core.quotepath" with Some false => Some (s2l "raw") | Some true => Some (s2l "quoted") | None => None end
  end.

(* diff plumbing reads only git_diff_basic_config *)
Definition is_plumbing (sub : str) : bool :=
  mem_str sub (map s2l ["diff-tree"; "diff-index"; "diff-files"]%lit).

Definition cfg_applies (sub : str) (c : comp) : bool :=
  if is_plumbing sub then match c with CIndent | CQuotePath => true | _ => false end else true.

Definition default_val (sub : str) (c : comp) : str :=
  match c with
  | CExtDiff => if str_eqb sub (s2l "diff") then v_on else v_off
  | CTextconv => if is_plumbing sub then v_off else v_on
  | CSrcPrefix => s2l "a/"
  | CDstPrefix => s2l "b/"
  | CRelative => v_off
  | CColor => s2l "auto"
  | CAlgorithm => s2l "default"
  | CIndent => v_on
  | CInterHunk => s2l "0"
  | CRenames => if is_plumbing sub then v_off else s2l "renames"
  | CContext => s2l "3"
  | CWordDiff => s2l "none"
  | CQuotePath => s2l "quoted"
  end.

(* git 2.39 git.c handle_options: the global options that take their value in the next token *)
Definition git_value_globals : list str :=
  map s2l ["-C"; "-c"; "--git-dir"; "--work-tree"; "--namespace"; "--super-prefix"; "--config-env"]%lit.

(* the resolved value of component c for the command line argv under configuration cfg *)
Definition effective (cfg : config) (argv : list str) (c : comp) : option str :=
  match find_sub_with git_value_globals argv false with
  | None => None                                       (* no subcommand: nothing is printed *)
  | Some (g, sub, r) =>
      match scan c (before_dd r) None with
      | Some v => Some v
      | None =>
          match (if cfg_applies sub c then cfg_effect c (cfg ++ dash_c_pairs g) else None) with
          | Some v => Some v
          | None => Some (default_val sub c)
          end
      end
  end.

Record fmt := mk_fmt {
  f_ext_diff : option str; f_textconv : option str; f_src_prefix : option str; f_dst_prefix : option str;
  f_relative : option str; f_color : option str; f_algorithm : option str; f_indent : option str;
  f_inter_hunk : option str; f_renames : option str; f_context : option str; f_word_diff : option str;
  f_quote_path : option str }.

Definition fmt_of (f : comp -> option str) : fmt :=
  mk_fmt (f CExtDiff) (f CTextconv) (f CSrcPrefix) (f CDstPrefix) (f CRelative) (f CColor) (f CAlgorithm)
         (f CIndent) (f CInterHunk) (f CRenames) (f CContext) (f CWordDiff) (f CQuotePath).

Definition fmt_get (x : fmt) (c : comp) : option str :=
  match c with
  | CExtDiff => f_ext_diff x | CTextconv => f_textconv x | CSrcPrefix => f_src_prefix x
  | CDstPrefix => f_dst_prefix x | CRelative => f_relative x | CColor => f_color x
  | CAlgorithm => f_algorithm x | CIndent => f_indent x | CInterHunk => f_inter_hunk x
  | CRenames => f_renames x | CContext => f_context x | CWordDiff => f_word_diff x
  | CQuotePath => f_quote_path x
  end.

Definition effective_fmt (cfg : config) (argv : list str) : fmt := fmt_of (effective cfg argv).

(* what the pinned options of a profile set, by the same table: None = not pinned by the profile *)
Definition canonical (p : profile) (c : comp) : option str := scan c (profile_options p) None.
Definition canonical_fmt (p : profile) : fmt := fmt_of (canonical p).

Definition pinned_comps (p : profile) : list comp :=
  filter (fun c => match canonical p c with Some _ => true | None => false end) all_comps.

(* agreement on the components the profile pins *)
Definition fmt_agree_on (cs : list comp) (a b : fmt) : Prop :=
  forall c, In c cs -> fmt_get a c = fmt_get b c.

(* the pager: a global option, not part of the profile *)
Fixpoint pager_of_globals (g : list str) (cur : option bool) : option bool :=
  match g with
  | [] => cur
  | a :: g' =>
      if mem_str a (map s2l ["--no-pager"; "-P"]%lit) then pager_of_globals g' (Some false)
      else if mem_str a (map s2l ["-p"; "--paginate"]%lit) then pager_of_globals g' (Some true)
      else pager_of_globals g' cur
  end.

(* a token is tame for profile p: it does not take a separate value and, for every component the
   profile pins, it either does not touch the component or sets the canonical value *)
Definition tame_for (p : profile) (c : comp) (t : str) : bool :=
  match canonical p c, tok_effect c t with
  | Some v, Some w => str_eqb w v
  | _, _ => true
  end.

Definition tame (p : profile) (t : str) : bool :=
  negb (is_sep_value t) && forallb (fun c => tame_for p c t) all_comps.

(* the pinned options of a profile are well formed: dash options, not `--`, single-token, and
   mutually consistent (each is tame for the canonical values the others set) *)
Definition pins_wf (p : profile) : bool :=
  forallb (fun o => is_dash o && negb (str_eqb o dd) && tame p o) (profile_options p).

(* decidable form of the hypothesis of C12_profile_pins (Proofs: survivors_tame_b_spec) *)
Definition survivors_tame_b (p : profile) (r : list str) : bool :=
  forallb (fun t => should_drop p t || tame p t) (before_dd r).

(* (subcommand found, survivors tame) of an argument vector *)
Definition hyps_b (p : profile) (args : list str) : bool * bool :=
  match find_sub args with
  | None => (false, false)
  | Some (_, _, r) => (true, survivors_tame_b p r)
  end.

(* ================================================================================ PART 3 *)
(* The inventory of internal invocations and what each parser needs. *)

Definition lit_of (i : inv_item) : option str := match i with ILit s => Some s | _ => None end.

(* items after the global args *)
Fixpoint strip_globals (its : list inv_item) : list inv_item :=
  match its with
  | IGlobals :: r => strip_globals r
  | _ => its
  end.

(* literal `-c <dyn>` / `-C <dyn>` / `--no-pager` pairs before the subcommand of array-literal calls *)
Fixpoint inv_sub (its : list inv_item) (skip : bool) : option (str * list inv_item) :=
  match its with
  | [] => None
  | i :: r =>
      if skip then inv_sub r false
      else match i with
           | IGlobals => inv_sub r false
           | ILit s => if is_dash s then inv_sub r (takes_value_in gen_value_globals s) else Some (s, r)
           | _ => None
           end
  end.

(* literal tokens of the option region (before a literal `--`); computed tokens there are revisions
   and object names (residual assumption: they never start with a dash) *)
Fixpoint inv_region_lits (its : list inv_item) : list str :=
  match its with
  | [] => []
  | ILit s :: r => if str_eqb s dd then [] else s :: inv_region_lits r
  | _ :: r => inv_region_lits r
  end.

Definition has_lit (l : list str) (s : lit) : bool := mem_str (s2l s) l.
Definition has_lit_prefix (l : list str) (s : lit) : bool := existsb (starts_with (s2l s)) l.

Inductive parser_kind :=
  | PKPatch        (* unified diff text: parse_diff_added_lines / parse_diff_hunks *)
  | PKNumstat      (* added TAB deleted TAB path lines *)
  | PKPathList     (* --name-only / --name-status / --raw records *)
  | PKBlame        (* git blame --line-porcelain *)
  | PKStatus       (* git status --porcelain=v2 *)
  | PKGrep         (* git grep -n: path:line:text records *)
  | PKFormatted    (* log/show/for-each-ref/rev-list with an explicit --format/--pretty *)
  | PKOpaque.      (* object names, exit codes, blobs, refs: no user-configurable formatting *)

Definition diff_family (sub : str) : bool :=
  mem_str sub (map s2l ["diff"; "show"; "log"; "diff-tree"; "diff-index"; "diff-files"; "whatchanged"]%lit).

(* `git show <rev>:<path>` / `git show :<path>`: the first computed operand is a template with a colon;
   the blob is streamed as is (textconv only with an explicit --textconv) *)
Definition is_blob_spec (rest : list inv_item) : bool :=
  match rest with
  | IHead t :: _ => mem 58 t
  | _ => false
  end.

Definition classify_entry (sub : str) (lits : list str) (rest : list inv_item) : parser_kind :=
  if diff_family sub then
    if has_lit lits "--numstat" then PKNumstat
    else if has_lit lits "--name-only" || has_lit lits "--name-status" || has_lit lits "--raw" then PKPathList
    else if str_eqb sub (s2l "diff") || has_lit lits "--patch" || has_lit lits "-p" || has_lit_prefix lits "-U" then PKPatch
    else if has_lit_prefix lits "--format=" || has_lit_prefix lits "--pretty=" || has_lit lits "--oneline" then PKFormatted
    else if str_eqb sub (s2l "show") && is_nil lits && is_blob_spec rest then PKOpaque
    else PKPatch
  else if str_eqb sub (s2l "blame") then PKBlame
  else if str_eqb sub (s2l "status") then PKStatus
  else if str_eqb sub (s2l "grep") then PKGrep
  else if mem_str sub (map s2l ["for-each-ref"; "rev-list"; "reflog"; "stash"; "ls-files"; "ls-tree"; "branch"; "remote"]%lit)
       && (has_lit_prefix lits "--format=" || has_lit_prefix lits "--pretty=") then PKFormatted
  else PKOpaque.

(* the components a parser's correctness depends on *)
Definition needs (k : parser_kind) : list comp :=
  match k with
  | PKPatch => [CExtDiff; CTextconv; CSrcPrefix; CDstPrefix; CRelative; CColor; CInterHunk; CRenames; CContext]
  | PKNumstat => [CRelative; CColor; CRenames; CQuotePath]
  | PKPathList => [CRelative; CColor; CRenames; CQuotePath]
  | _ => []
  end.

(* component c cannot be moved by the user's configuration in this template *)
Definition comp_fixed (p : profile) (sub : str) (lits : list str) (c : comp) : bool :=
  match canonical p c with
  | Some _ => true
  | None =>
      match scan c lits None with
      | Some _ => true
      | None => negb (cfg_applies sub c)
      end
  end.

(* the literal options of the template survive the strip (or are re-inserted as pins) and do not
   override a pinned component *)
Definition lits_ok (p : profile) (lits : list str) : bool :=
  profile_eqb p General || forallb (fun t => should_drop p t || tame p t) lits.

Definition extra_ok (k : parser_kind) (lits : list str) : bool :=
  match k with
  | PKBlame => (has_lit lits "--line-porcelain" || has_lit lits "--porcelain") && has_lit lits "--no-textconv"
  | PKStatus => has_lit_prefix lits "--porcelain" && has_lit lits "-z" && has_lit_prefix lits "--untracked-files="
  | PKGrep => has_lit lits "--no-color" || has_lit lits "--color=never"
  | _ => true
  end.

Definition entry_ok (e : inv_entry) : bool :=
  match inv_sub (inv_items e) false with
  | None => true                                       (* `git --version`, `git --exec-path` *)
  | Some (sub, rest) =>
      let lits := inv_region_lits rest in
      let p := profile_of_index (inv_profile e) in
      let k := classify_entry sub lits rest in
      forallb (comp_fixed p sub lits) (needs k) && lits_ok p lits && extra_ok k lits
  end.

(* explicit exceptions: (file, function, reason).  An exception must be NEEDED (the entry is not
   ok) — see inventory_exceptions_tight. *)
Definition exceptions : list (str * str * str) :=
  map (fun x => match x with (a, b, c) => (s2l a, s2l b, s2l c) end)
  [ ("src/authorship/range_authorship.rs", "get_git_diff_stats_for_range",
     "numstat without -z: paths are quoted per core.quotePath; only matched against ignore patterns (stats)");
    ("src/authorship/stats.rs", "get_git_diff_stats",
     "numstat without -z: paths are quoted per core.quotePath; only matched against ignore patterns (stats)");
    ("src/commands/status.rs", "get_working_dir_diff_stats",
     "numstat without -z: paths are quoted per core.quotePath; only counted (status display)");
    ("src/commands/continue_session.rs", "get_commit_diff",
     "display only: the patch text is handed to the agent prompt, not parsed (context and renames follow the configuration)");
    ("src/commands/diff.rs", "get_diff_split_by_file",
     "display: git-ai diff prints git's hunks with the configured number of context lines, as git diff does");
    ("src/commands/diff.rs", "format_annotated_diff",
     "display: git-ai diff prints git's hunks with the configured number of context lines, as git diff does")
  ]%lit.

Definition is_exception (e : inv_entry) : bool :=
  existsb (fun x => match x with (f, g, _) => str_eqb f (inv_file e) && str_eqb g (inv_fn e) end) exceptions.

Definition inventory_ok (inv : list inv_entry) : bool :=
  forallb (fun e => entry_ok e || is_exception e) inv.

Definition inventory_exceptions_tight (inv : list inv_entry) : bool :=
  forallb (fun x => match x with (f, g, _) =>
             existsb (fun e => str_eqb f (inv_file e) && str_eqb g (inv_fn e) && negb (entry_ok e)) inv end)
          exceptions.

(* every path list is read from NUL-terminated output *)
Definition nul_paths_ok (inv : list inv_entry) : bool :=
  forallb (fun e => match inv_sub (inv_items e) false with
                    | None => true
                    | Some (sub, rest) =>
                        let lits := inv_region_lits rest in
                        match classify_entry sub lits rest with
                        | PKPathList | PKStatus => has_lit lits "-z"
                        | _ => true
                        end
                    end) inv.

(* every invocation of a repository-bound command carries the repository's global args, hence
   --no-pager (global_args_for_exec) *)
Definition carries_globals (e : inv_entry) : bool :=
  match inv_items e with IGlobals :: _ => true | _ => false end.

(* verdict per entry, for the report of the check *)
Definition entry_report (e : inv_entry) : N * bool * bool :=
  let k := match inv_sub (inv_items e) false with
           | None => PKOpaque
           | Some (sub, rest) => classify_entry sub (inv_region_lits rest) rest
           end in
  ((match k with PKPatch => 1 | PKNumstat => 2 | PKPathList => 3 | PKBlame => 4 | PKStatus => 5
              | PKGrep => 7 | PKFormatted => 6 | PKOpaque => 0 end), entry_ok e, is_exception e).

(* ================================================================================ PART 4 *)
(* Where per-work-tree operation state is looked up.  git keeps CHERRY_PICK_HEAD, MERGE_HEAD, sequencer/,
   rebase-merge/ ... in the git directory of the work tree (for a linked work tree: <common>/worktrees/<name>),
   so a probe through the shared directory (kind 1 = Repository::common_dir) sees the MAIN work tree's state. *)
Definition probe_kind (x : list N * list N * list N * N) : N := snd x.

Definition state_probes_ok (probes : list (list N * list N * list N * N)) : bool :=
  forallb (fun x => negb (probe_kind x =? 1)) probes.

(* the sequencer / rebase probes of the command hooks all go through Repository::path *)
Definition hook_probes_per_worktree (probes : list (list N * list N * list N * N)) : bool :=
  forallb (fun x => match x with (f, _, _, k) =>
             negb (starts_with (s2l "src/commands/hooks/") f) || (k =? 0) end) probes.
