(* Model/RewriteSM.v — the control state machine of rebase and cherry-pick handling
   (src/commands/hooks/rebase_hooks.rs: pre_rebase_hook, handle_rebase_post_command,
    has_active_rebase_start_event, find_rebase_start_event;
    src/commands/hooks/cherry_pick_hooks.rs: the same four for cherry-pick;
    src/git/rewrite_log.rs: append_event_to_file — newest first, truncated to MAX_EVENTS).
   Definitions only.

   One wrapped git invocation = pre hook, git itself (environment: exit status and whether the
   state directory exists before / after), post hook.  The only step that writes notes or
   migrates pending attribution is the `Rewrite` effect of a successfully completed operation. *)
From Coq Require Import List NArith Bool.
From Verif Require Import Gen.GenRewrite.
Import ListNotations.
Open Scope N_scope.

Inductive kind := Rebase | CherryPick.
Definition kind_eqb (a b : kind) : bool :=
  match a, b with Rebase, Rebase => true | CherryPick, CherryPick => true | _, _ => false end.

(* rewrite-log events that matter here; every other event (commit, amend, reset, ...) is EOther *)
Inductive ev := EStart (k : kind) (orig : N) | EComplete (k : kind) (orig : N) | EAbort (k : kind) (orig : N) | EOther.
Definition journal := list ev.          (* newest first *)

Definition push (e : ev) (j : journal) : journal := firstn journal_cap (e :: j).

Fixpoint has_active_start (k : kind) (j : journal) : bool :=
  match j with
  | [] => false
  | EComplete k' _ :: j' | EAbort k' _ :: j' => if kind_eqb k k' then false else has_active_start k j'
  | EStart k' _ :: j' => if kind_eqb k k' then true else has_active_start k j'
  | EOther :: j' => has_active_start k j'
  end.

(* the post hooks' look-up of the operation's Start.  Whether a Start that is already followed by a
   Complete/Abort of its kind is skipped comes from the source (Gen.GenRewrite.post_uses_active_start) *)
Fixpoint find_start (k : kind) (j : journal) : option N :=
  match j with
  | [] => None
  | EStart k' o :: j' => if kind_eqb k k' then Some o else find_start k j'
  | EComplete k' _ :: j' | EAbort k' _ :: j' =>
      if post_uses_active_start && kind_eqb k k' then None else find_start k j'
  | EOther :: j' => find_start k j'
  end.

(* the look-up as it was before the repair: the newest Start, whatever follows it *)
Fixpoint find_newest_start (k : kind) (j : journal) : option N :=
  match j with
  | [] => None
  | EStart k' o :: j' => if kind_eqb k k' then Some o else find_newest_start k j'
  | _ :: j' => find_newest_start k j'
  end.

Record inv := mkInv {
  i_kind : kind;
  i_head : N;                 (* HEAD when the command starts *)
  i_head_after : N;           (* HEAD when git has finished *)
  i_has_commits : bool;       (* the original and the new side both have commits to map *)
  i_before : bool;            (* state directory exists before git runs *)
  i_after : bool;             (* state directory exists after git ran *)
  i_exit_ok : bool;
  i_dry_run : bool;           (* --dry-run among the arguments *)
  i_head_known : bool         (* the pre hook could resolve HEAD (it logs a Start only then) *)
}.

Inductive effect := NoEffect | Rewrite (k : kind) (orig : N).

(* pre hook: a new operation logs Start; the rebase hook also keeps the head in the process context *)
Definition pre (j : journal) (i : inv) : journal * option N :=
  if i_before i && has_active_start (i_kind i) j then (j, None)
  else if i_head_known i then
    (push (EStart (i_kind i) (i_head i)) j,
     match i_kind i with Rebase => Some (i_head i) | CherryPick => None end)
  else (j, None).

Definition post (j : journal) (ctx : option N) (i : inv) : journal * effect :=
  if i_after i then (j, NoEffect)
  else if i_dry_run i then (j, NoEffect)
  else
    let orig := match ctx with Some o => Some o | None => find_start (i_kind i) j end in
    if negb (i_exit_ok i) then
      (match orig with Some o => push (EAbort (i_kind i) o) j | None => j end, NoEffect)
    else
      match orig with
      | Some o =>
          (* process_completed_*: nothing to do when HEAD is back at the original head (this is what
             `--abort`, which exits 0, looks like) or when there is nothing to map *)
          if (o =? i_head_after i) || negb (i_has_commits i) then (j, NoEffect)
          else (push (EComplete (i_kind i) o) j, Rewrite (i_kind i) o)
      | None => (j, NoEffect)
      end.

Definition step (j : journal) (i : inv) : journal * effect :=
  let (j1, ctx) := pre j i in post j1 ctx i.

(* other commands in between append unrelated events *)
Fixpoint push_others (n : nat) (j : journal) : journal :=
  match n with O => j | S n' => push EOther (push_others n' j) end.

(* a stopped operation being continued: (number of unrelated events before it, invocation) *)
Fixpoint run (j : journal) (steps : list (nat * inv)) : journal * list effect :=
  match steps with
  | [] => (j, [])
  | (n, i) :: rest =>
      let (j1, e) := step (push_others n j) i in
      let (j2, es) := run j1 rest in (j2, e :: es)
  end.

Definition stops_again (k : kind) (s : nat * inv) : bool :=
  kind_eqb k (i_kind (snd s)) && i_before (snd s) && i_after (snd s).
