(* Model/InitialAnchor.v — how claims carried over a partial commit (the INITIAL file: line ranges per
   file, no content) meet the file at the first checkpoint that sees it again
   (src/commands/checkpoint.rs, get_checkpoint_entry_for_file, the branch "File doesn't exist in any
   previous checkpoint": `content_for_line_conversion` and `adjusted_previous`).  Definitions only.

   Lines are opaque identities (N); a file is a list of lines; a claim is (first, last, session),
   1-based and inclusive, as in LineAttribution.  `snapshot` is the file as it was when the claims were
   written (git-ai does not keep it); `current` is the file the checkpoint finds. *)
From Coq Require Import List NArith Bool.
From Verif Require Import Gen.GenCheckpoint.
Import ListNotations.
Open Scope N_scope.

Definition claim := (N * N * N)%type.

Fixpoint covered (cl : list claim) (i : N) : option N :=
  match cl with
  | [] => None
  | (a, b, s) :: r => if (a <=? i) && (i <=? b) then Some s else covered r i
  end.

Definition len (l : list N) : N := N.of_nat (length l).

Fixpoint nth1 (l : list N) (i : N) : option N :=      (* 1-based *)
  match l with
  | [] => None
  | x :: r => if i =? 1 then Some x else if i =? 0 then None else nth1 r (i - 1)
  end.

Fixpoint index1 (x : N) (l : list N) : option N :=    (* 1-based position of the first occurrence *)
  match l with
  | [] => None
  | y :: r => if x =? y then Some 1 else match index1 x r with Some j => Some (j + 1) | None => None end
  end.

(* what the code does today: the claims are converted against the current content and the tracker is
   handed the current content as the previous one, so it sees no change: line i of the file is the
   session's iff i is a claimed number that exists *)
(* line_attributions_to_attributions keeps a claim only when BOTH its first and its last line exist in the
   content it is converted against: a claim reaching past the end of the file is dropped as a whole *)
Definition fits (n : N) (c : claim) : bool :=
  match c with (a, b, _) => (1 <=? a) && (a <=? n) && (1 <=? b) && (b <=? n) end.

Definition positional (cl : list claim) (current : list N) (i : N) : option N :=
  if (1 <=? i) && (i <=? len current) then covered (filter (fits (len current)) cl) i else None.

(* the specification: a claim belongs to the LINE it was written for *)
Definition by_content (cl : list claim) (snapshot current : list N) (i : N) : option N :=
  match nth1 current i with
  | Some x => match index1 x snapshot with Some j => covered cl j | None => None end
  | None => None
  end.

Definition first_checkpoint (cl : list claim) (snapshot current : list N) (i : N) : option N :=
  if initial_anchored_to_current then positional cl current i else by_content cl snapshot current i.

(* the witness of known class C03-K2: a, AI1, AI2, b, c with claims on 2-3; a person replaces AI1, AI2 *)
Definition k2_claims : list claim := [(2, 3, 7)].
Definition k2_snapshot : list N := [10; 21; 22; 11; 12].
Definition k2_current : list N := [10; 31; 32; 11; 12].
