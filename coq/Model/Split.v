(* Model/Split.v -- definitions only (C04: the split of uncommitted AI work at commit time).

   Source: /repo/src/authorship/virtual_attribution.rs
     VirtualAttributions::to_authorship_log_and_initial_working_log   (per-file body) -> split_file
     collect_committed_hunks / collect_unstaged_hunks (shape of the outputs only:
         LineRange::compress_lines of a sorted, deduplicated Vec<u32> per file)
     VirtualAttributions::to_authorship_log (interval merging per author)            -> log_of_attrs
   and /repo/src/authorship/authorship_log.rs (LineRange) via Base/RangeSet.v.

   What is abstracted, and how:
   * One file at a time.  The Rust loops over a HashMap of files; the bodies are independent.
   * HashMap<String, Vec<u32>> (author -> lines) is an association list in first-insertion
     order (apush); iteration order of a Rust HashMap is arbitrary, so the outputs are
     canonicalised by sorting the entries by author (sort_keys) -- the comparison with the
     implementation sorts the same way.  HashSet<u32>::contains is list membership.
   * `unstaged_lines.binary_search(&w).is_ok()` on a sorted vector is membership.
   * `count() as u32` (usize -> u32) is the identity below 2^32 elements.
   * workdir_to_commit_line computes in i64 and converts with u32::try_from: a negative result
     is "no commit line" (None), not a panic; the outcome SPanic is kept in the result type but
     the repaired code has no u32 subtraction left (split_no_panic).
   * prompts / metadata are not part of the per-file result.
   * A file whose uncommitted map holds only the human author gets an empty INITIAL entry in
     Rust (and write_initial_attributions drops empty entries); here: no entries.

   Second half: the SPEC level.  A file version is a list of pairwise distinct line ids;
   P = parent, C = commit, W = work tree.  committed / unstaged / hunks_of are what
   `git diff -U0` reports for such files (validated against real git in vlib/c04.py). *)
From Coq Require Import List NArith Bool.
From Verif Require Import Base.Str Base.RangeSet.
Import ListNotations.
Open Scope N_scope.

(* LineAttribution { start_line, end_line, author_id, overrode } -- overrode is not read here *)
Record lattr := { la_start : N; la_end : N; la_author : list N }.

(* CheckpointKind::Human.to_str() *)
Definition human : list N := [104; 117; 109; 97; 110].
Definition is_human (a : list N) : bool := str_eqb a human.

(* ------------------------------------------------------------------ author -> lines maps *)
Definition amap := list (list N * list N).

(* map.entry(author).or_default().push(v) *)
Fixpoint apush (k : list N) (v : N) (m : amap) : amap :=
  match m with
  | [] => [(k, [v])]
  | (k', vs) :: t => if str_eqb k k' then (k', vs ++ [v]) :: t else (k', vs) :: apush k v t
  end.

Fixpoint alookup (k : list N) (m : amap) : list N :=
  match m with
  | [] => []
  | (k', vs) :: t => if str_eqb k k' then vs else alookup k t
  end.

(* canonical order of the entries: lexicographic on the author string *)
Fixpoint str_leb (a b : list N) : bool :=
  match a, b with
  | [], _ => true
  | _ :: _, [] => false
  | x :: a', y :: b' => if x <? y then true else if y <? x then false else str_leb a' b'
  end.
Fixpoint kinsert {A} (e : list N * A) (l : list (list N * A)) : list (list N * A) :=
  match l with
  | [] => [e]
  | f :: t => if str_leb (fst e) (fst f) then e :: l else f :: kinsert e t
  end.
Fixpoint sort_keys {A} (l : list (list N * A)) : list (list N * A) :=
  match l with [] => [] | e :: t => kinsert e (sort_keys t) end.

(* ------------------------------------------------------------------ the per-file body *)
(* HunkSpan { old_count, new_start, new_count }: extent of one hunk of `git diff -U0 <commit>`
   against the work tree.  For a pure deletion new_count = 0 and new_start is the work-tree line
   the deletion follows. *)
Definition hunk := (N * N * N)%type.
Definition h_old (h : hunk) : N := fst (fst h).
Definition h_start (h : hunk) : N := snd (fst h).
Definition h_new (h : hunk) : N := snd h.
(* hunk_end = new_start + new_count.saturating_sub(1)   (computed in u64) *)
Definition h_end (h : hunk) : N := h_start h + (h_new h - 1).

(* sum of f over the hunks that end before work-tree line w *)
Fixpoint sum_before (f : hunk -> N) (H : list hunk) (w : N) : N :=
  match H with
  | [] => 0
  | h :: t => (if h_end h <? w then f h else 0) + sum_before f t w
  end.

(* workdir_to_commit_line: w + sum (old_count - new_count) over the hunks ending before w, in
   i64; u32::try_from fails (None) when the result is negative.  (A result above u32::MAX needs
   more than 2^32 lines; not modelled.) *)
Definition to_commit_line (H : list hunk) (w : N) : option N :=
  let a := w + sum_before h_old H w in
  let b := sum_before h_new H w in
  if a <? b then None else Some (a - b).

(* replaced_commit_line: the line lies in a hunk that modifies existing lines, at an offset the
   old side also has *)
Definition replaces (H : list hunk) (w : N) : bool :=
  existsb (fun h => (h_start h <=? w) && (w - h_start h <? N.min (h_new h) (h_old h))) H.
Definition replaced_commit_line (H : list hunk) (w : N) : option N :=
  if replaces H w then to_commit_line H w else None.

(* an unstaged line that takes the place of a line added by this commit is not kept as unstaged *)
Definition hidden (cl : list N) (H : list hunk) (w : N) : bool :=
  match replaced_commit_line H w with Some c => mem c cl | None => false end.

(* the filter step; only for files that have committed hunks *)
Definition filter_unstaged (ch uh : list lrange) (H : list hunk) : list lrange :=
  match ch with
  | [] => uh                       (* file absent from committed_hunks: nothing to do *)
  | _ =>
    let cl := expand_all ch in
    let f := filter (fun l => negb (hidden cl H l)) (expand_all uh) in
    match f with
    | [] => []                                     (* unstaged_ranges.clear() *)
    | _ => compress_lines (dedup (isort f))
    end
  end.

(* unstaged_lines of this file, sorted *)
Definition unstaged_lines (ch uh : list lrange) (H : list hunk) : list N :=
  isort (expand_all (filter_unstaged ch uh H)).

(* what happens to one work-tree line number of one attribution.  DPanic is kept for the
   outcome type; the repaired translation has no u32 subtraction left *)
Inductive line_dec := DInit (w : N) | DNote (c : N) | DDrop | DPanic.

Definition classify (ch : list lrange) (ul : list N) (H : list hunk) (w : N) : line_dec :=
  if mem w ul then DInit w                               (* is_unstaged *)
  else
    match to_commit_line H w with                        (* commit_line_num *)
    | Some c => if contains_any ch c then DNote c else DDrop
    | None => DDrop
    end.

(* all (author, line) pairs in the order of the two nested loops
   `for line_attr in line_attrs { for workdir_line_num in start_line..=end_line {` *)
Definition claims (attrs : list lattr) : list (list N * N) :=
  flat_map (fun la => map (pair (la_author la)) (span (la_start la) (la_end la))) attrs.

Definition step (ch : list lrange) (ul : list N) (H : list hunk) (st : option (amap * amap))
           (cl : list N * N) : option (amap * amap) :=
  match st with
  | None => None
  | Some (cm, um) =>
    match classify ch ul H (snd cl) with
    | DInit w => Some (cm, apush (fst cl) w um)          (* uncommitted_lines_map *)
    | DNote c => Some (apush (fst cl) c cm, um)          (* committed_lines_map *)
    | DDrop => Some (cm, um)
    | DPanic => None
    end
  end.

(* lines 885-941: per non-human author sort, dedup, compress (the inline loop is the same
   algorithm as LineRange::compress_lines) *)
Definition finish_note (cm : amap) : list (list N * list lrange) :=
  map (fun e => (fst e, compress_lines (dedup (isort (snd e)))))
      (filter (fun e => negb (is_human (fst e))) (sort_keys cm)).

(* lines 945-990: the same, emitted as LineAttribution { start, end, author, overrode: None } *)
Definition finish_initial (um : amap) : list lattr :=
  flat_map (fun e => map (fun r => {| la_start := range_lo r; la_end := range_hi r; la_author := fst e |})
                         (compress_lines (dedup (isort (snd e)))))
           (filter (fun e => negb (is_human (fst e))) (sort_keys um)).

Inductive split_res :=
| SOk (note : list (list N * list lrange)) (initial : list lattr)
| SPanic.

(* committed / unstaged: the sorted, deduplicated added-line numbers that
   diff_added_lines(parent, commit) and diff_workdir_added_lines_with_hunks(commit) return for this
   file (collect_*_hunks compress them); hunks: the hunk extents of the second diff, in order *)
Definition split_file (attrs : list lattr) (committed unstaged : list N) (hunks : list hunk)
  : split_res :=
  let ch := compress_lines committed in
  let uh := compress_lines unstaged in
  let ul := unstaged_lines ch uh hunks in
  match fold_left (step ch ul hunks) (claims attrs) (Some (([], []) : amap * amap)) with
  | None => SPanic
  | Some (cm, um) => SOk (finish_note cm) (finish_initial um)
  end.

(* ------------------------------------------------------------------ to_authorship_log *)
(* intervals of one author sorted by (start, end), then merged when
   start <= last_end.saturating_add(1) *)
Definition pair_leb (p q : N * N) : bool :=
  if fst p <? fst q then true else if fst q <? fst p then false else snd p <=? snd q.
Fixpoint pinsert (p : N * N) (l : list (N * N)) : list (N * N) :=
  match l with [] => [p] | q :: t => if pair_leb p q then p :: l else q :: pinsert p t end.
Fixpoint psort (l : list (N * N)) : list (N * N) :=
  match l with [] => [] | p :: t => pinsert p (psort t) end.
Definition sat_succ (x : N) : N := if u32_max <=? x then u32_max else x + 1.
Fixpoint merge_loop (last : N * N) (l : list (N * N)) : list (N * N) :=
  match l with
  | [] => [last]
  | (s, e) :: t => if s <=? sat_succ (snd last) then merge_loop (fst last, N.max (snd last) e) t
                   else last :: merge_loop (s, e) t
  end.
Definition merge_intervals (l : list (N * N)) : list (N * N) :=
  match psort l with [] => [] | p :: t => merge_loop p t end.

Definition ipush (k : list N) (v : N * N) (m : list (list N * list (N * N))) :=
  (fix go m := match m with
               | [] => [(k, [v])]
               | (k', vs) :: t => if str_eqb k k' then (k', vs ++ [v]) :: t else (k', vs) :: go t
               end) m.

Definition log_of_attrs (attrs : list lattr) : list (list N * list lrange) :=
  let groups := fold_left (fun m la => if is_human (la_author la) then m
                                       else ipush (la_author la) (la_start la, la_end la) m) attrs [] in
  map (fun e => (fst e, map (fun p => mk_range (fst p) (snd p)) (merge_intervals (snd e))))
      (sort_keys groups).

(* ================================================================== SPEC level *)
(* (position, id) pairs, positions from i *)
Fixpoint enum_from (i : N) (l : list N) : list (N * N) :=
  match l with [] => [] | x :: t => (i, x) :: enum_from (i + 1) t end.
(* x is the line at 1-based position w of the version l *)
Definition at_pos (l : list N) (w x : N) : Prop := In (w, x) (enum_from 1 l).

Fixpoint pos_from (i : N) (f : N -> bool) (l : list N) : list N :=
  match l with
  | [] => []
  | x :: t => if f x then i :: pos_from (i + 1) f t else pos_from (i + 1) f t
  end.

Fixpoint index_from (i : N) (x : N) (l : list N) : option N :=
  match l with [] => None | y :: t => if y =? x then Some i else index_from (i + 1) x t end.
(* 1-based position of id x in version l *)
Definition index_of (x : N) (l : list N) : option N := index_from 1 x l.

(* added lines of `git diff -U0 P C`, in C coordinates *)
Definition committed (P C : list N) : list N := pos_from 1 (fun x => negb (mem x P)) C.
(* added lines of `git diff -U0 C` against the work tree, in W coordinates *)
Definition unstaged (C W : list N) : list N := pos_from 1 (fun x => negb (mem x C)) W.

(* The hunks of `git diff -U0 C` against W for versions of pairwise distinct lines whose kept lines
   keep their order.  With -U0 a hunk is a maximal run of changed lines between two consecutive
   kept lines.  Walking W: wi is the position of the current line, wb the position of the last
   kept line seen (0 at the top) and cprev its position in C.  At the next kept line, at C
   position q, the C lines cprev+1 .. q-1 were replaced by the W lines wb+1 .. wi-1: old_count =
   q - cprev - 1, new_count = wi - wb - 1, new_start = wb + 1 (or wb for a pure deletion), and no
   hunk when both counts are 0.  At the end of W the next kept position is |C| + 1. *)
Definition emit (d s a : N) : list hunk := if d + a =? 0 then [] else [(d, s, a)].
Fixpoint hunks_from (C : list N) (wi wb cprev : N) (W : list N) : list hunk :=
  match W with
  | [] => let a := wi - wb - 1 in
          emit (N.of_nat (length C) - cprev) (if a =? 0 then wb else wb + 1) a
  | x :: t =>
    match index_of x C with
    | Some q => let a := wi - wb - 1 in
                emit (q - cprev - 1) (if a =? 0 then wb else wb + 1) a ++ hunks_from C (wi + 1) wi q t
    | None => hunks_from C (wi + 1) wb cprev t
    end
  end.
Definition hunks_of (C W : list N) : list hunk := hunks_from C 1 0 0 W.

(* domain of the spec: distinct ids, and edits that keep the relative order of kept lines (no
   moves), so that the minimal diff is unique and is the one described above *)
Fixpoint nodupb (l : list N) : bool :=
  match l with [] => true | x :: t => negb (mem x t) && nodupb t end.
(* positions in A of the lines of B that A also has, in B's order *)
Definition kept_pos (A B : list N) : list N :=
  flat_map (fun x => match index_of x A with Some q => [q] | None => [] end) B.
Fixpoint increasing (l : list N) : bool :=
  match l with [] => true | x :: t => forallb (fun y => x <? y) t && increasing t end.
Definition ordered (A B : list N) : bool := increasing (kept_pos A B).
Definition same_order (A B : list N) : bool :=
  str_eqb (filter (fun x => mem x B) A) (filter (fun x => mem x A) B).
Definition wf3 (P C W : list N) : bool :=
  nodupb P && nodupb C && nodupb W && ordered P C && ordered C W.

(* --- the side condition ---
   no_hidden: the filter step removes nothing, i.e. no line of W that is not in C takes, inside
   its hunk, the place of a line that this commit added (an unstaged rewrite of a just-committed
   line; the implementation deliberately credits such a line to the commit). *)
Definition no_hidden (P C W : list N) : bool :=
  forallb (fun w => negb (hidden (committed P C) (hunks_of C W) w)) (unstaged C W).
Definition Known_C04 (P C W : list N) : bool := negb (no_hidden P C W).

(* --- what the outputs list --- *)
Definition note_lists (note : list (list N * list lrange)) (a : list N) (c : N) : bool :=
  existsb (fun e => str_eqb a (fst e) && contains_any (snd e) c) note.
Definition init_lists (ini : list lattr) (a : list N) (w : N) : bool :=
  existsb (fun la => str_eqb a (la_author la) && (la_start la <=? w) && (w <=? la_end la)) ini.
(* as (author, line) lists, for the no-line-twice statement *)
Definition note_lines (note : list (list N * list lrange)) : list (list N * N) :=
  flat_map (fun e => map (pair (fst e)) (expand_all (snd e))) note.
Definition init_lines (ini : list lattr) : list (list N * N) := claims ini.

(* attrs claims work-tree line w for author a *)
Definition claim (attrs : list lattr) (w : N) (a : list N) : Prop := In (a, w) (claims attrs).
(* every claimed line exists in W and is claimed for one author only *)
Definition attrs_wf (W : list N) (attrs : list lattr) : Prop :=
  (forall a w, claim attrs w a -> exists x, at_pos W w x) /\
  (forall a b w, claim attrs w a -> claim attrs w b -> a = b).

(* The property for one file and one commit.  For every AI-claimed line x of W exactly one of
   (i) committed now: x in C, not in P, the note lists its C position for its author, INITIAL does not list it;
   (ii) left out: x not in C, INITIAL lists its W position for its author;
   (iii) pre-existing: x in C and in P, listed nowhere;
   and conversely every listed line comes from such a claim (nothing else, nothing human),
   and no (author, line) pair is listed twice. *)
Definition split_exact (P C W : list N) (attrs : list lattr)
           (note : list (list N * list lrange)) (ini : list lattr) : Prop :=
  (forall w x a, at_pos W w x -> claim attrs w a -> a <> human ->
      (In x C /\ ~ In x P /\ (exists c, index_of x C = Some c /\ note_lists note a c = true)
         /\ (forall b, init_lists ini b w = false))
   \/ (~ In x C /\ init_lists ini a w = true)
   \/ (In x C /\ In x P /\ (forall b, init_lists ini b w = false)
         /\ (forall b c, index_of x C = Some c -> note_lists note b c = false)))
  /\ (forall a c, note_lists note a c = true ->
        a <> human /\ exists w x, at_pos W w x /\ claim attrs w a /\ In x C /\ ~ In x P
                                  /\ index_of x C = Some c)
  /\ (forall a w, init_lists ini a w = true ->
        a <> human /\ exists x, at_pos W w x /\ claim attrs w a /\ ~ In x C)
  /\ NoDup (note_lines note) /\ NoDup (init_lines ini)
  /\ (forall a b c, note_lists note a c = true -> note_lists note b c = true -> a = b)
  /\ (forall a b w, init_lists ini a w = true -> init_lists ini b w = true -> a = b).

(* --- executable verdicts for the check (same content as split_exact, as booleans) --- *)
Definition pair_eqb (p q : list N * N) : bool := str_eqb (fst p) (fst q) && (snd p =? snd q).
Definition pmem (p : list N * N) (l : list (list N * N)) : bool := existsb (pair_eqb p) l.
Fixpoint pnodupb (l : list (list N * N)) : bool :=
  match l with [] => true | p :: t => negb (pmem p t) && pnodupb t end.
Definition set_eqb (a b : list (list N * N)) : bool :=
  forallb (fun p => pmem p b) a && forallb (fun p => pmem p a) b.
Definition author_at (attrs : list lattr) (w : N) : list (list N) :=
  map fst (filter (fun cl => snd cl =? w) (claims attrs)).
(* expected note lines: AI claims on W lines that are in C and not in P, at their C position *)
Definition expected_note (P C W : list N) (attrs : list lattr) : list (list N * N) :=
  flat_map (fun p => match index_of (snd p) C with
                     | Some c => if mem (snd p) P then []
                                 else map (fun a => (a, c)) (filter (fun a => negb (is_human a)) (author_at attrs (fst p)))
                     | None => []
                     end) (enum_from 1 W).
Definition expected_init (C W : list N) (attrs : list lattr) : list (list N * N) :=
  flat_map (fun p => if mem (snd p) C then []
                     else map (fun a => (a, fst p)) (filter (fun a => negb (is_human a)) (author_at attrs (fst p))))
           (enum_from 1 W).
Definition attrs_wfb (W : list N) (attrs : list lattr) : bool :=
  forallb (fun cl => (1 <=? snd cl) && (snd cl <=? N.of_nat (length W))) (claims attrs)
  && nodupb (map snd (claims attrs)).

Record verdict := { v_panic : bool; v_note_ok : bool; v_init_ok : bool; v_nodup : bool }.
Definition spec_verdict (P C W : list N) (attrs : list lattr) (r : split_res) : verdict :=
  match r with
  | SPanic => {| v_panic := true; v_note_ok := false; v_init_ok := false; v_nodup := false |}
  | SOk note ini =>
    {| v_panic := false;
       v_note_ok := set_eqb (note_lines note) (expected_note P C W attrs);
       v_init_ok := set_eqb (init_lines ini) (expected_init C W attrs);
       v_nodup := pnodupb (note_lines note) && pnodupb (init_lines ini) |}
  end.

Definition run_spec (P C W : list N) (attrs : list lattr) : split_res :=
  split_file attrs (committed P C) (unstaged C W) (hunks_of C W).
