(* Model/Stats.v -- executable model of src/authorship/stats.rs (C19).  Definitions only.

   Followed line by line:
     line_range_overlap_len, accepted_lines_from_attestations, stats_from_authorship_log,
     the numstat loop of get_git_diff_stats, and the glue of stats_for_commit_stats
     (ignore filter, sort_unstable + dedup of the added lines, merge short cut).

   Arithmetic.  The prompt counters, the per-tool ai_additions and the numstat totals are
   accumulated with saturating_add, the cap uses saturating_sub; what is still a plain `+` /
   `+= 1` on u32 (the accepted-line counters and ai_additions = mixed + accepted) panics on
   overflow in a build with overflow checks (debug, which is what the harness and the test
   binary are) and wraps in a release build.  Both behaviours are modelled: every function takes
   an [ovf] mode and [uadd] is the only place where the mode matters (C19_never_panics shows that
   no such addition overflows when the diff fits in a u32).

   Maps.  HashMap / BTreeMap / HashSet values are association lists / lists used as finite maps
   and sets (lookup = first match, update in place or append).  The iteration order of the
   BTreeMap tool_model_breakdown matters in one place, the tool-by-tool cap of mixed_additions:
   there the list is first sorted by key (String order = lexicographic on code points); elsewhere
   it only shows in the order of the JSON object members, which the check canonicalises.

   Not modelled: time_waiting_for_ai (chrono timestamp arithmetic, not part of C19). *)
From Verif Require Import Base.Str Gen.GenStats.

(* ---------- outcomes ---------- *)
Inductive sres (A : Type) := SOk (a : A) | SPanic.
Arguments SOk {A} a.
Arguments SPanic {A}.

Definition sbind {A B} (r : sres A) (f : A -> sres B) : sres B :=
  match r with SOk a => f a | SPanic => SPanic end.

Fixpoint fold_res {A B} (f : A -> B -> sres A) (l : list B) (a : A) : sres A :=
  match l with
  | [] => SOk a
  | x :: l' => sbind (f a x) (fold_res f l')
  end.

Fixpoint map_res {A B} (f : A -> sres B) (l : list A) : sres (list B) :=
  match l with
  | [] => SOk []
  | x :: l' => sbind (f x) (fun y => sbind (map_res f l') (fun ys => SOk (y :: ys)))
  end.

(* ---------- u32 arithmetic ---------- *)
Definition u32_mod : N := 4294967296.

Inductive ovf := Checked | Wrapping.

(* a + b on u32 *)
Definition uadd (m : ovf) (a b : N) : sres N :=
  if a + b <=? u32_max then SOk (a + b)
  else match m with Checked => SPanic | Wrapping => SOk ((a + b) mod u32_mod) end.

(* u32::saturating_add / saturating_sub *)
Definition sat_add (a b : N) : N := N.min (a + b) u32_max.
Definition sat_sub (a b : N) : N := a - N.min a b.

(* usize as u32 *)
Definition as_u32 (n : N) : N := n mod u32_mod.

(* ---------- data ---------- *)
Inductive range := Single (l : N) | Range (a b : N).
Record entry := mkEntry { e_hash : str; e_ranges : list range }.
Record fatt := mkFatt { f_path : str; f_entries : list entry }.
(* the PromptRecord fields stats.rs reads *)
Record prompt := mkPrompt { p_tool : str; p_model : str; p_total_add : N; p_total_del : N; p_overriden : N }.
Record note := mkNote { n_atts : list fatt; n_prompts : list (str * prompt) }.

Record tool_stats := mkTool
  { t_ai_additions : N; t_mixed : N; t_accepted : N; t_total_add : N; t_total_del : N }.
Definition tool_default : tool_stats := mkTool 0 0 0 0 0.

Record stats := mkStats
  { s_human : N; s_mixed : N; s_ai_additions : N; s_accepted : N; s_total_add : N; s_total_del : N;
    s_deleted : N; s_added : N; s_tools : list (str * tool_stats) }.

(* ---------- finite maps keyed by strings ---------- *)
Fixpoint lookup {V} (k : str) (m : list (str * V)) : option V :=
  match m with
  | [] => None
  | (k', v) :: m' => if str_eqb k k' then Some v else lookup k m'
  end.

(* map.entry(k).or_insert(d) followed by an update of the value *)
Fixpoint map_upd {V} (d : V) (k : str) (f : V -> sres V) (m : list (str * V)) : sres (list (str * V)) :=
  match m with
  | [] => sbind (f d) (fun v => SOk [(k, v)])
  | (k', v) :: m' =>
      if str_eqb k k' then sbind (f v) (fun v' => SOk ((k', v') :: m'))
      else sbind (map_upd d k f m') (fun m'' => SOk ((k', v) :: m''))
  end.

(* format!("{}::{}", tool, model) *)
Definition tool_key (p : prompt) : str := p_tool p ++ [58; 58] ++ p_model p.

(* ---------- line_range_overlap_len ---------- *)
(* slice::partition_point on a partitioned slice = length of the prefix satisfying p *)
Fixpoint partition_point (p : N -> bool) (l : list N) : N :=
  match l with
  | [] => 0
  | x :: l' => if p x then 1 + partition_point p l' else 0
  end.

(* slice::binary_search(x).is_ok() on a sorted slice = membership *)
Definition bsearch_ok (x : N) (l : list N) : bool := existsb (N.eqb x) l.

(* &added[i..j] *)
Definition slice (i j : N) (l : list N) : list N := firstn (N.to_nat (j - i)) (skipn (N.to_nat i) l).

(* line_range_overlap: the lines of the sorted added_lines that fall into the range *)
Definition line_range_overlap (r : range) (added : list N) : list N :=
  match r with
  | Single l => if bsearch_ok l added then [l] else []
  | Range s e =>
      let start_idx := partition_point (fun x => x <? s) added in
      let end_idx := partition_point (fun x => x <=? e) added in
      slice start_idx (N.max end_idx start_idx) added
  end.

(* line_range_overlap_len (kept for the unit tests): .len() as u32 *)
Definition overlap_len (r : range) (added : list N) : N :=
  as_u32 (N.of_nat (length (line_range_overlap r added))).

(* ---------- accepted_lines_from_attestations ---------- *)
(* HashSet::insert returns true for a new line, then accepted += 1;  state = (counted, accepted) *)
Definition count_line (m : ovf) (st : list N * N) (x : N) : sres (list N * N) :=
  if existsb (N.eqb x) (fst st) then SOk st
  else sbind (uadd m (snd st) 1) (fun a => SOk (x :: fst st, a)).

Definition count_range (m : ovf) (added : list N) (st : list N * N) (r : range) : sres (list N * N) :=
  fold_res (count_line m) (line_range_overlap r added) st.

(* the two loops over entry.line_ranges and the lines of each overlap, from accepted = 0 *)
Definition entry_accepted (m : ovf) (added : list N) (counted : list N) (e : entry) : sres (list N * N) :=
  fold_res (count_range m added) (e_ranges e) (counted, 0).

(* state = (total_ai_accepted, per_tool_model, counted_by_file); [counted] is a mutable borrow
   of the file's set inside counted_by_file, so every insertion is an update of the map *)
Definition astate := (N * list (str * N) * list (str * list N))%type.

Definition entry_step (m : ovf) (prompts : list (str * prompt)) (path : str) (added : list N)
    (st : astate) (e : entry) : sres astate :=
  let '(total, per, cm) := st in
  let counted := match lookup path cm with Some c => c | None => [] end in
  sbind (entry_accepted m added counted e) (fun ca =>
  sbind (map_upd [] path (fun _ => SOk (fst ca)) cm) (fun cm' =>
    let a := snd ca in
    if a =? 0 then SOk (total, per, cm')
    else
      sbind (uadd m total a) (fun total' =>
        match lookup (e_hash e) prompts with
        | Some p =>
            sbind (map_upd 0 (tool_key p) (fun v => uadd m v a) per) (fun per' => SOk (total', per', cm'))
        | None => SOk (total', per, cm')
        end))).

Definition file_step (m : ovf) (prompts : list (str * prompt)) (added : list (str * list N))
    (st : astate) (fa : fatt) : sres astate :=
  match lookup (f_path fa) added with
  | None => SOk st
  | Some ls =>
      (* counted_by_file.entry(path).or_default() *)
      let '(total, per, cm) := st in
      sbind (map_upd [] (f_path fa) (fun c => SOk c) cm) (fun cm0 =>
      fold_res (entry_step m prompts (f_path fa) ls) (f_entries fa) (total, per, cm0))
  end.

Definition accepted_from_attestations (m : ovf) (n : option note) (added : list (str * list N))
    (is_merge : bool) : sres (N * list (str * N)) :=
  if is_merge then SOk (0, [])
  else match n with
       | None => SOk (0, [])
       | Some n =>
           sbind (fold_res (file_step m (n_prompts n) added) (n_atts n) (0, [], []))
             (fun st => SOk (fst (fst st), snd (fst st)))
       end.

(* ---------- stats_from_authorship_log ---------- *)
(* the body of the loop over log.metadata.prompts.values() on the tool entry *)
Definition tool_add_prompt (p : prompt) (t : tool_stats) : tool_stats :=
  mkTool (t_ai_additions t) (sat_add (t_mixed t) (p_overriden p)) (t_accepted t)
         (sat_add (t_total_add t) (p_total_add p)) (sat_add (t_total_del t) (p_total_del p)).

(* the loop over log.metadata.prompts.values(); state = (total_add, total_del, mixed, tools) *)
Definition prompt_step (st : N * N * N * list (str * tool_stats)) (hp : str * prompt)
    : sres (N * N * N * list (str * tool_stats)) :=
  let '(ta, td, mx, tools) := st in
  let p := snd hp in
  sbind (map_upd tool_default (tool_key p) (fun t => SOk (tool_add_prompt p t)) tools) (fun tools' =>
  SOk (sat_add ta (p_total_add p), sat_add td (p_total_del p), sat_add mx (p_overriden p), tools')).

Definition set_mixed (x : N) (t : tool_stats) : tool_stats :=
  mkTool (t_ai_additions t) x (t_accepted t) (t_total_add t) (t_total_del t).

Definition set_accepted (acc : N) (t : tool_stats) : tool_stats :=
  mkTool (t_ai_additions t) (t_mixed t) acc (t_total_add t) (t_total_del t).

Definition set_ai (a : N) (t : tool_stats) : tool_stats :=
  mkTool a (t_mixed t) (t_accepted t) (t_total_add t) (t_total_del t).

(* String order: lexicographic on the UTF-8 bytes = on the code points *)
Fixpoint str_leb (a b : str) : bool :=
  match a, b with
  | [], _ => true
  | _ :: _, [] => false
  | x :: a', y :: b' => if x <? y then true else if y <? x then false else str_leb a' b'
  end.

(* BTreeMap iteration order *)
Fixpoint insert_tool (kt : str * tool_stats) (l : list (str * tool_stats)) : list (str * tool_stats) :=
  match l with
  | [] => [kt]
  | kt' :: l' => if str_leb (fst kt) (fst kt') then kt :: l else kt' :: insert_tool kt l'
  end.
Definition sort_tools (l : list (str * tool_stats)) : list (str * tool_stats) := fold_right insert_tool [] l.

(* the cap of the total applied tool by tool:
   tool.mixed = min(tool.mixed, remaining); remaining -= tool.mixed *)
Fixpoint cap_tools (remaining : N) (ts : list (str * tool_stats)) : list (str * tool_stats) :=
  match ts with
  | [] => []
  | kt :: ts' =>
      let x := N.min (t_mixed (snd kt)) remaining in
      (fst kt, set_mixed x (snd kt)) :: cap_tools (remaining - x) ts'
  end.

(* tool_stats.ai_accepted = *accepted, for (tool_model, accepted) in ai_accepted_by_tool *)
Definition accepted_step (ts : list (str * tool_stats)) (ka : str * N) : sres (list (str * tool_stats)) :=
  map_upd tool_default (fst ka) (fun t => SOk (set_accepted (snd ka) t)) ts.

(* tool_stats.ai_additions = tool_stats.ai_accepted.saturating_add(tool_stats.mixed_additions) *)
Definition tool_finish (kt : str * tool_stats) : str * tool_stats :=
  (fst kt, set_ai (sat_add (t_accepted (snd kt)) (t_mixed (snd kt))) (snd kt)).

Definition note_atts (n : option note) : list fatt := match n with Some n => n_atts n | None => [] end.
Definition note_prompts (n : option note) : list (str * prompt) :=
  match n with Some n => n_prompts n | None => [] end.

Definition stats_from_log (m : ovf) (n : option note) (git_added git_deleted ai_accepted : N)
    (by_tool : list (str * N)) : sres stats :=
  sbind (fold_res prompt_step (note_prompts n) (0, 0, 0, [])) (fun st =>
  let '(ta, td, mx, tools) := st in
  (* cap of the total mixed additions, then of the breakdown *)
  let max_mixed := sat_sub git_added ai_accepted in
  let mixed := if max_mixed <? mx then max_mixed else mx in
  let tools0 := cap_tools mixed (sort_tools tools) in
  (* tool-level accepted counts *)
  sbind (fold_res accepted_step by_tool tools0) (fun tools1 =>
  sbind (uadd m mixed ai_accepted) (fun ai =>
  let tools2 := map tool_finish tools1 in
  let human := sat_sub git_added ai_accepted in
  SOk (mkStats human mixed ai ai_accepted ta td git_deleted git_added tools2)))).

(* ---------- stats_for_commit_stats: the glue ---------- *)
(* lines.sort_unstable(); lines.dedup();  -- the result is the strictly increasing list of the
   distinct elements, whatever algorithm produces it *)
Fixpoint insert_uniq (x : N) (l : list N) : list N :=
  match l with
  | [] => [x]
  | y :: l' => if x <? y then x :: l else if x =? y then l else y :: insert_uniq x l'
  end.

Definition sort_dedup (l : list N) : list N := fold_right insert_uniq [] l.

(* added_lines_by_file.retain(|p, _| !ignored(p)); then sort + dedup of every value;
   a merge commit starts from the empty map *)
Definition prep_added (ignored : str -> bool) (raw : list (str * list N)) (is_merge : bool)
    : list (str * list N) :=
  if is_merge then []
  else map (fun kv => (fst kv, sort_dedup (snd kv))) (filter (fun kv => negb (ignored (fst kv))) raw).

(* steps 3-5 of stats_for_commit_stats; git_added / git_deleted come from parse_numstat *)
Definition commit_stats (m : ovf) (ignored : str -> bool) (n : option note)
    (raw_added : list (str * list N)) (is_merge : bool) (git_added git_deleted : N) : sres stats :=
  sbind (accepted_from_attestations m n (prep_added ignored raw_added is_merge) is_merge)
    (fun r => stats_from_log m n git_added git_deleted (fst r) (snd r)).

(* ---------- get_git_diff_stats: the numstat loop ---------- *)
Definition numstat_line (m : ovf) (ignored : str -> bool) (st : N * N) (line : str) : sres (N * N) :=
  if forallb is_ws line then SOk st                        (* line.trim().is_empty() *)
  else if negb (match line with c :: _ => is_digit c | [] => false end) then SOk st
  else
    match split_on c_tab line with
    | p0 :: p1 :: p2 :: _ =>
        if ignored p2 then SOk st
        else
          let added' := match parse_u32 p0 with Some a => sat_add (fst st) a | None => fst st end in
          let deleted' := if str_eqb p1 [c_dash] then snd st
                          else match parse_u32 p1 with Some d => sat_add (snd st) d | None => snd st end in
          SOk (added', deleted')
    | _ => SOk st
    end.

Definition parse_numstat (m : ovf) (ignored : str -> bool) (text : str) : sres (N * N) :=
  fold_res (numstat_line m ignored) (lines text) (0, 0).

(* the whole of stats_for_commit_stats given git's two outputs *)
Definition stats_for_commit (m : ovf) (ignored : str -> bool) (numstat : str) (n : option note)
    (raw_added : list (str * list N)) (is_merge : bool) : sres stats :=
  sbind (parse_numstat m ignored numstat) (fun g =>
    commit_stats m ignored n raw_added is_merge (fst g) (snd g)).

(* ---------- the inputs: which git commands produce them ---------- *)
(* The model takes as inputs [raw] (path -> added lines) and the numstat text.  They are what
   `git diff -U0 <parent> <commit>` and `git show --numstat --format= <commit>` print WITHOUT
   pairing of renamed / copied paths: every line of a renamed file is an added line of the new
   path in both, which is also how the note counts.  The translator reads the literal options of
   Repository::diff_added_lines and get_git_diff_stats and of the internal git profiles they run
   under (Gen/GenStats.v); the fact below is what the agreement hypothesis ga = added_count and
   the oracle of the check (git diff -U0 --no-renames) rest on. *)
Definition has_opt (o : str) (l : list str) : bool := existsb (str_eqb o) l.
Definition opt_no_renames : str := [45; 45; 110; 111; 45; 114; 101; 110; 97; 109; 101; 115].
Definition opt_no_color : str := [45; 45; 110; 111; 45; 99; 111; 108; 111; 114].
Definition opt_U0 : str := [45; 85; 48].
Definition opt_numstat : str := [45; 45; 110; 117; 109; 115; 116; 97; 116].

Definition inputs_unpaired : bool :=
  has_opt opt_U0 diff_added_lines_args
  && has_opt opt_no_renames (diff_added_lines_args ++ diff_added_lines_profile)
  && has_opt opt_no_color (diff_added_lines_args ++ diff_added_lines_profile)
  && has_opt opt_numstat numstat_args
  && has_opt opt_no_renames (numstat_args ++ numstat_profile)
  && has_opt opt_no_color (numstat_args ++ numstat_profile).

(* ---------- specification-side notions (used by the statements of C19) ---------- *)
Definition in_range (r : range) (x : N) : bool :=
  match r with
  | Single l => x =? l
  | Range s e => (s <=? x) && (x <=? e)
  end.

(* the note attributes line x of the file to AI *)
Definition ai_line (es : list entry) (x : N) : bool :=
  existsb (fun e => existsb (fun r => in_range r x) (e_ranges e)) es.

Definition all_ranges (es : list entry) : list range := flat_map e_ranges es.

Definition range_lo (r : range) : N := match r with Single l => l | Range s _ => s end.
Definition range_hi (r : range) : N := match r with Single l => l | Range _ e => e end.

(* the line sets of two ranges do not meet *)
Definition ranges_disjoint (r1 r2 : range) : bool :=
  (range_hi r1 <? range_lo r1) || (range_hi r2 <? range_lo r2)
  || (range_hi r1 <? range_lo r2) || (range_hi r2 <? range_lo r1).

Fixpoint pairwise {A} (p : A -> A -> bool) (l : list A) : bool :=
  match l with
  | [] => true
  | x :: l' => forallb (p x) l' && pairwise p l'
  end.

Fixpoint str_nodup (l : list str) : bool :=
  match l with
  | [] => true
  | x :: l' => negb (existsb (str_eqb x) l') && str_nodup l'
  end.

(* what a well-formed note satisfies (C05), in three independent parts:
   per file all listed ranges are pairwise disjoint as line sets; no file has two sections;
   every session hash has a prompt record *)
Definition note_disjoint (n : note) : bool :=
  forallb (fun fa => pairwise ranges_disjoint (all_ranges (f_entries fa))) (n_atts n).

Definition note_paths_unique (n : note) : bool := str_nodup (map f_path (n_atts n)).

Definition note_prompts_present (n : note) : bool :=
  forallb (fun fa => forallb (fun e => match lookup (e_hash e) (n_prompts n) with Some _ => true | None => false end)
                       (f_entries fa)) (n_atts n).

Definition note_ok (n : note) : bool :=
  note_disjoint n && note_paths_unique n && note_prompts_present n.

(* a commit without a note satisfies all of them *)
Definition olift (p : note -> bool) (n : option note) : bool :=
  match n with Some n => p n | None => true end.

Definition onote_ok (n : option note) : bool := olift note_ok n.

(* number of distinct added lines of non-ignored files = what numstat must report as added *)
Definition added_count (ignored : str -> bool) (raw : list (str * list N)) : N :=
  fold_right (fun kv acc => if ignored (fst kv) then acc
                            else N.of_nat (length (nodup N.eq_dec (snd kv))) + acc) 0 raw.

(* line x of file p is a line added by the commit (in a non-ignored file) that the note
   attributes to AI: the set whose cardinality ai_accepted must be *)
Definition attributed (ignored : str -> bool) (n : option note) (raw : list (str * list N))
    (p : str) (x : N) : Prop :=
  ignored p = false /\
  exists ls, lookup p raw = Some ls /\ In x ls /\
  exists fa, In fa (note_atts n) /\ f_path fa = p /\ ai_line (f_entries fa) x = true.

(* the same cardinality, computed (for the cross-check of the oracle of the check) *)
Fixpoint str_dedup (l : list str) : list str :=
  match l with
  | [] => []
  | x :: l' => x :: filter (fun y => negb (str_eqb x y)) (str_dedup l')
  end.

Definition entries_of (p : str) (atts : list fatt) : list entry :=
  flat_map f_entries (filter (fun fa => str_eqb (f_path fa) p) atts).

Definition inter_count (ignored : str -> bool) (n : option note) (raw : list (str * list N)) : N :=
  fold_right (fun p acc =>
      if ignored p then acc
      else match lookup p raw with
           | Some ls => N.of_nat (length (filter (ai_line (entries_of p (note_atts n))) (nodup N.eq_dec ls))) + acc
           | None => acc
           end) 0 (str_dedup (map f_path (note_atts n))).

Definition sum_tools (f : tool_stats -> N) (ts : list (str * tool_stats)) : N :=
  fold_right (fun kt acc => f (snd kt) + acc) 0 ts.

Definition sum_overriden (n : option note) : N :=
  match n with
  | None => 0
  | Some n => fold_right (fun hp acc => p_overriden (snd hp) + acc) 0 (n_prompts n)
  end.

(* the cap of the total mixed additions fires (the former known class C19-K1: the per-tool
   mixed_additions were not capped; they are now, see cap_tools) *)
Definition Known_C19 (n : option note) (git_added accepted : N) : bool :=
  sat_sub git_added accepted <? sum_overriden n.

(* the per-tool breakdown sums to the totals *)
Definition tools_sum_ok (s : stats) : bool :=
  (sum_tools t_accepted (s_tools s) =? s_accepted s)
  && (sum_tools t_mixed (s_tools s) =? s_mixed s)
  && (sum_tools t_ai_additions (s_tools s) =? s_ai_additions s)
  && (sum_tools t_total_add (s_tools s) =? s_total_add s)
  && (sum_tools t_total_del (s_tools s) =? s_total_del s).
