(* Model/Stats.v -- executable model of src/authorship/stats.rs (C19).  Definitions only.

   Followed line by line:
     line_range_overlap_len, accepted_lines_from_attestations, stats_from_authorship_log,
     the numstat loop of get_git_diff_stats, and the glue of stats_for_commit_stats
     (ignore filter, sort_unstable + dedup of the added lines, merge short cut).

   Arithmetic.  stats.rs uses saturating_sub where it says so, but every accumulation is a
   plain `+=` / `+` / `.sum::<u32>()` on u32.  Such an addition panics on overflow in a build
   with overflow checks (debug, which is what the harness and the test binary are) and wraps in
   a release build.  Both behaviours are modelled: every function takes an [ovf] mode and
   [uadd] is the only place where the mode matters.  sat_add is defined for completeness (the
   design expected saturating additions); stats.rs has none.

   Maps.  HashMap / BTreeMap values are association lists used as finite maps (lookup = first
   match, update in place or append); the iteration order of a BTreeMap only shows in the order
   of the JSON object members, which the check canonicalises by sorting.

   Not modelled: time_waiting_for_ai (chrono timestamp arithmetic, not part of C19). *)
From Verif Require Import Base.Str.

(* ---------- outcomes ---------- *)
Inductive sres (A : Type) := SOk (a : A) | SPanic.
Arguments SOk {A} a.
Arguments SPanic {A}.

Definition sbind {A B} (r : sres A) (f : A -> sres B) : sres B :=
  match r with SOk a => f a | SPanic => SPanic end.

Fixpoint fold_res {A B} (f : A -> B -> sres A) (l : list B) (a : A) : sres A :=
  match l with
  | [] => SOk a
  | x :: l' => sbind (f a x) (fold_res f l')
  end.

Fixpoint map_res {A B} (f : A -> sres B) (l : list A) : sres (list B) :=
  match l with
  | [] => SOk []
  | x :: l' => sbind (f x) (fun y => sbind (map_res f l') (fun ys => SOk (y :: ys)))
  end.

(* ---------- u32 arithmetic ---------- *)
Definition u32_mod : N := 4294967296.

Inductive ovf := Checked | Wrapping.

(* a + b on u32 *)
Definition uadd (m : ovf) (a b : N) : sres N :=
  if a + b <=? u32_max then SOk (a + b)
  else match m with Checked => SPanic | Wrapping => SOk ((a + b) mod u32_mod) end.

(* u32::saturating_add / saturating_sub *)
Definition sat_add (a b : N) : N := N.min (a + b) u32_max.
Definition sat_sub (a b : N) : N := a - N.min a b.

(* usize as u32 *)
Definition as_u32 (n : N) : N := n mod u32_mod.

(* ---------- data ---------- *)
Inductive range := Single (l : N) | Range (a b : N).
Record entry := mkEntry { e_hash : str; e_ranges : list range }.
Record fatt := mkFatt { f_path : str; f_entries : list entry }.
(* the PromptRecord fields stats.rs reads *)
Record prompt := mkPrompt { p_tool : str; p_model : str; p_total_add : N; p_total_del : N; p_overriden : N }.
Record note := mkNote { n_atts : list fatt; n_prompts : list (str * prompt) }.

Record tool_stats := mkTool
  { t_ai_additions : N; t_mixed : N; t_accepted : N; t_total_add : N; t_total_del : N }.
Definition tool_default : tool_stats := mkTool 0 0 0 0 0.

Record stats := mkStats
  { s_human : N; s_mixed : N; s_ai_additions : N; s_accepted : N; s_total_add : N; s_total_del : N;
    s_deleted : N; s_added : N; s_tools : list (str * tool_stats) }.

(* ---------- finite maps keyed by strings ---------- *)
Fixpoint lookup {V} (k : str) (m : list (str * V)) : option V :=
  match m with
  | [] => None
  | (k', v) :: m' => if str_eqb k k' then Some v else lookup k m'
  end.

(* map.entry(k).or_insert(d) followed by an update of the value *)
Fixpoint map_upd {V} (d : V) (k : str) (f : V -> sres V) (m : list (str * V)) : sres (list (str * V)) :=
  match m with
  | [] => sbind (f d) (fun v => SOk [(k, v)])
  | (k', v) :: m' =>
      if str_eqb k k' then sbind (f v) (fun v' => SOk ((k', v') :: m'))
      else sbind (map_upd d k f m') (fun m'' => SOk ((k', v) :: m''))
  end.

(* format!("{}::{}", tool, model) *)
Definition tool_key (p : prompt) : str := p_tool p ++ [58; 58] ++ p_model p.

(* ---------- line_range_overlap_len ---------- *)
(* slice::partition_point on a partitioned slice = length of the prefix satisfying p *)
Fixpoint partition_point (p : N -> bool) (l : list N) : N :=
  match l with
  | [] => 0
  | x :: l' => if p x then 1 + partition_point p l' else 0
  end.

(* slice::binary_search(x).is_ok() on a sorted slice = membership *)
Definition bsearch_ok (x : N) (l : list N) : bool := existsb (N.eqb x) l.

Definition overlap_len (r : range) (added : list N) : N :=
  match r with
  | Single l => if bsearch_ok l added then 1 else 0
  | Range s e =>
      let start_idx := partition_point (fun x => x <? s) added in
      let end_idx := partition_point (fun x => x <=? e) added in
      as_u32 (sat_sub end_idx start_idx)
  end.

(* ---------- accepted_lines_from_attestations ---------- *)
(* entry.line_ranges.iter().map(overlap).sum::<u32>() *)
Definition entry_accepted (m : ovf) (added : list N) (e : entry) : sres N :=
  fold_res (fun acc r => uadd m acc (overlap_len r added)) (e_ranges e) 0.

Definition entry_step (m : ovf) (prompts : list (str * prompt)) (added : list N)
    (st : N * list (str * N)) (e : entry) : sres (N * list (str * N)) :=
  sbind (entry_accepted m added e) (fun a =>
    if a =? 0 then SOk st
    else
      sbind (uadd m (fst st) a) (fun total' =>
        match lookup (e_hash e) prompts with
        | Some p =>
            sbind (map_upd 0 (tool_key p) (fun v => uadd m v a) (snd st)) (fun per' => SOk (total', per'))
        | None => SOk (total', snd st)
        end)).

Definition file_step (m : ovf) (prompts : list (str * prompt)) (added : list (str * list N))
    (st : N * list (str * N)) (fa : fatt) : sres (N * list (str * N)) :=
  match lookup (f_path fa) added with
  | None => SOk st
  | Some ls => fold_res (entry_step m prompts ls) (f_entries fa) st
  end.

Definition accepted_from_attestations (m : ovf) (n : option note) (added : list (str * list N))
    (is_merge : bool) : sres (N * list (str * N)) :=
  if is_merge then SOk (0, [])
  else match n with
       | None => SOk (0, [])
       | Some n => fold_res (file_step m (n_prompts n) added) (n_atts n) (0, [])
       end.

(* ---------- stats_from_authorship_log ---------- *)
(* the body of the loop over log.metadata.prompts.values() on the tool entry *)
Definition tool_add_prompt (m : ovf) (p : prompt) (t : tool_stats) : sres tool_stats :=
  sbind (uadd m (t_total_add t) (p_total_add p)) (fun a =>
  sbind (uadd m (t_total_del t) (p_total_del p)) (fun d =>
  sbind (uadd m (t_mixed t) (p_overriden p)) (fun x =>
  SOk (mkTool (t_ai_additions t) x (t_accepted t) a d)))).

(* the loop over log.metadata.prompts.values(); state = (total_add, total_del, mixed, tools) *)
Definition prompt_step (m : ovf) (st : N * N * N * list (str * tool_stats)) (hp : str * prompt)
    : sres (N * N * N * list (str * tool_stats)) :=
  let '(ta, td, mx, tools) := st in
  let p := snd hp in
  sbind (uadd m ta (p_total_add p)) (fun ta' =>
  sbind (uadd m td (p_total_del p)) (fun td' =>
  sbind (uadd m mx (p_overriden p)) (fun mx' =>
  sbind (map_upd tool_default (tool_key p) (tool_add_prompt m p) tools) (fun tools' =>
  SOk (ta', td', mx', tools'))))).

Definition set_accepted (acc : N) (t : tool_stats) : tool_stats :=
  mkTool (t_ai_additions t) (t_mixed t) acc (t_total_add t) (t_total_del t).

Definition set_ai (a : N) (t : tool_stats) : tool_stats :=
  mkTool a (t_mixed t) (t_accepted t) (t_total_add t) (t_total_del t).

(* tool_stats.ai_accepted = *accepted, for (tool_model, accepted) in ai_accepted_by_tool *)
Definition accepted_step (ts : list (str * tool_stats)) (ka : str * N) : sres (list (str * tool_stats)) :=
  map_upd tool_default (fst ka) (fun t => SOk (set_accepted (snd ka) t)) ts.

(* tool_stats.ai_additions = tool_stats.ai_accepted + tool_stats.mixed_additions *)
Definition tool_finish (m : ovf) (kt : str * tool_stats) : sres (str * tool_stats) :=
  sbind (uadd m (t_accepted (snd kt)) (t_mixed (snd kt))) (fun a => SOk (fst kt, set_ai a (snd kt))).

Definition note_atts (n : option note) : list fatt := match n with Some n => n_atts n | None => [] end.
Definition note_prompts (n : option note) : list (str * prompt) :=
  match n with Some n => n_prompts n | None => [] end.

Definition stats_from_log (m : ovf) (n : option note) (git_added git_deleted ai_accepted : N)
    (by_tool : list (str * N)) : sres stats :=
  sbind (fold_res (prompt_step m) (note_prompts n) (0, 0, 0, [])) (fun st =>
  let '(ta, td, mx, tools) := st in
  (* cap of the total mixed additions *)
  let max_mixed := sat_sub git_added ai_accepted in
  let mixed := if max_mixed <? mx then max_mixed else mx in
  (* tool-level accepted counts *)
  sbind (fold_res accepted_step by_tool tools) (fun tools1 =>
  sbind (uadd m mixed ai_accepted) (fun ai =>
  sbind (map_res (tool_finish m) tools1) (fun tools2 =>
  let human := sat_sub git_added ai_accepted in
  SOk (mkStats human mixed ai ai_accepted ta td git_deleted git_added tools2))))).

(* ---------- stats_for_commit_stats: the glue ---------- *)
(* lines.sort_unstable(); lines.dedup();  -- the result is the strictly increasing list of the
   distinct elements, whatever algorithm produces it *)
Fixpoint insert_uniq (x : N) (l : list N) : list N :=
  match l with
  | [] => [x]
  | y :: l' => if x <? y then x :: l else if x =? y then l else y :: insert_uniq x l'
  end.

Definition sort_dedup (l : list N) : list N := fold_right insert_uniq [] l.

(* added_lines_by_file.retain(|p, _| !ignored(p)); then sort + dedup of every value;
   a merge commit starts from the empty map *)
Definition prep_added (ignored : str -> bool) (raw : list (str * list N)) (is_merge : bool)
    : list (str * list N) :=
  if is_merge then []
  else map (fun kv => (fst kv, sort_dedup (snd kv))) (filter (fun kv => negb (ignored (fst kv))) raw).

(* steps 3-5 of stats_for_commit_stats; git_added / git_deleted come from parse_numstat *)
Definition commit_stats (m : ovf) (ignored : str -> bool) (n : option note)
    (raw_added : list (str * list N)) (is_merge : bool) (git_added git_deleted : N) : sres stats :=
  sbind (accepted_from_attestations m n (prep_added ignored raw_added is_merge) is_merge)
    (fun r => stats_from_log m n git_added git_deleted (fst r) (snd r)).

(* ---------- get_git_diff_stats: the numstat loop ---------- *)
Definition numstat_line (m : ovf) (ignored : str -> bool) (st : N * N) (line : str) : sres (N * N) :=
  if forallb is_ws line then SOk st                        (* line.trim().is_empty() *)
  else if negb (match line with c :: _ => is_digit c | [] => false end) then SOk st
  else
    match split_on c_tab line with
    | p0 :: p1 :: p2 :: _ =>
        if ignored p2 then SOk st
        else
          sbind (match parse_u32 p0 with Some a => uadd m (fst st) a | None => SOk (fst st) end)
            (fun added' =>
          sbind (if str_eqb p1 [c_dash] then SOk (snd st)
                 else match parse_u32 p1 with Some d => uadd m (snd st) d | None => SOk (snd st) end)
            (fun deleted' => SOk (added', deleted')))
    | _ => SOk st
    end.

Definition parse_numstat (m : ovf) (ignored : str -> bool) (text : str) : sres (N * N) :=
  fold_res (numstat_line m ignored) (lines text) (0, 0).

(* the whole of stats_for_commit_stats given git's two outputs *)
Definition stats_for_commit (m : ovf) (ignored : str -> bool) (numstat : str) (n : option note)
    (raw_added : list (str * list N)) (is_merge : bool) : sres stats :=
  sbind (parse_numstat m ignored numstat) (fun g =>
    commit_stats m ignored n raw_added is_merge (fst g) (snd g)).

(* ---------- specification-side notions (used by the statements of C19) ---------- *)
Definition in_range (r : range) (x : N) : bool :=
  match r with
  | Single l => x =? l
  | Range s e => (s <=? x) && (x <=? e)
  end.

(* the note attributes line x of the file to AI *)
Definition ai_line (es : list entry) (x : N) : bool :=
  existsb (fun e => existsb (fun r => in_range r x) (e_ranges e)) es.

Definition all_ranges (es : list entry) : list range := flat_map e_ranges es.

Definition range_lo (r : range) : N := match r with Single l => l | Range s _ => s end.
Definition range_hi (r : range) : N := match r with Single l => l | Range _ e => e end.

(* the line sets of two ranges do not meet *)
Definition ranges_disjoint (r1 r2 : range) : bool :=
  (range_hi r1 <? range_lo r1) || (range_hi r2 <? range_lo r2)
  || (range_hi r1 <? range_lo r2) || (range_hi r2 <? range_lo r1).

Fixpoint pairwise {A} (p : A -> A -> bool) (l : list A) : bool :=
  match l with
  | [] => true
  | x :: l' => forallb (p x) l' && pairwise p l'
  end.

Fixpoint str_nodup (l : list str) : bool :=
  match l with
  | [] => true
  | x :: l' => negb (existsb (str_eqb x) l') && str_nodup l'
  end.

(* what a well-formed note satisfies (C05), in three independent parts:
   per file all listed ranges are pairwise disjoint as line sets; no file has two sections;
   every session hash has a prompt record *)
Definition note_disjoint (n : note) : bool :=
  forallb (fun fa => pairwise ranges_disjoint (all_ranges (f_entries fa))) (n_atts n).

Definition note_paths_unique (n : note) : bool := str_nodup (map f_path (n_atts n)).

Definition note_prompts_present (n : note) : bool :=
  forallb (fun fa => forallb (fun e => match lookup (e_hash e) (n_prompts n) with Some _ => true | None => false end)
                       (f_entries fa)) (n_atts n).

Definition note_ok (n : note) : bool :=
  note_disjoint n && note_paths_unique n && note_prompts_present n.

(* a commit without a note satisfies all of them *)
Definition olift (p : note -> bool) (n : option note) : bool :=
  match n with Some n => p n | None => true end.

Definition onote_ok (n : option note) : bool := olift note_ok n.

(* number of distinct added lines of non-ignored files = what numstat must report as added *)
Definition added_count (ignored : str -> bool) (raw : list (str * list N)) : N :=
  fold_right (fun kv acc => if ignored (fst kv) then acc
                            else N.of_nat (length (nodup N.eq_dec (snd kv))) + acc) 0 raw.

(* | note AI lines  /\  lines added by the commit |, over the non-ignored files *)
Definition inter_count (ignored : str -> bool) (n : option note) (raw : list (str * list N)) : N :=
  match n with
  | None => 0
  | Some n =>
      fold_right (fun fa acc =>
          if ignored (f_path fa) then acc
          else match lookup (f_path fa) raw with
               | Some ls => N.of_nat (length (filter (ai_line (f_entries fa)) (nodup N.eq_dec ls))) + acc
               | None => acc
               end) 0 (n_atts n)
  end.

Definition sum_tools (f : tool_stats -> N) (ts : list (str * tool_stats)) : N :=
  fold_right (fun kt acc => f (snd kt) + acc) 0 ts.

Definition sum_overriden (n : option note) : N :=
  match n with
  | None => 0
  | Some n => fold_right (fun hp acc => p_overriden (snd hp) + acc) 0 (n_prompts n)
  end.

(* Known class C19-K1: the cap of the total mixed additions fires (the per-tool
   mixed_additions are not capped) *)
Definition Known_C19 (n : option note) (git_added accepted : N) : bool :=
  sat_sub git_added accepted <? sum_overriden n.

(* the per-tool breakdown sums to the totals *)
Definition tools_sum_ok (s : stats) : bool :=
  (sum_tools t_accepted (s_tools s) =? s_accepted s)
  && (sum_tools t_mixed (s_tools s) =? s_mixed s)
  && (sum_tools t_ai_additions (s_tools s) =? s_ai_additions s)
  && (sum_tools t_total_add (s_tools s) =? s_total_add s)
  && (sum_tools t_total_del (s_tools s) =? s_total_del s).
