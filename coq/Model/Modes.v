(* Model/Modes.v — the two front ends of git-ai as event translators into the same core.
   Definitions only.

   wrapper:  src/commands/git_handlers.rs  run_pre_command_hooks / run_post_command_hooks and the
             per-command hook bodies in src/commands/hooks/{commit,rebase,cherry_pick,reset,stash,
             merge,checkout,switch,fetch}_hooks.rs                                  -> wrap_events
   hooks:    src/commands/git_hook_handlers.rs  handle_git_hook_invocation, hook_requires_managed_repo_lookup,
             run_managed_hook and its helpers, with the side-state files explicit    -> hook_events
   git:      which hooks git 2.39 fires for a command, with which arguments and in which repository
             state (a FACT about git, monitored by the tracing hooks of vlib/c13.py)  -> git_fires

   core_event = what reaches the shared core: the RewriteLogEvent constructors that the front ends
   produce (journal lines, through handle_rewrite_log_event / append_rewrite_event) and the direct calls
   (pre_commit::pre_commit, checkpoint::run(Human), rename / delete of a working log,
   reconstruct_working_log_after_reset, path-attribution removal, stash save / restore).

   Abstracted (decision skeleton only): argument parsing (a command class stands for the parsed shape);
   the content of the core operations; installation and forwarding of user hooks; --merge / --force
   checkout variants, stash pathspecs, autostash, rebase-apply; the cherry-pick batch file (written and
   consumed within one post-commit run, see maybe_record_cherry_pick_post_commit); Windows. *)
From Coq Require Import List NArith Bool.
From Verif Require Import Gen.GenModes.
Import ListNotations.
Open Scope N_scope.

Definition sha := N.
Definition is_null (x : sha) : bool := x =? 0.        (* the all-zero object id *)

Inductive reset_kind := RHard | RSoft | RMixed.

Inductive core_event :=
| ECommit (base : option sha) (new : sha)
| ECommitAmend (orig new : sha)
| ERebaseStart (orig : sha) (interactive : bool) (onto : option sha)
| ERebaseComplete (orig new : sha) (interactive : bool) (origs news : list sha)
| ERebaseAbort (orig : sha)
| ECherryPickStart (orig : sha) (srcs : list sha)
| ECherryPickComplete (orig new : sha) (srcs news : list sha)
| ECherryPickAbort (orig : sha)
| EReset (k : reset_kind) (new old : sha)
| EMergeSquash (src base : sha)
| EPreCommitCheckpoint                                   (* pre_commit::pre_commit *)
| EHumanCheckpoint                                       (* checkpoint::run(Human) of pre_reset / pre_stash *)
| ERenameWorkingLog (old new : sha)
| EDeleteWorkingLog (base : sha)
| EReconstructAfterReset (target old : sha) (pathspec : bool)
| ERemovePathAttributions (head : sha)
| ESaveStash                                             (* save_stash_authorship_log for stash@{0} *)
| ERestoreStash (stash : sha)
| ERestoreStashedVA (old new : sha).                     (* restore_stashed_va after pull --rebase --autostash *)

Definition kind_of (e : core_event) : option rewrite_kind :=
  match e with
  | ECommit _ _ => Some RK_Commit
  | ECommitAmend _ _ => Some RK_CommitAmend
  | ERebaseStart _ _ _ => Some RK_RebaseStart
  | ERebaseComplete _ _ _ _ _ => Some RK_RebaseComplete
  | ERebaseAbort _ => Some RK_RebaseAbort
  | ECherryPickStart _ _ => Some RK_CherryPickStart
  | ECherryPickComplete _ _ _ _ => Some RK_CherryPickComplete
  | ECherryPickAbort _ => Some RK_CherryPickAbort
  | EReset _ _ _ => Some RK_Reset
  | EMergeSquash _ _ => Some RK_MergeSquash
  | _ => None
  end.

(* a journal line is appended for exactly these *)
Definition in_journal (e : core_event) : bool := match kind_of e with Some _ => true | None => false end.
Definition journal (l : list core_event) : list core_event := filter in_journal l.

(* events that change notes or pending attribution: the direct calls, and the journal lines on which
   rewrite_authorship_if_needed acts (GenModes.effectful_kinds); RebaseStart, RebaseAbort,
   CherryPickStart, CherryPickAbort and Reset lines are bookkeeping *)
Definition effectful (e : core_event) : bool :=
  match kind_of e with
  | Some k => existsb (rewrite_kind_eqb k) effectful_kinds
  | None => true
  end.

(* is_interactive is written to the journal and never read by the rewriting code (checked by GenModes) *)
Definition norm (e : core_event) : core_event :=
  match e with
  | ERebaseComplete o n _ os ns => ERebaseComplete o n false os ns
  | e => e
  end.

(* ---- events modulo commit ids *)
Inductive shape :=
| SCommit (has_base : bool) | SCommitAmend | SRebaseStart (interactive : bool) | SRebaseComplete (interactive : bool) (n_orig n_new : nat)
| SRebaseAbort | SCherryPickStart (n : nat) | SCherryPickComplete (n_src n_new : nat) | SCherryPickAbort
| SReset (k : reset_kind) | SMergeSquash | SPreCommitCheckpoint | SHumanCheckpoint | SRenameWorkingLog
| SDeleteWorkingLog | SReconstructAfterReset (pathspec : bool) | SRemovePathAttributions | SSaveStash | SRestoreStash
| SRestoreStashedVA.

Definition shape_of (e : core_event) : shape :=
  match e with
  | ECommit b _ => SCommit (match b with Some _ => true | None => false end)
  | ECommitAmend _ _ => SCommitAmend
  | ERebaseStart _ i _ => SRebaseStart i
  | ERebaseComplete _ _ i os ns => SRebaseComplete i (length os) (length ns)
  | ERebaseAbort _ => SRebaseAbort
  | ECherryPickStart _ s => SCherryPickStart (length s)
  | ECherryPickComplete _ _ s n => SCherryPickComplete (length s) (length n)
  | ECherryPickAbort _ => SCherryPickAbort
  | EReset k _ _ => SReset k
  | EMergeSquash _ _ => SMergeSquash
  | EPreCommitCheckpoint => SPreCommitCheckpoint
  | EHumanCheckpoint => SHumanCheckpoint
  | ERenameWorkingLog _ _ => SRenameWorkingLog
  | EDeleteWorkingLog _ => SDeleteWorkingLog
  | EReconstructAfterReset _ _ p => SReconstructAfterReset p
  | ERemovePathAttributions _ => SRemovePathAttributions
  | ESaveStash => SSaveStash
  | ERestoreStash _ => SRestoreStash
  | ERestoreStashedVA _ _ => SRestoreStashedVA
  end.

Definition erase_shas (l : list core_event) : list shape := map shape_of l.

(* ------------------------------------------------------------------------------------------------
   what a hook process sees
   ------------------------------------------------------------------------------------------------ *)
Record reflog_action := mkRA {
  ra_set : bool;            (* GIT_REFLOG_ACTION is in the environment *)
  ra_pull : bool;           (* starts with pull *)
  ra_amend : bool;          (* contains amend *)
  ra_reset : bool;          (* starts with reset: *)
  ra_rebase_abort : bool;
  ra_cp_abort : bool;
  ra_popish : bool          (* contains pop / apply / autostash *)
}.
Definition ra_none : reflog_action := mkRA false false false false false false false.
Definition ra_pull_action : reflog_action := mkRA true true false false false false false.

Inductive phase := Prepared | Committed | Aborted.

Inductive hook_args :=
| ANone
| APostRewrite (is_rebase is_amend : bool) (pairs : list (sha * sha))
| APostCheckout (old new : sha)
| APostMerge (squash : bool)
| ARefTx (ph : phase) (stash_upd head_upd : option (sha * sha)) (touches_head touches_branch : bool).
    (* touches_head: the transaction has a line for HEAD; touches_branch: a line for some refs/heads/... *)

Record henv := mkEnv {
  e_ra : reflog_action;
  e_rb : bool;                  (* rebase-merge or rebase-apply exists *)
  e_cph : option sha;           (* content of CHERRY_PICK_HEAD *)
  e_seq : bool;                 (* the sequencer directory exists *)
  e_seq_src : option sha;       (* last entry of sequencer/done *)
  e_head : option sha;          (* HEAD now *)
  e_parent : option sha;        (* HEAD^ *)
  e_prev : option sha;          (* HEAD@{1} *)
  e_prev_root : bool;           (* HEAD@{1} has no parent *)
  e_reflog_reset : bool;        (* subject of the newest HEAD reflog entry starts with reset: *)
  e_dirty : bool;               (* staged or unstaged changes *)
  e_stash_count : nat;          (* git stash list | wc -l *)
  e_todo_empty : bool;          (* rebase-merge/git-rebase-todo is blank *)
  e_noop_done : bool;           (* rebase-merge/done consists of noop lines *)
  e_ff_pull : bool;             (* newest reflog entry is `pull...: Fast-forward` for HEAD *)
  e_map : list sha * list sha;  (* build_rebase_commit_mappings(old head, HEAD, upstream) *)
  e_squash_src : option sha;    (* MERGE_HEAD / first commit of SQUASH_MSG *)
  e_backward : bool;            (* merge_base(new, old) = new for the HEAD update *)
  e_journal_active : bool;      (* has_active_rebase_start_event *)
  e_arg_branch : option sha;    (* second positional of pre-rebase, resolved *)
  e_arg_upstream : option sha   (* first positional of pre-rebase, resolved *)
}.

Record firing := mkFiring { h_name : hook_name; h_args : hook_args; h_env : henv }.

(* ---- the side-state files kept between the hook processes of one command (.git/ai/...) *)
Record side_state := mkSide {
  s_mask : bool;                       (* rebase_hook_mask_state.json: maskable hooks are renamed away *)
  s_pull_old : option sha;             (* pull_hook_state.json *)
  s_stash_before : option nat;         (* stash_ref_tx_state.json *)
  s_cp : option (sha * sha)            (* cherry_pick_hook_state: source, base *)
}.
Definition init : side_state := mkSide false None None None.

Definition is_managed (n : hook_name) : bool := existsb (hook_name_eqb n) managed_hook_names.
Definition is_terminal (n : hook_name) : bool := existsb (hook_name_eqb n) rebase_terminal_hook_names.
(* maybe_enable_rebase_hook_mask renames every managed hook that is not terminal *)
Definition maskable (n : hook_name) : bool := is_managed n && negb (is_terminal n).

Definition cp_in_progress (e : henv) : bool := (match e_cph e with Some _ => true | None => false end) || e_seq e.

(* the reference names that make hook_requires_managed_repo_lookup do the repository lookup for a
   reference-transaction (GenModes reads the filter from the source) *)
Definition relevant_refs (touches_head touches_branch : bool) : bool :=
  (reftx_lookup_on_HEAD && touches_head) || (reftx_lookup_on_refs_heads && touches_branch).

(* hook_requires_managed_repo_lookup *)
Definition requires_lookup (rewrite_stash : bool) (fi : firing) : bool :=
  let e := h_env fi in
  match h_name fi with
  | HN_pre_commit | HN_post_commit => negb (e_rb e)
  | HN_prepare_commit_msg => negb (e_rb e) && (match e_cph e with Some _ => true | None => false end)
  | HN_reference_transaction =>
      match h_args fi with
      | ARefTx ph st _ th tb =>
          if (match st with Some _ => true | None => false end) && rewrite_stash then true
          else match ph with
               | Committed =>
                   if ra_set (e_ra e) then ra_reset (e_ra e)
                   else if e_rb e || cp_in_progress e then false else relevant_refs th tb
               | _ => false
               end
      | _ => false
      end
  | n => is_managed n
  end.

(* maybe_capture_cherry_pick_pre_commit_state *)
Definition capture_cp (st : side_state) (e : henv) : side_state :=
  match e_cph e with
  | None => mkSide (s_mask st) (s_pull_old st) (s_stash_before st) None
  | Some src =>
      match e_head e with
      | Some b => mkSide (s_mask st) (s_pull_old st) (s_stash_before st) (Some (src, b))
      | None => st
      end
  end.
Definition clear_cp (st : side_state) : side_state := mkSide (s_mask st) (s_pull_old st) (s_stash_before st) None.
Definition clear_pull (st : side_state) : side_state := mkSide (s_mask st) None (s_stash_before st) (s_cp st).
Definition set_mask (b : bool) (st : side_state) : side_state := mkSide b (s_pull_old st) (s_stash_before st) (s_cp st).
Definition set_stash (x : option nat) (st : side_state) : side_state := mkSide (s_mask st) (s_pull_old st) x (s_cp st).
Definition set_pull (x : option sha) (st : side_state) : side_state := mkSide (s_mask st) x (s_stash_before st) (s_cp st).

Definition opt_eqb (a b : option sha) : bool :=
  match a, b with Some x, Some y => x =? y | None, None => true | _, _ => false end.

(* is_post_commit_for_cherry_pick *)
Definition post_commit_is_cp (st : side_state) (e : henv) : bool :=
  match e_cph e with
  | Some _ => true
  | None =>
      if e_seq e && (match e_seq_src e with Some _ => true | None => false end) then true
      else match s_cp st with
           | Some (_, b) => opt_eqb (e_parent e) (Some b)
           | None => false
           end
  end.

(* is_post_commit_amend *)
Definition post_commit_is_amend (e : henv) : bool :=
  if ra_amend (e_ra e) then true
  else match e_prev e, e_head e with
       | Some p, Some _ =>
           match e_parent e with
           | Some q => negb (p =? q)
           | None => e_prev_root e
           end
       | _, _ => false
       end.

(* maybe_record_cherry_pick_post_commit (+ immediate maybe_finalize_cherry_pick_batch_state(force)) *)
Definition record_cp (st : side_state) (e : henv) : list core_event * side_state :=
  match e_head e with
  | None => ([], clear_cp st)
  | Some new_head =>
      match e_parent e with
      | None => ([], clear_cp st)
      | Some orig =>
          let src :=
            match e_cph e with
            | Some s => Some s
            | None =>
                match (if e_seq e then e_seq_src e else None) with
                | Some s => Some s
                | None => match s_cp st with
                          | Some (s, b) => if b =? orig then Some s else None
                          | None => None
                          end
                end
            end in
          match src with
          | None => ([], st)
          | Some s =>
              if s =? new_head then ([], clear_cp st)
              else ([ECherryPickComplete orig new_head [s] [new_head]], clear_cp st)
          end
      end
  end.

Definition last_or {A} (l : list A) (d : A) : A := last l d.

(* handle_rebase_post_rewrite_from_stdin *)
Definition rebase_from_stdin (e : henv) (pairs : list (sha * sha)) : list core_event :=
  match pairs with
  | [] => []
  | _ =>
      let olds := map fst pairs in
      let news := map snd pairs in
      let orig := last_or olds 0 in
      let new_head := match e_head e with Some h => h | None => last_or news 0 end in
      [ERebaseComplete orig new_head false olds news]
  end.

(* maybe_handle_pull_post_rewrite (after the is_pull_reflog_action test) *)
Definition pull_post_rewrite (st : side_state) (e : henv) : list core_event * side_state :=
  match e_head e with
  | None => ([], clear_pull st)
  | Some new_head =>
      match (match s_pull_old st with Some o => Some o | None => e_prev e end) with
      | None => ([], clear_pull st)
      | Some old =>
          if old =? new_head then ([], clear_pull st)
          else
            (* the working log is renamed BEFORE the noop / empty-mapping early returns (GenModes reads the order) *)
            let rn := if pull_renames_before_early_exits then [ERenameWorkingLog old new_head] else [] in
            if e_noop_done e then (rn, clear_pull st)
            else match e_map e with
                 | ([], _) | (_, []) => (rn, clear_pull st)
                 | (os, ns) => (rn ++ [ERebaseComplete old new_head false os ns], clear_pull st)
                 end
      end
  end.

(* checkout_hooks::post_checkout_hook as called from the post-checkout hook: parsed_invocation("checkout", [])
   carries no pathspec, no --force, no --merge *)
Definition checkout_core (old : sha) (e : henv) : list core_event :=
  match e_head e with
  | None => []
  | Some new_head => if old =? new_head then [] else [ERenameWorkingLog old new_head]
  end.

(* maybe_handle_stash_reference_transaction *)
Definition stash_reftx (rewrite_stash : bool) (st : side_state) (ph : phase) (upd : option (sha * sha)) (e : henv)
  : list core_event * side_state :=
  if negb rewrite_stash then ([], set_stash None st)
  else match ph with
  | Aborted => ([], set_stash None st)
  | Prepared =>
      match upd with
      | Some _ => ([], set_stash (Some (e_stash_count e)) st)
      | None => ([], st)
      end
  | Committed =>
      match upd with
      | None => ([], set_stash None st)
      | Some (old, new) =>
          let before := match s_stash_before st with
                        | Some n => n
                        | None => if is_null old then 0%nat else 1%nat
                        end in
          let after := e_stash_count e in
          let st' := set_stash None st in
          if negb (is_null new) && (is_null old || Nat.ltb before after) then ([ESaveStash], st')
          else if negb (is_null old) && (is_null new || Nat.ltb after before) then
                 (if e_dirty e then [ERestoreStash old] else [], st')
          else if negb (is_null old) && negb (is_null new) then
                 (if ra_popish (e_ra e) then (if e_dirty e then [ERestoreStash old] else []) else [ESaveStash], st')
          else ([], st')
      end
  end.

(* maybe_handle_reset_reference_transaction *)
Definition reset_reftx (ph : phase) (head_upd : option (sha * sha)) (e : henv) : list core_event :=
  match ph with
  | Committed =>
      if (if ra_set (e_ra e) then ra_reset (e_ra e) else e_reflog_reset e) then
        match head_upd with
        | None => []
        | Some (old, new) =>
            if is_null old || is_null new then []
            else if old =? new then []
            else if negb (e_backward e) then []
            else if e_dirty e then [EReconstructAfterReset new old false]
            else [EDeleteWorkingLog old]
        end
      else []
  | _ => []
  end.

(* run_managed_hook, after the preamble *)
Definition dispatch (rewrite_stash : bool) (st : side_state) (fi : firing) : list core_event * side_state :=
  let e := h_env fi in
  match h_name fi with
  | HN_pre_commit =>
      (* both arms call maybe_capture_cherry_pick_pre_commit_state (GenModes reads which do): the cherry-pick arm records
         (source, base); the ordinary arm is the only place a left-over cherry_pick_hook_state file is cleared *)
      if e_rb e then ([], st)
      else if cp_in_progress e then ([], if precommit_cp_arm_captures then capture_cp st e else st)
      else ([EPreCommitCheckpoint], if precommit_ordinary_arm_captures then capture_cp st e else st)
  | HN_prepare_commit_msg =>
      if e_rb e then ([], st) else ([], capture_cp st e)
  | HN_post_commit =>
      if e_rb e then ([], st)
      else if post_commit_is_cp st e then record_cp st e
      else if post_commit_is_amend e then ([], st)
      else match e_head e with
           | Some new => ([ECommit (e_parent e) new], st)
           | None => ([], st)
           end
  | HN_pre_rebase =>
      let st1 := set_mask true st in
      if ra_pull (e_ra e) then
        (match e_head e with Some h => ([], set_pull (Some h) st1) | None => ([], st1) end)
      else if e_rb e && e_journal_active e then ([], st1)
      else match e_head e with
           | Some h => ([ERebaseStart (match e_arg_branch e with Some b => b | None => h end) false (e_arg_upstream e)], st1)
           | None => ([], st1)
           end
  | HN_post_rewrite =>
      match h_args fi with
      | APostRewrite true _ pairs =>
          let '(ev, st1) := if ra_pull (e_ra e) then pull_post_rewrite st e else (rebase_from_stdin e pairs, st) in
          (ev, set_mask false st1)
      | APostRewrite false true pairs =>
          if e_rb e then ([], st) else (map (fun p => ECommitAmend (fst p) (snd p)) pairs, st)
      | _ => ([], st)
      end
  | HN_post_checkout =>
      match h_args fi with
      | APostCheckout old new =>
          let pull_rebase_checkout := ra_pull (e_ra e) && e_rb e in
          let ev1 := if pull_rebase_checkout then [] else checkout_core old e in
          let '(ev2, st2) :=
            if ra_pull (e_ra e) && e_rb e && e_todo_empty e
            then (let '(ev, s) := pull_post_rewrite st e in (ev, set_mask false s))
            else ([], st) in
          let st3 := if ra_rebase_abort (e_ra e) then set_mask false st2 else st2 in
          let st4 := if ra_cp_abort (e_ra e) then clear_cp st3 else st3 in
          (ev1 ++ ev2, st4)
      | _ => ([], st)
      end
  | HN_post_merge =>
      match h_args fi with
      | APostMerge squash =>
          let head := e_head e in
          let sq :=
            if squash then
              match e_squash_src e, head with
              | Some src, Some b => Some [EMergeSquash src b]
              | None, _ => None                 (* could not resolve the source: return 0 at once *)
              | _, None => Some []
              end
            else Some [] in
          match sq with
          | None => ([], st)
          | Some ev =>
              let pull_ev :=
                if ra_pull (e_ra e) && e_ff_pull e then
                  match e_prev e, head with
                  | Some old, Some new => if old =? new then [] else [ERenameWorkingLog old new]
                  | _, _ => []
                  end
                else [] in
              (ev ++ pull_ev, st)
          end
      | _ => ([], st)
      end
  | HN_reference_transaction =>
      match h_args fi with
      | ARefTx ph stash_upd head_upd _ _ =>
          let '(ev1, st1) := stash_reftx rewrite_stash st ph stash_upd e in
          (ev1 ++ reset_reftx ph head_upd e, st1)
      | _ => ([], st)
      end
  | _ => ([], st)        (* pre-push: notes transport only *)
  end.

(* one hook process.  skip = GITAI_SKIP_MANAGED_HOOKS=1 in the environment (set by the wrapper for its child git) *)
Definition hook_step (rewrite_stash skip : bool) (st : side_state) (fi : firing) : list core_event * side_state :=
  if s_mask st && maskable (h_name fi) then ([], st)               (* the file is renamed away: git finds no hook *)
  else if skip then ([], st)
  else if negb (requires_lookup rewrite_stash fi) then ([], st)
  else
    (* maybe_restore_stale_rebase_hooks *)
    let st1 := if s_mask st && negb (e_rb (h_env fi)) then set_mask false st else st in
    dispatch rewrite_stash st1 fi.

Fixpoint hook_run (rs skip : bool) (fs : list firing) (st : side_state) : list core_event * side_state :=
  match fs with
  | [] => ([], st)
  | fi :: rest =>
      let '(ev, st1) := hook_step rs skip st fi in
      let '(evs, st2) := hook_run rs skip rest st1 in
      (ev ++ evs, st2)
  end.

Definition hook_events (fs : list firing) (st : side_state) : list core_event * side_state :=
  hook_run rewrite_stash_default_debug false fs st.

(* ------------------------------------------------------------------------------------------------
   command classes supported by both modes, and the facts of one execution
   ------------------------------------------------------------------------------------------------ *)
Inductive command_class :=
| CCommit | CCommitAmend
| CRebase | CRebaseI | CRebaseContinue | CRebaseAbort
| CCherryPick | CCherryPickContinue | CCherryPickAbort
| CResetSoft | CResetMixed | CResetHard | CResetPath
| CStashPush | CStashPop | CStashApply | CStashDrop
| CMergeSquash
| CCheckoutBranch | CSwitchBranch | CCheckoutPath
| CPullFF | CPullRebase.

Definition all_classes : list command_class :=
  [CCommit; CCommitAmend; CRebase; CRebaseI; CRebaseContinue; CRebaseAbort; CCherryPick; CCherryPickContinue;
   CCherryPickAbort; CResetSoft; CResetMixed; CResetHard; CResetPath; CStashPush; CStashPop; CStashApply; CStashDrop;
   CMergeSquash; CCheckoutBranch; CSwitchBranch; CCheckoutPath; CPullFF; CPullRebase].

Definition command_of (c : command_class) : git_command :=
  match c with
  | CCommit | CCommitAmend => GC_commit
  | CRebase | CRebaseI | CRebaseContinue | CRebaseAbort => GC_rebase
  | CCherryPick | CCherryPickContinue | CCherryPickAbort => GC_cherry_pick
  | CResetSoft | CResetMixed | CResetHard | CResetPath => GC_reset
  | CStashPush | CStashPop | CStashApply | CStashDrop => GC_stash
  | CMergeSquash => GC_merge
  | CCheckoutBranch | CCheckoutPath => GC_checkout
  | CSwitchBranch => GC_switch
  | CPullFF | CPullRebase => GC_pull
  end.

(* a commit made by the sequencer (cherry-pick) in this process *)
Record made := mkMade {
  m_src : sha; m_new : sha; m_parent : sha;
  m_cph : bool;        (* CHERRY_PICK_HEAD still exists when post-commit runs (a pick without conflict) *)
  m_seq : bool         (* the sequencer directory exists (more than one commit was requested) *)
}.

Record outcome_facts := mkFacts {
  f_head : option sha;            (* HEAD when the command starts *)
  f_head_after : option sha;
  f_parent_after : option sha;    (* first parent of HEAD afterwards *)
  f_prev_root : bool;             (* the previous HEAD was a root commit *)
  f_exit_ok : bool;
  (* repository state a plain commit may run in *)
  f_rb_now : bool;                (* a rebase is stopped *)
  f_cph_now : option sha;         (* a cherry-pick is stopped on this commit *)
  (* sequencer operations *)
  f_in_progress : bool;           (* state directory exists before the command *)
  f_in_progress_after : bool;
  f_journal_active : bool;        (* an active Start event of this kind is in the journal before the command *)
  f_journal_start : option sha;   (* original_head of the newest Start event before the command *)
  f_journal_srcs : list sha;      (* source_commits of the newest CherryPickStart before the command *)
  f_onto : option sha;            (* what the wrapper resolves from --onto / upstream *)
  f_upstream : option sha;        (* first argument of the pre-rebase hook, resolved *)
  f_co_head : option sha;         (* HEAD after the checkout that starts the rebase (second argument of post-checkout) *)
  f_branch : option sha;          (* explicit <branch> argument, resolved *)
  f_uptodate : bool;              (* git found nothing to do and ran no hook *)
  f_picks : list (sha * sha);     (* lines of post-rewrite rebase, [] = the hook did not fire *)
  f_origs : list sha;             (* build_rebase_commit_mappings *)
  f_news : list sha;
  f_noise : list firing;          (* hooks git fires while the rebase runs (per pick, squash, reword) *)
  f_srcs : list sha;              (* cherry-pick: sources parsed from the arguments *)
  f_made : list made;             (* cherry-pick: commits created by this process *)
  (* reset *)
  f_target : option sha;
  f_backward : bool;
  f_dirty_after : bool;
  (* stash *)
  f_stash_top : option sha;       (* stash@{0} before the command *)
  f_stash_before : nat;
  f_stash_after : nat;
  f_stash_new : option sha;       (* the entry the command created *)
  (* merge --squash *)
  f_squash_src : option sha;
  f_merged : bool;                (* something was merged (git fires post-merge) *)
  (* what the core would find *)
  f_wl_pending : bool;            (* a working-log directory exists for the HEAD the command starts from *)
  f_uncheckpointed : bool;        (* the work tree differs from what the newest checkpoint recorded *)
  f_path_pending : bool;          (* the working log holds attribution for the checked-out path *)
  f_detached : bool;              (* HEAD is detached when the command starts: a move of HEAD updates no refs/heads/... *)
  f_autostash_va : bool;          (* pull --rebase --autostash with pending attribution: the wrapper captured a VirtualAttributions *)
  f_msg_aborted : bool;           (* a failing git commit got as far as the message hooks (empty message, commit-msg hook, editor) *)
  f_upstream_touches_pending : bool (* a file with pending attribution changes without a checkpoint before it is committed
                                       (the pulled commits touch it, or a person edits it afterwards) *)
}.

(* core operations that are no-ops in the given repository: rename_working_log of a missing directory or
   onto itself, a human checkpoint with nothing to record, path removal with nothing recorded *)
Definition live (f : outcome_facts) (e : core_event) : bool :=
  match e with
  | ERenameWorkingLog old new =>
      negb (old =? new) && (if opt_eqb (Some old) (f_head f) then f_wl_pending f else true)
  | EHumanCheckpoint => f_uncheckpointed f
  | ERemovePathAttributions _ => f_path_pending f
  | _ => true
  end.

(* carrying pending attribution from the old to the new HEAD: restore_stashed_va re-derives it by content,
   rename_working_log moves the checkpoints verbatim; the two coincide as long as the pending files change only
   under checkpoints until they are committed (K13 otherwise) *)
Definition carry (f : outcome_facts) (e : core_event) : core_event :=
  match e with
  | ERestoreStashedVA o n => if f_upstream_touches_pending f then e else ERenameWorkingLog o n
  | e => e
  end.

Definition effects (f : outcome_facts) (l : list core_event) : list core_event :=
  map (fun e => carry f (norm e)) (filter (fun e => effectful e && live f e) l).

(* ------------------------------------------------------------------------------------------------
   wrapper: run_pre_command_hooks ++ run_post_command_hooks
   ------------------------------------------------------------------------------------------------ *)
Definition or_else {A} (a b : option A) : option A := match a with Some _ => a | None => b end.

Definition wrap_commit (amend : bool) (f : outcome_facts) : list core_event :=
  [EPreCommitCheckpoint] ++
  (if f_exit_ok f then
     match f_head_after f with
     | None => []
     | Some n =>
         if amend then match f_head f with
                       | Some o => [ECommitAmend o n]
                       | None => [ECommit None n]
                       end
         else [ECommit (f_head f) n]
     end
   else []).

(* pre_rebase_hook + handle_rebase_post_command / process_completed_rebase *)
Definition wrap_rebase (interactive : bool) (f : outcome_facts) : list core_event :=
  let continuing := f_in_progress f && f_journal_active f in
  let start := match f_head f with
               | Some h => Some (match f_branch f with Some b => b | None => h end)
               | None => None
               end in
  let pre := if continuing then [] else
               match start with Some o => [ERebaseStart o interactive (f_onto f)] | None => [] end in
  let ctx := if continuing then None else start in
  let post :=
    if f_in_progress_after f then []
    else
      let orig := or_else ctx (f_journal_start f) in
      if negb (f_exit_ok f) then match orig with Some o => [ERebaseAbort o] | None => [] end
      else match orig, f_head_after f with
           | Some o, Some n =>
               if o =? n then []
               else match f_origs f, f_news f with
                    | [], _ => []
                    | _, [] => []
                    | os, ns => [ERebaseComplete o n interactive os ns]
                    end
           | _, _ => []
           end in
  pre ++ post.

(* pre_cherry_pick_hook + post_cherry_pick_hook / process_completed_cherry_pick *)
Definition wrap_cherry_pick (f : outcome_facts) : list core_event :=
  let continuing := f_in_progress f && f_journal_active f in
  let pre := if continuing then [] else
               match f_head f with Some h => [ECherryPickStart h (f_srcs f)] | None => [] end in
  let orig := if continuing then f_journal_start f else or_else (f_head f) (f_journal_start f) in
  let srcs := if continuing then f_journal_srcs f else match f_head f with Some _ => f_srcs f | None => f_journal_srcs f end in
  let post :=
    if f_in_progress_after f then []
    else if negb (f_exit_ok f) then match orig with Some o => [ECherryPickAbort o] | None => [] end
    else match orig, f_head_after f with
         | Some o, Some n =>
             if o =? n then []
             else match f_news f with
                  | [] => []
                  | ns => [ECherryPickComplete o n srcs ns]
                  end
         | _, _ => []
         end in
  pre ++ post.

(* pre_reset_hook + post_reset_hook *)
Definition wrap_reset (k : reset_kind) (pathspec : bool) (f : outcome_facts) : list core_event :=
  [EHumanCheckpoint] ++
  (if negb (f_exit_ok f) then []
   else match f_head f, f_head_after f, f_target f with
        | Some old, Some new, Some target =>
            (match k with
             | RHard => [EDeleteWorkingLog old]
             | _ =>
                 if pathspec then
                   (if f_backward f then [EReconstructAfterReset target old true] else [])
                 else if old =? target then []
                 else if negb (f_backward f) then [EDeleteWorkingLog old]
                 else [EReconstructAfterReset target old false]
             end) ++ [EReset k new old]
        | _, _, _ => []
        end).

Inductive stash_sub := SubPush | SubPop | SubApply | SubDrop.

(* pre_stash_hook + post_stash_hook (feature flag rewrite_stash on) *)
Definition wrap_stash (rewrite_stash : bool) (sub : stash_sub) (f : outcome_facts) : list core_event :=
  if negb rewrite_stash then []
  else
    let pre := match sub with SubPop | SubApply => [] | _ => [EHumanCheckpoint] end in
    let post :=
      if negb (f_exit_ok f) then []
      else match sub with
           | SubPush => match or_else (f_stash_new f) (f_stash_top f) with Some _ => [ESaveStash] | None => [] end
           | SubPop | SubApply => match f_stash_top f with Some s => [ERestoreStash s] | None => [] end
           | SubDrop => []
           end in
    pre ++ post.

Definition wrap_merge_squash (f : outcome_facts) : list core_event :=
  if f_exit_ok f then
    match f_squash_src f, f_head f with
    | Some s, Some b => [EMergeSquash s b]
    | _, _ => []
    end
  else [].

(* pre/post_checkout_hook and pre/post_switch_hook, no --force / --merge *)
Definition wrap_checkout (pathspec : bool) (f : outcome_facts) : list core_event :=
  if negb (f_exit_ok f) then []
  else match f_head f, f_head_after f with
       | Some old, Some new =>
           if pathspec then [ERemovePathAttributions old]
           else if old =? new then [] else [ERenameWorkingLog old new]
       | _, _ => []
       end.

(* pull_pre_command_hook + pull_post_command_hook, no autostash *)
Definition wrap_pull (rebase : bool) (f : outcome_facts) : list core_event :=
  if negb (f_exit_ok f) then []
  else match f_head f, f_head_after f with
       | Some old, Some new =>
           if old =? new then []
           else if negb rebase then [ERenameWorkingLog old new]      (* was_fast_forward_pull *)
           else (if f_autostash_va f then [ERestoreStashedVA old new] else []) ++
                match f_origs f, f_news f with
                | [], _ => []
                | _, [] => []
                | os, ns => [ERebaseComplete old new false os ns]
                end
       | _, _ => []
       end.

Definition has_pre (c : command_class) : bool := existsb (git_command_eqb (command_of c)) wrapper_pre_commands.
Definition has_post (c : command_class) : bool := existsb (git_command_eqb (command_of c)) wrapper_post_commands.

Definition wrap_events (c : command_class) (f : outcome_facts) : list core_event :=
  if negb (has_pre c || has_post c) then []
  else match c with
  | CCommit => wrap_commit false f
  | CCommitAmend => wrap_commit true f
  | CRebase => wrap_rebase false f
  | CRebaseI => wrap_rebase true f
  | CRebaseContinue | CRebaseAbort => wrap_rebase false f
  | CCherryPick | CCherryPickContinue | CCherryPickAbort => wrap_cherry_pick f
  | CResetSoft => wrap_reset RSoft false f
  | CResetMixed => wrap_reset RMixed false f
  | CResetHard => wrap_reset RHard false f
  | CResetPath => wrap_reset RMixed true f
  | CStashPush => wrap_stash rewrite_stash_default_debug SubPush f
  | CStashPop => wrap_stash rewrite_stash_default_debug SubPop f
  | CStashApply => wrap_stash rewrite_stash_default_debug SubApply f
  | CStashDrop => wrap_stash rewrite_stash_default_debug SubDrop f
  | CMergeSquash => wrap_merge_squash f
  | CCheckoutBranch | CSwitchBranch => wrap_checkout false f
  | CCheckoutPath => wrap_checkout true f
  | CPullFF => wrap_pull false f
  | CPullRebase => wrap_pull true f
  end.

(* ------------------------------------------------------------------------------------------------
   git 2.39: which hooks fire (facts, monitored by the tracing hooks)
   ------------------------------------------------------------------------------------------------ *)
Definition env0 (f : outcome_facts) : henv :=
  mkEnv ra_none false None false None (f_head f) None None false false false 0%nat false false false ([], []) None false
        false None None.

Definition with_seq (e : henv) (rb : bool) (cph : option sha) (seq : bool) (seq_src : option sha) : henv :=
  mkEnv (e_ra e) rb cph seq seq_src (e_head e) (e_parent e) (e_prev e) (e_prev_root e) (e_reflog_reset e) (e_dirty e)
        (e_stash_count e) (e_todo_empty e) (e_noop_done e) (e_ff_pull e) (e_map e) (e_squash_src e) (e_backward e)
        (e_journal_active e) (e_arg_branch e) (e_arg_upstream e).
Definition with_refs (e : henv) (head parent prev : option sha) (prev_root : bool) : henv :=
  mkEnv (e_ra e) (e_rb e) (e_cph e) (e_seq e) (e_seq_src e) head parent prev prev_root (e_reflog_reset e) (e_dirty e)
        (e_stash_count e) (e_todo_empty e) (e_noop_done e) (e_ff_pull e) (e_map e) (e_squash_src e) (e_backward e)
        (e_journal_active e) (e_arg_branch e) (e_arg_upstream e).
Definition with_ra (e : henv) (r : reflog_action) : henv :=
  mkEnv r (e_rb e) (e_cph e) (e_seq e) (e_seq_src e) (e_head e) (e_parent e) (e_prev e) (e_prev_root e) (e_reflog_reset e)
        (e_dirty e) (e_stash_count e) (e_todo_empty e) (e_noop_done e) (e_ff_pull e) (e_map e) (e_squash_src e) (e_backward e)
        (e_journal_active e) (e_arg_branch e) (e_arg_upstream e).
Definition with_reset (e : henv) (reflog_reset dirty backward : bool) : henv :=
  mkEnv (e_ra e) (e_rb e) (e_cph e) (e_seq e) (e_seq_src e) (e_head e) (e_parent e) (e_prev e) (e_prev_root e) reflog_reset
        dirty (e_stash_count e) (e_todo_empty e) (e_noop_done e) (e_ff_pull e) (e_map e) (e_squash_src e) backward
        (e_journal_active e) (e_arg_branch e) (e_arg_upstream e).
Definition with_stash (e : henv) (count : nat) (dirty : bool) : henv :=
  mkEnv (e_ra e) (e_rb e) (e_cph e) (e_seq e) (e_seq_src e) (e_head e) (e_parent e) (e_prev e) (e_prev_root e) (e_reflog_reset e)
        dirty count (e_todo_empty e) (e_noop_done e) (e_ff_pull e) (e_map e) (e_squash_src e) (e_backward e)
        (e_journal_active e) (e_arg_branch e) (e_arg_upstream e).
Definition with_pull (e : henv) (todo_empty noop ff : bool) (m : list sha * list sha) : henv :=
  mkEnv (e_ra e) (e_rb e) (e_cph e) (e_seq e) (e_seq_src e) (e_head e) (e_parent e) (e_prev e) (e_prev_root e) (e_reflog_reset e)
        (e_dirty e) (e_stash_count e) todo_empty noop ff m (e_squash_src e) (e_backward e)
        (e_journal_active e) (e_arg_branch e) (e_arg_upstream e).
Definition with_rebase_args (e : henv) (active : bool) (branch upstream : option sha) : henv :=
  mkEnv (e_ra e) (e_rb e) (e_cph e) (e_seq e) (e_seq_src e) (e_head e) (e_parent e) (e_prev e) (e_prev_root e) (e_reflog_reset e)
        (e_dirty e) (e_stash_count e) (e_todo_empty e) (e_noop_done e) (e_ff_pull e) (e_map e) (e_squash_src e) (e_backward e)
        active branch upstream.
Definition with_squash (e : henv) (src : option sha) : henv :=
  mkEnv (e_ra e) (e_rb e) (e_cph e) (e_seq e) (e_seq_src e) (e_head e) (e_parent e) (e_prev e) (e_prev_root e) (e_reflog_reset e)
        (e_dirty e) (e_stash_count e) (e_todo_empty e) (e_noop_done e) (e_ff_pull e) (e_map e) src (e_backward e)
        (e_journal_active e) (e_arg_branch e) (e_arg_upstream e).

Definition zero_or (x : option sha) : sha := match x with Some s => s | None => 0 end.

Definition head_update (f : outcome_facts) : option (sha * sha) := Some (zero_or (f_head f), zero_or (f_head_after f)).

(* git commit [--amend]; in whatever state the repository is (a stopped rebase / cherry-pick included) *)
Definition fires_commit (amend : bool) (f : outcome_facts) : list firing :=
  let before := with_seq (env0 f) (f_rb_now f) (f_cph_now f) false None in
  let after := with_refs (with_seq (env0 f) (f_rb_now f) None false None)
                         (f_head_after f) (f_parent_after f) (f_head f) (f_prev_root f) in
  [mkFiring HN_pre_commit ANone before] ++
  (if f_exit_ok f then
     [mkFiring HN_prepare_commit_msg ANone before;
      mkFiring HN_commit_msg ANone before;
      mkFiring HN_reference_transaction (ARefTx Prepared None (head_update f) true (negb (f_detached f))) before;
      mkFiring HN_reference_transaction (ARefTx Committed None (head_update f) true (negb (f_detached f))) after;
      mkFiring HN_post_commit ANone after] ++
     (if amend then [mkFiring HN_post_rewrite (APostRewrite false true [(zero_or (f_head f), zero_or (f_head_after f))]) after]
      else [])
   else if f_msg_aborted f then
     [mkFiring HN_prepare_commit_msg ANone before; mkFiring HN_commit_msg ANone before]
   else []).

Definition tail_end (pull : bool) (f : outcome_facts) : list firing :=
  let r := if pull then ra_pull_action else ra_none in
  let fin := with_pull (with_ra (with_refs (with_seq (env0 f) true None false None) (f_head_after f) (f_parent_after f) (f_head f) false) r)
                       true false false (f_origs f, f_news f) in
  if f_in_progress_after f then []
  else match f_picks f with
       | [] => []
       | ps => [mkFiring HN_post_rewrite (APostRewrite true false ps) fin]
       end.

Definition rebase_tail (pull : bool) (f : outcome_facts) : list firing := f_noise f ++ tail_end pull f.

(* git rebase [-i] <upstream>: pre-rebase, the checkout of onto, the picks, post-rewrite when something was rewritten *)
Definition fires_rebase_start (pull : bool) (f : outcome_facts) : list firing :=
  if f_uptodate f then []
  else
    let r := if pull then ra_pull_action else ra_none in
    let pre := with_rebase_args (with_ra (env0 f) r) (f_journal_active f) (f_branch f) (f_upstream f) in
    let co := with_pull (with_ra (with_refs (with_seq (env0 f) true None false None)
                                            (f_co_head f) None (f_head f) false) r)
                        (match f_picks f with [] => true | _ => false end) false false (f_origs f, f_news f) in
    [mkFiring HN_pre_rebase ANone pre;
     mkFiring HN_post_checkout (APostCheckout (zero_or (f_head f)) (zero_or (f_co_head f))) co] ++ rebase_tail pull f.

Definition fires_cherry_pick (f : outcome_facts) : list firing :=
  flat_map (fun m =>
    let during := with_seq (env0 f) false (Some (m_src m)) (m_seq m) (Some (m_src m)) in
    let during := with_refs during (Some (m_parent m)) None None false in
    let after := with_refs (with_seq (env0 f) false (if m_cph m then Some (m_src m) else None) (m_seq m) (Some (m_src m)))
                           (Some (m_new m)) (Some (m_parent m)) (Some (m_parent m)) false in
    (if m_cph m then [] else [mkFiring HN_pre_commit ANone during]) ++
    [mkFiring HN_prepare_commit_msg ANone during] ++
    (if m_cph m then [] else [mkFiring HN_commit_msg ANone during]) ++     (* a resolved pick goes through git commit *)
    [mkFiring HN_reference_transaction (ARefTx Committed None (Some (m_parent m, m_new m)) true (negb (f_detached f))) during;
     mkFiring HN_post_commit ANone after]) (f_made f).

Definition fires_reset (f : outcome_facts) : list firing :=
  if negb (f_exit_ok f) then []
  else
    let e := with_reset (with_refs (env0 f) (f_head_after f) None (f_head f) false) true (f_dirty_after f) (f_backward f) in
    [mkFiring HN_reference_transaction (ARefTx Prepared None (head_update f) true (negb (f_detached f))) e;
     mkFiring HN_reference_transaction (ARefTx Committed None (head_update f) true (negb (f_detached f))) e].

Definition fires_stash (sub : stash_sub) (f : outcome_facts) : list firing :=
  if negb (f_exit_ok f) then []
  else match sub with
  | SubPush =>
      match f_stash_new f with
      | None => []
      | Some n =>
          let upd := Some (zero_or (f_stash_top f), n) in
          [mkFiring HN_reference_transaction (ARefTx Prepared upd None false false) (with_stash (env0 f) (f_stash_before f) false);
           mkFiring HN_reference_transaction (ARefTx Committed upd None false false) (with_stash (env0 f) (f_stash_after f) false)]
      end
  | SubApply => []
  | SubPop | SubDrop =>
      (* with two or more entries git 2.39 rewrites refs/stash through the reflog: no reference-transaction *)
      if Nat.leb 2 (f_stash_before f) then []
      else match f_stash_top f with
           | None => []
           | Some o =>
               let upd := Some (o, 0) in
               [mkFiring HN_reference_transaction (ARefTx Prepared upd None false false) (with_stash (env0 f) (f_stash_before f) (f_dirty_after f));
                mkFiring HN_reference_transaction (ARefTx Committed upd None false false) (with_stash (env0 f) (f_stash_after f) (f_dirty_after f))]
           end
  end.

Definition fires_merge_squash (f : outcome_facts) : list firing :=
  (* post-merge fires when something was squashed, also when the squash stops with conflicts (exit 1) *)
  if f_merged f then
    [mkFiring HN_post_merge (APostMerge true) (with_squash (env0 f) (f_squash_src f))]
  else [].

Definition fires_checkout (pathspec : bool) (f : outcome_facts) : list firing :=
  if negb (f_exit_ok f) then []
  else
    let e := with_refs (env0 f) (f_head_after f) None (f_head f) false in
    (* creating a branch updates refs/heads/<new>; moving the symbolic HEAD fires nothing in git 2.39 *)
    (if pathspec then [] else [mkFiring HN_reference_transaction (ARefTx Committed None None false true) e]) ++
    [mkFiring HN_post_checkout (APostCheckout (zero_or (f_head f)) (zero_or (f_head_after f))) e].

Definition fires_pull_ff (f : outcome_facts) : list firing :=
  if negb (f_exit_ok f) then []
  else match f_head f, f_head_after f with
       | Some old, Some new =>
           if old =? new then []
           else
             let e := with_pull (with_ra (with_refs (env0 f) (f_head_after f) None (f_head f) false) ra_pull_action)
                                false false true ([], []) in
             [mkFiring HN_reference_transaction (ARefTx Committed None (head_update f) true (negb (f_detached f))) e;
              mkFiring HN_post_merge (APostMerge false) e]
       | _, _ => []
       end.

Definition git_fires (c : command_class) (f : outcome_facts) : list firing :=
  match c with
  | CCommit => fires_commit false f
  | CCommitAmend => fires_commit true f
  | CRebase | CRebaseI => fires_rebase_start false f
  | CRebaseContinue => rebase_tail false f
  | CRebaseAbort => f_noise f                      (* reference-transactions only: no post-checkout, no post-rewrite *)
  | CCherryPick | CCherryPickContinue => fires_cherry_pick f
  | CCherryPickAbort => []
  | CResetSoft | CResetMixed | CResetHard => fires_reset f
  | CResetPath => []                               (* no reference is updated *)
  | CStashPush => fires_stash SubPush f
  | CStashPop => fires_stash SubPop f
  | CStashApply => fires_stash SubApply f
  | CStashDrop => fires_stash SubDrop f
  | CMergeSquash => fires_merge_squash f
  | CCheckoutBranch | CSwitchBranch => fires_checkout false f
  | CCheckoutPath => fires_checkout true f
  | CPullFF => fires_pull_ff f
  | CPullRebase => if f_exit_ok f then fires_rebase_start true f else []
  end.

(* the side state a command of class c starts from when the previous commands left no leak:
   a stopped rebase keeps the hook mask on *)
Definition pre_state (c : command_class) : side_state :=
  match c with
  | CRebaseContinue | CRebaseAbort => set_mask true init
  | _ => init
  end.
Definition post_state (f : outcome_facts) (c : command_class) : side_state :=
  match c with
  | CRebase | CRebaseI | CRebaseContinue | CPullRebase => if f_in_progress_after f then set_mask true init else init
  | _ => init
  end.

(* both installed: the wrapper runs git with GITAI_SKIP_MANAGED_HOOKS=1 (and core.hooksPath overridden) *)
Definition both_events (c : command_class) (f : outcome_facts) (st : side_state) : list core_event * side_state :=
  let '(ev, st') := hook_run rewrite_stash_default_debug wrapper_child_sets_skip (git_fires c f) st in
  (wrap_events c f ++ ev, st').

(* ------------------------------------------------------------------------------------------------
   coherence of the facts (what git guarantees for the class), known differences, leaks
   ------------------------------------------------------------------------------------------------ *)
Definition nz (o : option sha) : bool := match o with Some x => negb (is_null x) | None => true end.
Definition is_some {A} (o : option A) : bool := match o with Some _ => true | None => false end.

Fixpoint list_eqb (a b : list sha) : bool :=
  match a, b with
  | [], [] => true
  | x :: a', y :: b' => (x =? y) && list_eqb a' b'
  | _, _ => false
  end.

(* a hook fired while the rebase runs: the rebase state directory exists, and it is neither the final
   post-rewrite nor a checkout nor a nested pre-rebase *)
Definition inert_noise (fi : firing) : bool :=
  e_rb (h_env fi) &&
  match h_name fi with
  | HN_post_checkout | HN_pre_rebase => false
  | HN_post_rewrite => match h_args fi with APostRewrite false _ _ => true | _ => false end
  | _ => true
  end.

(* hooks that do nothing even when the mask is off: the rebase state directory exists and no refs/stash moves *)
Definition quiet_noise (fi : firing) : bool :=
  e_rb (h_env fi) &&
  match h_name fi with
  | HN_pre_commit | HN_prepare_commit_msg | HN_commit_msg | HN_post_commit => true
  | HN_reference_transaction =>
      match h_args fi with
      | ARefTx _ None _ _ _ => negb (ra_set (e_ra (h_env fi)))
      | _ => false
      end
  | _ => false
  end.

Fixpoint chain (h : sha) (ms : list made) : bool :=
  match ms with
  | [] => true
  | m :: rest => (m_parent m =? h) && negb (m_new m =? m_src m) && negb (is_null (m_new m)) && negb (is_null (m_src m))
                 && negb (is_null (m_parent m)) && chain (m_new m) rest
  end.

Definition last_new (h : sha) (ms : list made) : sha := last (map m_new ms) h.

Definition wf_firing (c : command_class) (f : outcome_facts) : bool :=
  nz (f_head f) && nz (f_head_after f) && nz (f_parent_after f) &&
  match c with
  | CCommit =>
      negb (f_exit_ok f) ||
      (is_some (f_head_after f) && opt_eqb (f_parent_after f) (f_head f) && negb (opt_eqb (f_head_after f) (f_head f)))
  | CCommitAmend =>
      negb (f_exit_ok f) ||
      (is_some (f_head f) && is_some (f_head_after f) && negb (opt_eqb (f_head_after f) (f_head f))
       && negb (opt_eqb (f_parent_after f) (f_head f))
       && (is_some (f_parent_after f) || f_prev_root f))
  | CRebase | CRebaseI =>
      negb (f_in_progress f) && is_some (f_head f) && nz (f_co_head f) && is_some (f_co_head f)
      && forallb inert_noise (f_noise f)
      && (negb (f_uptodate f) || (negb (f_in_progress_after f) && match f_picks f with [] => true | _ => false end))
      && (match f_picks f with [] => true | _ => f_exit_ok f end)
  | CRebaseContinue =>
      f_in_progress f && f_journal_active f && is_some (f_journal_start f) && forallb inert_noise (f_noise f)
      && (match f_picks f with [] => true | _ => f_exit_ok f end)
  | CRebaseAbort =>
      f_in_progress f && negb (f_in_progress_after f) && f_exit_ok f && f_journal_active f
      && is_some (f_journal_start f) && opt_eqb (f_head_after f) (f_journal_start f) && forallb inert_noise (f_noise f)
  | CCherryPick =>
      negb (f_in_progress f) &&
      match f_head f with
      | Some h => chain h (f_made f) && opt_eqb (f_head_after f) (Some (last_new h (f_made f)))
      | None => false
      end
  | CCherryPickContinue =>
      f_in_progress f && f_journal_active f && is_some (f_journal_start f) &&
      match f_head f with
      | Some h => chain h (f_made f) && opt_eqb (f_head_after f) (Some (last_new h (f_made f)))
      | None => false
      end
  | CCherryPickAbort =>
      f_in_progress f && negb (f_in_progress_after f) && f_exit_ok f && f_journal_active f
      && is_some (f_journal_start f) && opt_eqb (f_head_after f) (f_journal_start f)
  | CResetSoft | CResetMixed =>
      negb (f_exit_ok f) || (is_some (f_head f) && is_some (f_head_after f) && opt_eqb (f_target f) (f_head_after f))
  | CResetHard =>
      negb (f_exit_ok f) || (is_some (f_head f) && is_some (f_head_after f) && opt_eqb (f_target f) (f_head_after f))
  | CResetPath =>
      negb (f_exit_ok f) || (is_some (f_head f) && opt_eqb (f_head_after f) (f_head f))
  | CStashPush =>
      nz (f_stash_new f) && nz (f_stash_top f) &&
      (negb (is_some (f_stash_new f)) || Nat.eqb (f_stash_after f) (S (f_stash_before f))) &&
      (Nat.eqb (f_stash_before f) 0 || is_some (f_stash_top f)) && (is_some (f_stash_top f) || Nat.eqb (f_stash_before f) 0)
  | CStashPop | CStashDrop =>
      nz (f_stash_top f) &&
      (negb (f_exit_ok f) || (is_some (f_stash_top f) && Nat.eqb (f_stash_before f) (S (f_stash_after f))))
  | CStashApply => nz (f_stash_top f) && (negb (f_exit_ok f) || is_some (f_stash_top f))
  | CMergeSquash => nz (f_squash_src f) && is_some (f_head f) && is_some (f_squash_src f)
  | CCheckoutBranch | CSwitchBranch => negb (f_exit_ok f) || (is_some (f_head f) && is_some (f_head_after f))
  | CCheckoutPath => negb (f_exit_ok f) || (is_some (f_head f) && opt_eqb (f_head_after f) (f_head f))
  | CPullFF => negb (f_exit_ok f) || (is_some (f_head f) && is_some (f_head_after f))
  | CPullRebase =>
      negb (f_in_progress f) && negb (f_in_progress_after f) && forallb inert_noise (f_noise f) && nz (f_co_head f)
      && (match f_picks f with [] => forallb quiet_noise (f_noise f) | _ => true end)
      && (negb (f_autostash_va f) || f_wl_pending f)
      && (negb (f_exit_ok f) ||
          (is_some (f_head f) && is_some (f_head_after f) && is_some (f_co_head f)
           && (negb (f_uptodate f) || (opt_eqb (f_head_after f) (f_head f) && match f_picks f with [] => true | _ => false end))
           && (match f_picks f with [] => opt_eqb (f_head_after f) (f_co_head f) || f_uptodate f | _ => true end)))
  end.

(* the RebaseComplete event each side would emit at the end of a plain rebase *)
Definition rebase_orig (f : outcome_facts) : option sha :=
  if f_in_progress f && f_journal_active f then f_journal_start f
  else match f_head f with
       | Some h => Some (match f_branch f with Some b => b | None => h end)
       | None => f_journal_start f
       end.

Definition wrapper_completes (f : outcome_facts) : bool :=
  match rebase_orig f, f_head_after f with
  | Some o, Some n => negb (o =? n) && (match f_origs f with [] => false | _ => true end)
                      && (match f_news f with [] => false | _ => true end)
  | _, _ => false
  end.

Definition K2_rebase (f : outcome_facts) : bool :=
  if f_in_progress_after f then false
  else if negb (f_exit_ok f) then false
  else match f_picks f with
       | [] => wrapper_completes f
       | ps => negb (wrapper_completes f
                     && list_eqb (map fst ps) (f_origs f) && list_eqb (map snd ps) (f_news f)
                     && opt_eqb (rebase_orig f) (Some (last (map fst ps) 0)))
       end.

Definition cp_orig (f : outcome_facts) : option sha :=
  if f_in_progress f && f_journal_active f then f_journal_start f else or_else (f_head f) (f_journal_start f).
Definition cp_srcs (f : outcome_facts) : list sha :=
  if f_in_progress f && f_journal_active f then f_journal_srcs f
  else match f_head f with Some _ => f_srcs f | None => f_journal_srcs f end.
Definition wrapper_cp_completes (f : outcome_facts) : bool :=
  negb (f_in_progress_after f) && f_exit_ok f &&
  match cp_orig f, f_head_after f with
  | Some o, Some n => negb (o =? n) && (match f_news f with [] => false | _ => true end)
  | _, _ => false
  end.

Definition K4_cherry_pick (f : outcome_facts) : bool :=
  match f_made f with
  | [] => wrapper_cp_completes f
  | [m] => negb (wrapper_cp_completes f
                 && list_eqb (cp_srcs f) [m_src m] && list_eqb (f_news f) [m_new m]
                 && opt_eqb (cp_orig f) (Some (m_parent m)) && opt_eqb (f_head_after f) (Some (m_new m)))
  | _ => true
  end.

Definition rename_at_start_live (f : outcome_facts) : bool :=
  f_wl_pending f && negb (f_uptodate f) && negb (opt_eqb (f_head f) (f_co_head f)).

(* Known_C13 c f = true: the two translations produce different effects on these facts *)
Definition Known_C13 (c : command_class) (f : outcome_facts) : bool :=
  match c with
  | CCommit | CCommitAmend => f_rb_now f || is_some (f_cph_now f)                                  (* K3, K5 *)
  | CRebase | CRebaseI => K2_rebase f || rename_at_start_live f                                    (* K2, K10 *)
  | CRebaseContinue => K2_rebase f
  | CRebaseAbort => false
  | CCherryPick | CCherryPickContinue => K4_cherry_pick f                                          (* K4 *)
  | CCherryPickAbort => false
  | CResetSoft | CResetMixed =>                                                                    (* K6, K11 *)
      f_exit_ok f && (f_uncheckpointed f ||
                      (negb (opt_eqb (f_head f) (f_head_after f)) && (negb (f_backward f) || negb (f_dirty_after f))))
      || (negb (f_exit_ok f) && f_uncheckpointed f)
  | CResetHard =>
      f_uncheckpointed f || (f_exit_ok f && (opt_eqb (f_head f) (f_head_after f) || negb (f_backward f) || f_dirty_after f))
  | CResetPath => f_uncheckpointed f || (f_exit_ok f && f_backward f && is_some (f_target f))
  | CStashPush => f_uncheckpointed f || (f_exit_ok f && negb (is_some (f_stash_new f)) && is_some (f_stash_top f))   (* K8, K11 *)
  | CStashPop => f_exit_ok f && (Nat.leb 2 (f_stash_before f) || negb (f_dirty_after f))
  | CStashApply => f_exit_ok f
  | CStashDrop => f_uncheckpointed f || (f_exit_ok f && negb (Nat.leb 2 (f_stash_before f)) && f_dirty_after f)
  | CMergeSquash => negb (Bool.eqb (f_exit_ok f) (f_merged f))                                     (* K9 *)
  | CCheckoutBranch | CSwitchBranch => false
  | CCheckoutPath => f_exit_ok f && f_path_pending f                                               (* K7 *)
  | CPullFF => false
  | CPullRebase =>
      f_exit_ok f && (f_wl_pending f && negb (opt_eqb (f_head f) (f_head_after f)) && negb (f_autostash_va f)   (* K12 *)
                      || f_autostash_va f && f_upstream_touches_pending f
                      || (match f_picks f with [] => negb (f_uptodate f) && negb (opt_eqb (f_head_after f) (f_co_head f)) | _ => false end))
  end.

(* the hook mask outlives the command (K1): a rebase that git ends without post-rewrite rebase *)
Definition leaks (c : command_class) (f : outcome_facts) : bool :=
  match c with
  | CRebase | CRebaseI => negb (f_uptodate f) && negb (f_in_progress_after f) && match f_picks f with [] => true | _ => false end
  | CRebaseContinue => negb (f_in_progress_after f) && match f_picks f with [] => true | _ => false end
  | CRebaseAbort => true
  | _ => false
  end.
