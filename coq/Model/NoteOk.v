(* Model/NoteOk.v -- what a well-formed authorship note is, and the producers of its attestation
   section (C05, parts 2 and 3).  Definitions only; proofs in Proofs/NoteOkProofs.v.

   Source:
     src/authorship/rebase_authorship.rs
        build_file_attestation_from_line_attributions   -> build_file_attestation
        upsert_file_attestation                         -> upsert
        try_remap_base_commit_sha_field                 -> try_remap
     src/authorship/virtual_attribution.rs
        VirtualAttributions::to_authorship_log          -> to_authorship_log (attestation part)
     src/authorship/attribution_tracker.rs  LineAttribution { start_line, end_line, author_id }
     src/authorship/authorship_log.rs       LineRange::{Single, Range}     (Base/RangeSet.v: lrange)

   Both builders group the intervals of a file by author in a HashMap (iteration order arbitrary:
   the model lists authors in order of first occurrence, the correspondence compares sorted by
   author), skip the author `human`, sort each author's intervals by (start, end), merge an interval
   into the last one when `start <= last_end.saturating_add(1)` and emit Single(start) when
   start == end, otherwise Range(start, end). *)
From Coq Require Import PeanoNat.
From Verif Require Import Base.Str Base.RangeSet Gen.GenNotes.

Definition lattr := (N * N * str)%type.        (* start_line, end_line, author_id *)
Definition la_start (a : lattr) : N := fst (fst a).
Definition la_end (a : lattr) : N := snd (fst a).
Definition la_author (a : lattr) : str := snd a.

Definition iv := (N * N)%type.

Definition human : str := gn_human.

(* ---------- ranges.sort_by_key on the pair (start, end) ---------- *)
Definition iv_leb (a b : iv) : bool :=
  (fst a <? fst b) || ((fst a =? fst b) && (snd a <=? snd b)).

Fixpoint iv_insert (x : iv) (l : list iv) : list iv :=
  match l with
  | [] => [x]
  | y :: t => if iv_leb x y then x :: l else y :: iv_insert x t
  end.

Fixpoint iv_sort (l : list iv) : list iv :=
  match l with [] => [] | x :: t => iv_insert x (iv_sort t) end.

(* u32::saturating_add(1) *)
Definition sat_succ (e : N) : N := if e <? u32_max then e + 1 else u32_max.

(* the merge loop; (cs, ce) is the element `merged.last_mut()` points at *)
Fixpoint merge_from (cs ce : N) (l : list iv) : list iv :=
  match l with
  | [] => [(cs, ce)]
  | (s, e) :: t =>
      if s <=? sat_succ ce then merge_from cs (N.max ce e) t
      else (cs, ce) :: merge_from s e t
  end.

Definition merge_ivs (l : list iv) : list iv :=
  match l with [] => [] | (s, e) :: t => merge_from s e t end.

Definition to_range (x : iv) : lrange := mk_range (fst x) (snd x).

(* ---------- grouping by author ---------- *)
Fixpoint dedup_first (l : list str) : list str :=
  match l with
  | [] => []
  | x :: t => x :: filter (fun y => negb (str_eqb y x)) (dedup_first t)
  end.

Definition ai_attrs (las : list lattr) : list lattr :=
  filter (fun a => negb (str_eqb (la_author a) human)) las.

Definition authors (las : list lattr) : list str := dedup_first (map la_author (ai_attrs las)).

Definition ranges_of (a : str) (las : list lattr) : list iv :=
  map (fun x => (la_start x, la_end x)) (filter (fun x => str_eqb (la_author x) a) las).

Definition entry := (str * list lrange)%type.
Definition fatt := (str * list entry)%type.

Definition entry_of (las : list lattr) (a : str) : entry :=
  (a, map to_range (merge_ivs (iv_sort (ranges_of a las)))).

Definition build_entries (las : list lattr) : list entry := map (entry_of las) (authors las).

Definition build_file_attestation (path : str) (las : list lattr) : option fatt :=
  match build_entries las with
  | [] => None
  | es => Some (path, es)
  end.

(* to_authorship_log: one attestation per file that has at least one non-human interval *)
Fixpoint to_authorship_log (files : list (str * list lattr)) : list fatt :=
  match files with
  | [] => []
  | (p, las) :: r =>
      match build_file_attestation p las with
      | Some f => f :: to_authorship_log r
      | None => to_authorship_log r
      end
  end.

(* upsert_file_attestation *)
Definition upsert (atts : list fatt) (path : str) (las : list lattr) (file_exists : bool) : list fatt :=
  let kept := filter (fun f => negb (str_eqb (fst f) path)) atts in
  if file_exists then
    match build_file_attestation path las with
    | Some f => kept ++ [f]
    | None => kept
    end
  else kept.

(* ---------- the structural predicate ---------- *)
Record note := mkNote {
  n_atts : list fatt;
  n_prompts : list str;        (* keys of the prompts object *)
  n_base : str                 (* base_commit_sha *)
}.

(* ranges of one entry: 1-based, each lo <= hi <= line count, sorted and non-overlapping *)
Fixpoint ranges_ok (prev_hi lc : N) (rs : list lrange) : bool :=
  match rs with
  | [] => true
  | r :: t => (prev_hi <? range_lo r) && (range_lo r <=? range_hi r) && (range_hi r <=? lc)
              && ranges_ok (range_hi r) lc t
  end.

Definition entry_ok (lc : N) (prompts : list str) (e : entry) : bool :=
  negb (str_eqb (fst e) human)
  && existsb (fun k => str_eqb k (fst e)) prompts
  && ranges_ok 0 lc (snd e).

Definition fatt_ok (files : str -> option N) (prompts : list str) (f : fatt) : bool :=
  match files (fst f) with
  | None => false
  | Some lc => forallb (entry_ok lc prompts) (snd f)
  end.

Definition note_ok (files : str -> option N) (self : str) (n : note) : bool :=
  forallb (fatt_ok files (n_prompts n)) (n_atts n) && str_eqb (n_base n) self.

(* ---------- what the theorem says about the emitted ranges ---------- *)
(* next range starts at least two after the end of the previous one *)
Fixpoint gapped (l : list iv) : Prop :=
  match l with
  | [] => True
  | x :: t => match t with
              | [] => True
              | y :: _ => snd x + 1 < fst y
              end /\ gapped t
  end.

Definition iv_of_range (r : lrange) : iv := (range_lo r, range_hi r).

Definition covers (l : list iv) (n : N) : Prop := exists x, In x l /\ fst x <= n /\ n <= snd x.

(* ---------- try_remap_base_commit_sha_field (bytes) ---------- *)
Fixpoint starts_with (p s : str) : bool :=
  match p, s with
  | [], _ => true
  | a :: p', b :: s' => (a =? b) && starts_with p' s'
  | _ :: _, [] => false
  end.

(* str::find: byte index of the first occurrence *)
Fixpoint find_sub (p s : str) : option nat :=
  if starts_with p s then Some O
  else match s with
       | [] => None
       | _ :: s' => match find_sub p s' with Some i => Some (S i) | None => None end
       end.

Fixpoint skip_ws (s : str) : str :=
  match s with
  | c :: s' => if mem c gn_remap_ws then skip_ws s' else s
  | [] => []
  end.

(* scan for the closing quote; returns the suffix that starts AT it.  A backslash skips two bytes;
   running past the end leaves the loop without a result. *)
Fixpoint scan_value (s : str) : option str :=
  match s with
  | [] => None
  | c :: s' =>
      if c =? 92 then match s' with [] => None | _ :: s'' => scan_value s'' end
      else if c =? c_dq then Some s
      else scan_value s'
  end.

(* "---\n" and "\n---\n" *)
Definition div_head : str := [45; 45; 45; 10].
Definition div_mid : str := [10; 45; 45; 45; 10].

(* where the metadata section starts: right after the first divider line.  after_divider is
   GenNotes.gn_remap_after_divider; false = the code before that repair searched the whole note *)
Definition metadata_start (after_divider : bool) (note : str) : option nat :=
  if after_divider then
    if starts_with div_head note then Some (length div_head)
    else match find_sub div_mid note with
         | Some i => Some (i + length div_mid)%nat
         | None => None
         end
  else Some O.

(* the scan from the byte index i of the field literal *)
Definition remap_at (i : nat) (note target : str) : option str :=
  let r1 := skip_ws (skipn (i + length gn_remap_field) note) in
  match r1 with
  | c :: r2 =>
      if c =? 58 then
        match skip_ws r2 with
        | q :: r4 =>
            if q =? c_dq then
              match scan_value r4 with
              | Some rest => Some (firstn (length note - length r4) note ++ target ++ rest)
              | None => None
              end
            else None
        | [] => None
        end
      else None
  | [] => None
  end.

Definition try_remap_with (after_divider : bool) (note target : str) : option str :=
  match metadata_start after_divider note with
  | None => None
  | Some m =>
      match find_sub gn_remap_field (skipn m note) with
      | None => None
      | Some j => remap_at (m + j) note target
      end
  end.

Definition try_remap := try_remap_with gn_remap_after_divider.

(* ---------- parse_batch_check_blob_oid (code points) ---------- *)
Fixpoint split_ws_aux (cur : str) (s : str) : list str :=
  match s with
  | [] => match cur with [] => [] | _ => [rev cur] end
  | c :: s' => if is_ws c then match cur with [] => split_ws_aux [] s' | _ => rev cur :: split_ws_aux [] s' end
               else split_ws_aux (c :: cur) s'
  end.
Definition split_whitespace (s : str) : list str := split_ws_aux [] s.

Definition is_hexdigit (c : cp) : bool :=
  ((48 <=? c) && (c <=? 57)) || ((97 <=? c) && (c <=? 102)) || ((65 <=? c) && (c <=? 70)).

Definition parse_batch_check_blob_oid (line : str) : option str :=
  match split_whitespace line with
  | oid :: ty :: _ =>
      if str_eqb ty gn_type_word
         && existsb (fun n => (length oid =? n)%nat) gn_oid_lens
         && forallb is_hexdigit oid
      then Some oid else None
  | _ => None
  end.

(* ---------- the content replay of rebase / cherry-pick (slow path), attestation part ----------
   rewrite_authorship_after_rebase_v2: the log starts as the state at the ORIGINAL head (all files the
   rewritten commits touched), and for every new commit only the files changed BY THAT COMMIT are
   upserted; attestations of files that do not exist (by the running `existing_files` set, which also
   starts from the original head and is updated only for changed files) are dropped. *)
Definition replay_commit (log : list fatt) (changed : list (str * list lattr * bool)) : list fatt :=
  fold_left (fun l c => upsert l (fst (fst c)) (snd (fst c)) (snd c)) changed log.

(* known class (decidable on the step): the note was written by a rebase / cherry-pick that took the
   content replay, i.e. did not qualify for the blob-equivalent fast path *)
Definition Known_C05_replay (op_is_rebase_or_cherry_pick took_content_replay : bool) : bool :=
  op_is_rebase_or_cherry_pick && took_content_replay.

(* witness: at the original head a (3 lines, line 3 by session s) and b (2 lines, both by s); the
   first rebased commit contains only the change to a; b is created by the second commit *)
Definition w_s : str := [115].
Definition w_head_state : list (str * list lattr) := [([97], [(3, 3, w_s)]); ([98], [(1, 2, w_s)])].
Definition w_first_commit_changes : list (str * list lattr * bool) := [([97], [(4, 4, w_s)], true)].
Definition w_first_commit_files (p : str) : option N := if str_eqb p [97] then Some 4 else None.

(* ---------- the squash / CI rewrite (rewrite_authorship_after_squash_or_rebase) ----------
   committed_files = get_committed_files_content(merge commit, changed files): the changed files that
   exist in the merge commit; merged = merge_attributions_favoring_first(target_va, source_va,
   committed_files); note = merged.to_authorship_log() with base_commit_sha = merge commit.
   Contents are abstracted to line counts; `mf p lc` stands for the line attributions that
   attributions_to_line_attributions computes for file p against its final content (lc lines);
   `own p` is the line count of the content one of the two inputs remembers for p. *)
Fixpoint assoc_str {A} (l : list (str * A)) (k : str) : option A :=
  match l with
  | [] => None
  | (k', v) :: r => if str_eqb k' k then Some v else assoc_str r k
  end.

Definition committed_files (tree : str -> option N) (pathspecs : list str) : list (str * N) :=
  flat_map (fun p => match tree p with Some lc => [(p, lc)] | None => [] end) pathspecs.

Definition va := list (str * list lattr).

(* merge_attributions_favoring_first, which files come out.  skip_absent is read from the source
   (GenNotes.gn_merge_skips_absent): `None => continue` for a file that is not in final_state. *)
Definition merge_favoring_first (skip_absent : bool) (mf : str -> N -> list lattr) (own : str -> option N)
    (primary secondary : va) (final_state : list (str * N)) : va :=
  flat_map (fun p =>
      match assoc_str final_state p with
      | Some lc => [(p, mf p lc)]
      | None => if skip_absent then []
                else match own p with Some lc => [(p, mf p lc)] | None => [] end
      end)
    (dedup_first (map fst primary ++ map fst secondary ++ map fst final_state)).

Definition squash_note (mf : str -> N -> list lattr) (own : str -> option N) (tree : str -> option N)
    (changed : list str) (target source : va) : list fatt :=
  to_authorship_log
    (merge_favoring_first gn_merge_skips_absent mf own target source (committed_files tree changed)).

(* witness for the variant that does not skip: the target branch deleted x, the source branch's AI
   commit appended lines 3-4 to it; the merge commit contains only a *)
Definition w_sq_tree (p : str) : option N := if str_eqb p [97] then Some 4 else None.
Definition w_sq_own (p : str) : option N := if str_eqb p [120] then Some 4 else if str_eqb p [97] then Some 4 else None.
Definition w_sq_mf (p : str) (lc : N) : list lattr := if str_eqb p [120] then [(3, 4, w_s)] else [(4, 4, w_s)].
Definition w_sq_source : va := [([97], [(4, 4, w_s)]); ([120], [(3, 4, w_s)])].

(* ---------- witnesses ---------- *)
(* a note whose attestation section names the file  DQ base_commit_sha DQ : DQ x  (DQ = the double quote; a legal file name);
   the metadata is on one line *)
Definition w_remap_note : str :=
  [34;98;97;115;101;95;99;111;109;109;105;116;95;115;104;97;34;58;34;120;10;    (* the path line *)
   32;32;104;32;49;10;45;45;45;10;123;                                          (* entry line, divider, open brace *)
   34;98;97;115;101;95;99;111;109;109;105;116;95;115;104;97;34;58;32;34;97;34;125]. (* the real field with value a, close brace *)
Definition w_remap_target : str := [98].
(* what rewriting exactly the base_commit_sha field would give *)
Definition w_remap_expected : str :=
  [34;98;97;115;101;95;99;111;109;109;105;116;95;115;104;97;34;58;34;120;10;
   32;32;104;32;49;10;45;45;45;10;123;
   34;98;97;115;101;95;99;111;109;109;105;116;95;115;104;97;34;58;32;34;98;34;125].
