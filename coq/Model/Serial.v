(* Model/Serial.v — the authorship-log text codec
   (src/authorship/authorship_log_serialization.rs: serialize_to_string,
   deserialize_from_string, format_line_ranges, parse_line_ranges,
   parse_attestation_section, needs_quoting).  Definitions only.

   The JSON metadata object is an opaque string here (`md`): the Rust code prints
   it with serde_json::to_string_pretty and parses it with serde_json::from_str;
   the codec itself only concatenates / re-joins it.  What the theorems need from
   serde is stated as hypotheses in Properties/C17.v and monitored by the harness. *)
From Verif Require Import Base.Str.
From Verif Require Import Gen.GenSerial.
Open Scope N_scope.

Inductive range := Single (l : N) | Range (a b : N).
Record entry := mkEntry { e_hash : str; e_ranges : list range }.
Record fatt  := mkFatt  { f_path : str; f_entries : list entry }.
Record log   := mkLog   { atts : list fatt; md : str }.

Inductive res (A : Type) := Ok (a : A) | Err | Panic.
Arguments Ok {A} _. Arguments Err {A}. Arguments Panic {A}.

Definition range_start (r : range) : N :=
  match r with Single l => l | Range a _ => a end.

(* stable insertion sort by start (Rust: Vec::sort_by is stable): an element is inserted
   before the first element whose start is >= its own, and elements are inserted right-to-left *)
Fixpoint insert_range (r : range) (l : list range) : list range :=
  match l with
  | [] => [r]
  | x :: l' => if range_start r <=? range_start x then r :: x :: l'
               else x :: insert_range r l'
  end.

Fixpoint sort_ranges (l : list range) : list range :=
  match l with
  | [] => []
  | r :: l' => insert_range r (sort_ranges l')
  end.

Definition format_range (r : range) : str :=
  match r with
  | Single l => print_N l
  | Range a b => print_N a ++ [c_dash] ++ print_N b
  end.

Definition format_line_ranges (rs : list range) : str :=
  join [c_comma] (map format_range (sort_ranges rs)).

(* needs_quoting: the character list comes from the source (Gen.GenSerial) *)
Definition needs_quoting (p : str) : bool :=
  existsb (fun q => mem q p) quoting_chars
  || match quoting_literal with Some d => str_eqb p d | None => false end
  || (quoting_lead_dq && first_is c_dq p)
  || (quoting_trailing_ws && negb (str_eqb (trim_end p) p)).

Definition path_line (p : str) : str :=
  if needs_quoting p then [c_dq] ++ p ++ [c_dq] else p.

Definition entry_line (e : entry) : str :=
  entry_indent ++ e_hash e ++ [c_sp] ++ format_line_ranges (e_ranges e).

Definition fatt_lines (f : fatt) : list str :=
  path_line (f_path f) :: map entry_line (f_entries f).

Definition att_lines (fs : list fatt) : list str := flat_map fatt_lines fs.

Definition unlines (ls : list str) : str := flat_map (fun l => l ++ [c_nl]) ls.

Definition serialize (l : log) : str :=
  unlines (att_lines (atts l)) ++ divider ++ [c_nl] ++ md l.

(* ---- parsing ---- *)

Definition parse_part (part : str) : option range :=
  match split_first c_dash part with
  | Some (a, b) =>
      match parse_u32 a, parse_u32 b with
      | Some x, Some y => Some (Range x y)
      | _, _ => None
      end
  | None => match parse_u32 part with Some x => Some (Single x) | None => None end
  end.

Fixpoint parse_parts (parts : list str) : option (list range) :=
  match parts with
  | [] => Some []
  | p :: ps =>
      match p with
      | [] => parse_parts ps
      | _ => match parse_part p, parse_parts ps with
             | Some r, Some rs => Some (r :: rs)
             | _, _ => None
             end
      end
  end.

Definition parse_line_ranges (s : str) : option (list range) :=
  parse_parts (split_on c_comma s).

Definition strip_indent (l : str) : option str :=
  match l with
  | a :: b :: rest => if (a =? c_sp) && (b =? c_sp) then Some rest else None
  | _ => None
  end.

(* line[1 .. len-1] for a line that starts and ends with a double quote;
   None models the slice panic on the one-character line *)
Definition unquote (l : str) : option str :=
  match l with
  | _ :: rest => match rev rest with
                 | _ :: r => Some (rev r)
                 | [] => None
                 end
  | [] => None
  end.

Definition flush (cur : option fatt) (acc : list fatt) : list fatt :=
  match cur with
  | Some f => match f_entries f with [] => acc | _ => acc ++ [f] end
  | None => acc
  end.

(* the loop of parse_attestation_section; acc = finished files, cur = current *)
Fixpoint parse_att (ls : list str) (acc : list fatt) (cur : option fatt)
  : res (list fatt) :=
  match ls with
  | [] => Ok (flush cur acc)
  | raw :: ls' =>
      let line := trim_end raw in
      match line with
      | [] => parse_att ls' acc cur
      | _ =>
        match strip_indent line with
        | Some el =>
            match split_first c_sp el with
            | Some (h, rs) =>
                match parse_line_ranges rs with
                | Some ranges =>
                    match cur with
                    | Some f =>
                        parse_att ls' acc
                          (Some (mkFatt (f_path f) (f_entries f ++ [mkEntry h ranges])))
                    | None => Err
                    end
                | None => Err
                end
            | None =>
                (* no space after the hash: an entry without line ranges, or a format error *)
                if reader_entry_without_ranges then
                  match cur with
                  | Some f =>
                      parse_att ls' acc (Some (mkFatt (f_path f) (f_entries f ++ [mkEntry el []])))
                  | None => Err
                  end
                else Err
            end
        | None =>
            let acc' := flush cur acc in
            if (reader_quote_min_len <=? N.of_nat (length line))
               && first_is c_dq line && last_is c_dq line then
              match unquote line with
              | Some p => parse_att ls' acc' (Some (mkFatt p []))
              | None => Panic
              end
            else parse_att ls' acc' (Some (mkFatt line []))
        end
      end
  end.

Fixpoint split_at_divider (ls : list str) : option (list str * list str) :=
  match ls with
  | [] => None
  | l :: ls' =>
      if str_eqb l divider then Some ([], ls')
      else match split_at_divider ls' with
           | Some (a, b) => Some (l :: a, b)
           | None => None
           end
  end.

Definition deserialize (s : str) : res log :=
  match split_at_divider (lines s) with
  | None => Err
  | Some (before, after) =>
      match parse_att before [] None with
      | Ok fs => Ok (mkLog fs (join [c_nl] after))
      | Err => Err
      | Panic => Panic
      end
  end.

(* ---- the exact side condition of the round trip ---- *)

Definition path_ok (p : str) : bool :=
  negb (mem c_nl p) &&
  (if needs_quoting p then true
   else match p with
        | [] => false
        | _ => str_eqb (trim_end p) p
               && negb (str_eqb p divider)
               && negb ((reader_quote_min_len <=? N.of_nat (length p))
                        && first_is c_dq p && last_is c_dq p)
        end).

Definition range_ok (r : range) : bool :=
  match r with
  | Single l => l <=? u32_max
  | Range a b => (a <=? u32_max) && (b <=? u32_max)
  end.

(* an entry without ranges is written "  <hash> "; the reader trims the line and, when it accepts a
   line without a separator at all, takes the rest for the hash *)
Definition entry_ok (e : entry) : bool :=
  negb (mem c_sp (e_hash e)) && negb (mem c_nl (e_hash e))
  && match e_ranges e with
     | [] => reader_entry_without_ranges
             && match e_hash e with [] => false | _ => true end
             && str_eqb (trim_end (e_hash e)) (e_hash e)
     | _ => true
     end
  && forallb range_ok (e_ranges e).

Definition fatt_ok (f : fatt) : bool :=
  path_ok (f_path f) && forallb entry_ok (f_entries f).

(* md_ok: re-joining the lines of the JSON text gives it back (no CR, no final LF).
   True of serde_json pretty output; monitored. *)
Definition md_ok (m : str) : bool :=
  negb (mem c_cr m) && negb (last_is c_nl m).

Definition wf_log (l : log) : bool :=
  forallb fatt_ok (atts l) && md_ok (md l).

(* every entry lists at least one line (what git-ai itself produces) *)
Definition has_ranges (l : log) : bool :=
  forallb (fun f => forallb (fun e => match e_ranges e with [] => false | _ => true end) (f_entries f))
          (atts l).

(* the side condition in plain terms, for the repaired writer/reader (all three quoting rules and the
   lenient entry reader present): only a newline in a path, an empty path, and blanks in a hash are
   excluded *)
Definition entry_simple (e : entry) : bool :=
  negb (mem c_sp (e_hash e)) && negb (mem c_nl (e_hash e))
  && match e_ranges e with
     | [] => match e_hash e with [] => false | _ => true end
             && str_eqb (trim_end (e_hash e)) (e_hash e)
     | _ => true
     end
  && forallb range_ok (e_ranges e).
Definition path_simple (p : str) : bool :=
  negb (mem c_nl p) && match p with [] => false | _ => true end.
Definition wf_simple (l : log) : bool :=
  forallb (fun f => path_simple (f_path f) && forallb entry_simple (f_entries f)) (atts l)
  && md_ok (md l).

Definition norm_entry (e : entry) : entry := mkEntry (e_hash e) (sort_ranges (e_ranges e)).
Definition norm_fatt (f : fatt) : fatt := mkFatt (f_path f) (map norm_entry (f_entries f)).
Definition has_entries (f : fatt) : bool := match f_entries f with [] => false | _ => true end.
Definition normalize (l : log) : log :=
  mkLog (map norm_fatt (filter has_entries (atts l))) (md l).

(* ---- the published grammar (specs/git_ai_standard_v3.0.0.md §1.2), as a predicate on text ---- *)

Fixpoint sorted_starts (rs : list range) : bool :=
  match rs with
  | [] => true
  | r :: rs' => match rs' with
                | [] => true
                | r' :: _ => (range_start r <=? range_start r') && sorted_starts rs'
                end
  end.

(* unindented path line; a path containing a space or a tab MUST be wrapped in double quotes
   (the writer may quote other paths too: the reader unquotes every quoted line) *)
Definition path_line_ok (l : str) : Prop :=
  exists p, mem c_nl p = false /\ p <> [] /\
    (l = [c_dq] ++ p ++ [c_dq] \/
     (mem c_sp p || mem c_tab p = false /\ l = p)).

(* two-space indent, hash, one space, comma-separated singles / ranges sorted by start *)
Definition entry_line_ok (l : str) : Prop :=
  exists h rs, rs <> [] /\ mem c_sp h = false /\ sorted_starts rs = true /\
    l = [c_sp; c_sp] ++ h ++ [c_sp] ++ join [c_comma] (map format_range rs).

Inductive att_grammar : list str -> Prop :=
| ag_nil : att_grammar []
| ag_file l es rest :
    path_line_ok l -> Forall entry_line_ok es -> att_grammar rest ->
    att_grammar (l :: es ++ rest).

(* attestation lines, exactly one divider line (no earlier line equals it), then the metadata *)
Definition grammar (s : str) : Prop :=
  exists ls m, att_grammar ls /\ Forall (fun l => l <> [c_dash; c_dash; c_dash]) ls /\
    s = unlines ls ++ [c_dash; c_dash; c_dash; c_nl] ++ m.

(* ---- composition with the metadata printer / parser (serde_json in the implementation) ---- *)
Section WithMetadata.
  Variable M : Type.
  Variable print_md : M -> str.
  Variable parse_md : str -> option M.

  Definition fserialize (a : list fatt) (m : M) : str := serialize (mkLog a (print_md m)).

  Definition fdeserialize (s : str) : res (list fatt * M) :=
    match deserialize s with
    | Ok l => match parse_md (md l) with Some m => Ok (atts l, m) | None => Err end
    | Err => Err
    | Panic => Panic
    end.
End WithMetadata.
