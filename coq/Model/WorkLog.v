(* Model/WorkLog.v — how pending attribution is read back from the working log
   (src/authorship/virtual_attribution.rs: VirtualAttributions::from_just_working_log;
    src/git/repo_storage.rs: prune_old_char_attributions, write_initial_attributions).
   Definitions only.

   A checkpoint entry carries persisted line attributions and (for the newest entry of a file)
   char attributions.  What attributions_to_line_attributions makes of the char attributions on
   the current file content is an environment fact here (field we_from_chars; the tracker is
   C16's subject).  Line attributions in this map are AI-only: the tracker strips human lines. *)
From Verif Require Import Base.Str.
From Verif Require Import Gen.GenWorkLog Gen.GenCheckpoint.
Open Scope N_scope.

Record lattr := mkLattr { la_start : N; la_end : N; la_author : str }.

Record wentry := mkWentry {
  we_file : str;
  we_persisted : list lattr;     (* entry.line_attributions *)
  we_has_chars : bool;           (* !entry.attributions.is_empty() *)
  we_from_chars : list lattr     (* attributions_to_line_attributions(entry.attributions, content) *)
}.

Record checkpoint := mkCheckpoint { cp_is_ai : bool; cp_entries : list wentry }.

Definition amap := list (str * list lattr).

Fixpoint alookup (f : str) (m : amap) : option (list lattr) :=
  match m with
  | [] => None
  | (g, v) :: m' => if str_eqb f g then Some v else alookup f m'
  end.

Fixpoint aremove (f : str) (m : amap) : amap :=
  match m with
  | [] => []
  | (g, v) :: m' => if str_eqb f g then aremove f m' else (g, v) :: aremove f m'
  end.

Definition ainsert (f : str) (v : list lattr) (m : amap) : amap := (f, v) :: aremove f m.

Definition is_nil {A} (l : list A) : bool := match l with [] => true | _ => false end.

(* `if entry.line_attributions.is_empty() && entry.attributions.is_empty() { continue; }` *)
Definition skipped (e : wentry) : bool := is_nil (we_persisted e) && negb (we_has_chars e).

(* prefer persisted line attributions, else convert the char attributions *)
Definition effective (e : wentry) : list lattr :=
  match we_persisted e with [] => we_from_chars e | l => l end.

(* [drops] = does the code drop the file's earlier claim when the newest entry has no AI line
   left (GenWorkLog.empty_entry_drops_file, read from the source) *)
Definition apply_entry_gen (drops : bool) (m : amap) (e : wentry) : amap :=
  if skipped e then m
  else match effective e with
       | [] => if drops then aremove (we_file e) m else m
       | l => ainsert (we_file e) l m
       end.

Definition apply_checkpoint_gen (drops : bool) (m : amap) (c : checkpoint) : amap :=
  fold_left (apply_entry_gen drops) (cp_entries c) m.

Definition va_from_log_gen (drops : bool) (initial : amap) (cps : list checkpoint) : amap :=
  fold_left (apply_checkpoint_gen drops) cps initial.

Definition va_from_log := va_from_log_gen empty_entry_drops_file.

(* ---- specification: the newest non-skipped entry of a file decides ---- *)

Definition all_entries (cps : list checkpoint) : list wentry := flat_map cp_entries cps.

Fixpoint latest_for (f : str) (es : list wentry) (acc : option wentry) : option wentry :=
  match es with
  | [] => acc
  | e :: es' =>
      latest_for f es' (if str_eqb f (we_file e) && negb (skipped e) then Some e else acc)
  end.

Definition spec_lookup (f : str) (initial : amap) (cps : list checkpoint) : option (list lattr) :=
  match latest_for f (all_entries cps) None with
  | Some e => match effective e with [] => None | l => Some l end
  | None => alookup f initial
  end.

(* ---- prune_old_char_attributions: clear char attributions of all but the newest entry per file ---- *)

Fixpoint has_later (f : str) (es : list wentry) : bool :=
  match es with [] => false | e :: es' => str_eqb f (we_file e) || has_later f es' end.

Definition prune_entry (later : list wentry) (e : wentry) : wentry :=
  if has_later (we_file e) later
  then mkWentry (we_file e) (we_persisted e) false (we_from_chars e)
  else e.

(* entries of later checkpoints *)
Fixpoint prune (cps : list checkpoint) : list checkpoint :=
  match cps with
  | [] => []
  | c :: cs =>
      mkCheckpoint (cp_is_ai c) (map (prune_entry (all_entries cs)) (cp_entries c)) :: prune cs
  end.

(* ---- INITIAL file: write_initial_attributions ---- *)

Definition filter_nonempty (m : amap) : amap := filter (fun p => negb (is_nil (snd p))) m.

(* None = no INITIAL file.  [removes] = GenWorkLog.empty_initial_write_removes_file *)
Definition write_initial_gen (removes : bool) (old : option amap) (m : amap) : option amap :=
  match filter_nonempty m with
  | [] => if removes then None else old
  | l => Some l
  end.

Definition write_initial := write_initial_gen empty_initial_write_removes_file.

Definition read_initial (f : option amap) : amap := match f with Some m => m | None => [] end.

(* ---- get_checkpoint_entry_for_file: what one checkpoint records for one file (decision skeleton;
        the order of the early returns is checked against the source by Gen/GenCheckpoint.v) ---- *)
Inductive entry_decision :=
| NoEntry                 (* Ok(None): nothing is recorded for this file *)
| EmptyEntry              (* human-only file: an entry without attributions (skipped by the reader) *)
| Computed.               (* the tracker runs: make_entry_for_file *)

Record cp_facts := mkCpFacts {
  cf_human : bool;            (* kind == Human *)
  cf_pre_commit : bool;
  cf_prior_ai : bool;         (* the file was touched by an AI checkpoint of this working log *)
  cf_has_initial : bool;      (* INITIAL has claims for the file *)
  cf_from_checkpoint : bool;  (* an earlier checkpoint of this working log has an entry for the file *)
  cf_equal : bool             (* current content == previous content (previous checkpoint's blob, else HEAD) *)
}.

Definition decide_entry (f : cp_facts) : entry_decision :=
  let human_only := cf_human f && negb (cf_prior_ai f) && negb (cf_has_initial f) in
  if cf_pre_commit f && human_only then NoEntry
  else if human_only then (if cf_equal f then NoEntry else EmptyEntry)
  else if negb (cf_from_checkpoint f) && cf_equal f && negb (cf_has_initial f) then NoEntry
  else if cf_from_checkpoint f && cf_equal f then NoEntry
  else Computed.

Definition entry_of_decision (d : entry_decision) (file : str) (computed : wentry) : list wentry :=
  match d with
  | NoEntry => []
  | EmptyEntry => [mkWentry file [] false []]
  | Computed => [computed]
  end.
