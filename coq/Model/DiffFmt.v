(* Model/DiffFmt.v — the text protocol between `git diff -U0 --no-color --no-renames`
   (forced prefixes a/ b/, see InternalGitProfile::PatchParse) and git-ai's scanners of added
   lines (src/git/repository.rs: parse_diff_added_lines, parse_diff_added_lines_with_insertions,
   normalize_diff_path_token, parse_new_file_path_from_plus_header_line, parse_hunk_header;
   src/utils.rs: unescape_git_path).  Definitions only.

   ALPHABETS (the choice asked for in DESIGN C01 item 1).
   - git writes BYTES: `render` produces a byte string (list N, every element 0..255 when the
     document's paths, body lines, section texts are bytes).  It is compared byte for byte with
     real git output by the check.
   - the Rust scanners read a &str obtained by String::from_utf8_lossy(stdout): `dec` below is
     that function (bytes -> Unicode scalar values, maximal-subpart replacement by U+FFFD, the
     algorithm of core::str::lossy::Utf8Chunks).  The scanners (`parse_added`, ...) work on code
     points.  The composed protocol is  parse_added (dec (render qp d)).
   - unescape_git_path goes code points -> bytes (escapes give bytes, ordinary characters are
     UTF-8 encoded: `enc1`) -> String (from_utf8, falling back to from_utf8_lossy: both are `dec`).
*)
From Verif Require Import Base.Str.
Open Scope N_scope.

Inductive outcome (A : Type) := Ok (a : A) | Panic.
Arguments Ok {A} _. Arguments Panic {A}.

(* ------------------------------------------------------------------ UTF-8 *)

Definition rep : N := 65533.
Definition is_cont (b : N) : bool := (128 <=? b) && (b <=? 191).

(* second byte admissible after a 3-byte / 4-byte lead (excludes overlong forms, surrogates, > 10FFFF) *)
Definition ok3 (b0 b1 : N) : bool :=
  ((b0 =? 224) && ((160 <=? b1) && (b1 <=? 191))) ||
  (((225 <=? b0) && (b0 <=? 236)) && is_cont b1) ||
  ((b0 =? 237) && ((128 <=? b1) && (b1 <=? 159))) ||
  (((238 <=? b0) && (b0 <=? 239)) && is_cont b1).
Definition ok4 (b0 b1 : N) : bool :=
  ((b0 =? 240) && ((144 <=? b1) && (b1 <=? 191))) ||
  (((241 <=? b0) && (b0 <=? 243)) && is_cont b1) ||
  ((b0 =? 244) && ((128 <=? b1) && (b1 <=? 143))).

Definition cp2 (b0 b1 : N) : N := (b0 - 192) * 64 + (b1 - 128).
Definition cp3 (b0 b1 b2 : N) : N := (b0 - 224) * 4096 + (b1 - 128) * 64 + (b2 - 128).
Definition cp4 (b0 b1 b2 b3 : N) : N :=
  (b0 - 240) * 262144 + (b1 - 128) * 4096 + (b2 - 128) * 64 + (b3 - 128).

(* String::from_utf8_lossy.  An invalid chunk (the lead byte plus the continuation bytes that
   were accepted before the failure) becomes one U+FFFD; decoding resumes at the offending byte. *)
Fixpoint dec (s : list N) : list N :=
  match s with
  | [] => []
  | b0 :: r0 =>
      if b0 <? 128 then b0 :: dec r0
      else if (194 <=? b0) && (b0 <=? 223) then
        match r0 with
        | b1 :: r1 => if is_cont b1 then cp2 b0 b1 :: dec r1 else rep :: dec r0
        | [] => [rep]
        end
      else if (224 <=? b0) && (b0 <=? 239) then
        match r0 with
        | b1 :: r1 =>
            if ok3 b0 b1 then
              match r1 with
              | b2 :: r2 => if is_cont b2 then cp3 b0 b1 b2 :: dec r2 else rep :: dec r1
              | [] => [rep]
              end
            else rep :: dec r0
        | [] => [rep]
        end
      else if (240 <=? b0) && (b0 <=? 244) then
        match r0 with
        | b1 :: r1 =>
            if ok4 b0 b1 then
              match r1 with
              | b2 :: r2 =>
                  if is_cont b2 then
                    match r2 with
                    | b3 :: r3 => if is_cont b3 then cp4 b0 b1 b2 b3 :: dec r3 else rep :: dec r2
                    | [] => [rep]
                    end
                  else rep :: dec r1
              | [] => [rep]
              end
            else rep :: dec r0
        | [] => [rep]
        end
      else rep :: dec r0
  end.

(* char::encode_utf8 *)
Definition enc1 (c : N) : list N :=
  if c <? 128 then [c]
  else if c <? 2048 then [192 + c / 64; 128 + c mod 64]
  else if c <? 65536 then [224 + c / 4096; 128 + (c / 64) mod 64; 128 + c mod 64]
  else [240 + c / 262144; 128 + (c / 4096) mod 64; 128 + (c / 64) mod 64; 128 + c mod 64].
Definition enc (s : str) : list N := flat_map enc1 s.

Definition is_scalar (c : N) : bool := (c <? 55296) || ((57344 <=? c) && (c <=? 1114111)).
Definition utf8_valid (p : list N) : bool := str_eqb (enc (dec p)) p.

(* ------------------------------------------------------------------ git: quote_c_style / quote_two *)

Definition oct3 (b : N) : list N := [48 + (b / 64) mod 4; 48 + (b / 8) mod 8; 48 + b mod 8].

(* quote.c cq_lookup: the letter escapes *)
Definition esc_letter (b : N) : option N :=
  if b =? 7 then Some 97 else if b =? 8 then Some 98 else if b =? 9 then Some 116
  else if b =? 10 then Some 110 else if b =? 11 then Some 118 else if b =? 12 then Some 102
  else if b =? 13 then Some 114 else if b =? 34 then Some 34 else if b =? 92 then Some 92
  else None.

(* cq_must_quote; qp = core.quotePath *)
Definition must_quote (qp : bool) (b : N) : bool :=
  (b <? 32) || (b =? 34) || (b =? 92) || (b =? 127) || (qp && (128 <=? b)).

Definition esc1 (qp : bool) (b : N) : list N :=
  if must_quote qp b then
    match esc_letter b with Some l => [92; l] | None => 92 :: oct3 b end
  else [b].
Definition esc (qp : bool) (p : list N) : list N := flat_map (esc1 qp) p.
Definition needs_quote (qp : bool) (p : list N) : bool := existsb (must_quote qp) p.

Definition quote_c_style (qp : bool) (p : list N) : list N :=
  if needs_quote qp p then [34] ++ esc qp p ++ [34] else p.

(* quote_two (prefix, name); the prefixes a/ b/ never need quoting themselves *)
Definition quote_two (qp : bool) (pre p : list N) : list N :=
  if needs_quote qp pre || needs_quote qp p then [34] ++ esc qp pre ++ esc qp p ++ [34]
  else pre ++ p.

(* ------------------------------------------------------------------ the document and the renderer *)

Record hunk := mkHunk {
  h_os : N;                 (* old start as printed *)
  h_old : list (list N);    (* removed lines (without the final LF) *)
  h_old_nonl : bool;        (* followed by the no-newline marker *)
  h_ns : N;                 (* new start as printed *)
  h_new : list (list N);    (* added lines *)
  h_new_nonl : bool;
  h_sec : list N            (* function-context text after the closing @@ (empty = none) *)
}.

Record file_diff := mkFile {
  fd_path : list N;         (* bytes *)
  fd_new : bool;
  fd_del : bool;
  fd_mode : list N;         (* e.g. 100644 *)
  fd_oid_old : list N;      (* abbreviated object names of the index line *)
  fd_oid_new : list N;
  fd_hunks : list hunk
}.

Definition s_diff_git : str := [100;105;102;102;32;45;45;103;105;116;32].      (* diff --git + space *)
Definition s_new_mode : str := [110;101;119;32;102;105;108;101;32;109;111;100;101;32].
Definition s_del_mode : str := [100;101;108;101;116;101;100;32;102;105;108;101;32;109;111;100;101;32].
Definition s_index : str := [105;110;100;101;120;32].
Definition s_minus3 : str := [45;45;45;32].
Definition s_plus3 : str := [43;43;43;32].
Definition s_devnull : str := [47;100;101;118;47;110;117;108;108].
Definition s_a : str := [97;47].
Definition s_b : str := [98;47].
Definition s_nonl : str :=
  [92;32;78;111;32;110;101;119;108;105;110;101;32;97;116;32;101;110;100;32;111;102;32;102;105;108;101].
Definition s_hh_open : str := [64;64;32;45].     (* @@ - *)
Definition s_hh_plus : str := [32;43].
Definition s_hh_close : str := [32;64;64].

Definition count_of {A} (l : list A) : N := N.of_nat (length l).

Definition range_txt (start count : N) : str :=
  print_N start ++ (if count =? 1 then [] else [c_comma] ++ print_N count).

Definition hunk_header (h : hunk) : str :=
  s_hh_open ++ range_txt (h_os h) (count_of (h_old h)) ++ s_hh_plus
  ++ range_txt (h_ns h) (count_of (h_new h)) ++ s_hh_close
  ++ (match h_sec h with [] => [] | s => [c_sp] ++ s end).

(* the header without the function-context text *)
Definition hh_text (os oc ns nc : N) : str :=
  s_hh_open ++ range_txt os oc ++ s_hh_plus ++ range_txt ns nc ++ s_hh_close.

Definition hunk_lines (h : hunk) : list str :=
  hunk_header h
  :: map (fun l => c_dash :: l) (h_old h)
  ++ (if h_old_nonl h then [s_nonl] else [])
  ++ map (fun l => c_plus :: l) (h_new h)
  ++ (if h_new_nonl h then [s_nonl] else []).

(* diff.c fn_out_consume: a TAB follows the label when the label contains a space *)
Definition label_tab (lbl : str) : str := if mem c_sp lbl then [c_tab] else [].

Definition file_lines (qp : bool) (f : file_diff) : list str :=
  let la := quote_two qp s_a (fd_path f) in
  let lb := quote_two qp s_b (fd_path f) in
  let lold := if fd_new f then s_devnull else la in
  let lnew := if fd_del f then s_devnull else lb in
  [s_diff_git ++ la ++ [c_sp] ++ lb]
  ++ (if fd_new f then
        [s_new_mode ++ fd_mode f; s_index ++ fd_oid_old f ++ [46;46] ++ fd_oid_new f]
      else if fd_del f then
        [s_del_mode ++ fd_mode f; s_index ++ fd_oid_old f ++ [46;46] ++ fd_oid_new f]
      else [s_index ++ fd_oid_old f ++ [46;46] ++ fd_oid_new f ++ [c_sp] ++ fd_mode f])
  ++ (match fd_hunks f with
      | [] => []
      | _ => [s_minus3 ++ lold ++ label_tab lold; s_plus3 ++ lnew ++ label_tab lnew]
      end)
  ++ flat_map hunk_lines (fd_hunks f).

Definition render_lines (qp : bool) (d : list file_diff) : list str := flat_map (file_lines qp) d.
Definition unlines (ls : list str) : str := flat_map (fun l => l ++ [c_nl]) ls.
Definition render (qp : bool) (d : list file_diff) : list N := unlines (render_lines qp d).

(* ------------------------------------------------------------------ Rust str helpers *)

(* str::strip_prefix *)
Fixpoint strip_prefix (pre s : str) : option str :=
  match pre with
  | [] => Some s
  | c :: pre' =>
      match s with
      | x :: s' => if x =? c then strip_prefix pre' s' else None
      | [] => None
      end
  end.

Definition starts_with (pre s : str) : bool :=
  match strip_prefix pre s with Some _ => true | None => false end.

Fixpoint trim_start (s : str) : str :=
  match s with
  | c :: s' => if is_ws c then trim_start s' else s
  | [] => []
  end.
Definition trim (s : str) : str := trim_end (trim_start s).

(* str::trim_start_matches(char) *)
Fixpoint trim_start_char (d : cp) (s : str) : str :=
  match s with
  | c :: s' => if c =? d then trim_start_char d s' else s
  | [] => []
  end.

(* str::split_whitespace = split on White_Space, empty pieces dropped *)
Fixpoint split_by (p : cp -> bool) (s : str) : list str :=
  match s with
  | [] => [[]]
  | c :: s' =>
      if p c then [] :: split_by p s'
      else match split_by p s' with
           | l :: ls => (c :: l) :: ls
           | [] => [[c]]
           end
  end.
Definition nonempty (s : str) : bool := match s with [] => false | _ => true end.
Definition split_whitespace (s : str) : list str := filter nonempty (split_by is_ws s).

(* first occurrence of the two-character pattern @@ : Some (before, after) *)
Fixpoint split_atat (s : str) : option (str * str) :=
  match s with
  | [] => None
  | c :: s' =>
      match s' with
      | c2 :: s'' =>
          if (c =? 64) && (c2 =? 64) then Some ([], s'')
          else match split_atat s' with
               | Some (a, b) => Some (c :: a, b)
               | None => None
               end
      | [] => None
      end
  end.

(* line.split("@@").collect(): parts.len() < 2 -> None, else parts[1] *)
Definition atat_part1 (line : str) : option str :=
  match split_atat line with
  | None => None
  | Some (_, rest) =>
      match split_atat rest with
      | Some (mid, _) => Some mid
      | None => Some rest
      end
  end.

Fixpoint find_first (p : str -> bool) (l : list str) : option str :=
  match l with
  | [] => None
  | x :: l' => if p x then Some x else find_first p l'
  end.

Fixpoint iota (start : N) (n : nat) : list N :=
  match n with O => [] | S n' => start :: iota (start + 1) n' end.

(* ------------------------------------------------------------------ parse_hunk_header *)

(* "start,count" / "start": the count (second comma-separated piece, else 1) *)
Definition count_field (parts : list str) : option N :=
  match parts with
  | _ :: c :: _ => parse_u32 c
  | _ => Some 1
  end.

(* Ok None = Rust None; Panic = u32 overflow of start + count (debug builds) *)
Definition parse_hunk_header (line : str) : outcome (option (list N * bool)) :=
  match atat_part1 line with
  | None => Ok None
  | Some p1 =>
      let ranges := split_whitespace (trim p1) in
      match ranges with
      | [] | [_] => Ok None
      | _ =>
          match find_first (first_is c_dash) ranges with
          | None => Ok None
          | Some o =>
              let old_parts := split_on c_comma (trim_start_char c_dash o) in
              match count_field old_parts with
              | None => Ok None
              | Some old_count =>
                  match find_first (first_is c_plus) ranges with
                  | None => Ok None
                  | Some nw =>
                      let new_parts := split_on c_comma (trim_start_char c_plus nw) in
                      match parse_u32 (hd [] new_parts) with
                      | None => Ok None
                      | Some start =>
                          match count_field new_parts with
                          | None => Ok None
                          | Some count =>
                              if count =? 0 then Ok (Some ([], false))
                              else if u32_max <? start + count then Panic
                              else Ok (Some (iota start (N.to_nat count), old_count =? 0))
                          end
                      end
                  end
              end
          end
      end
  end.

(* ------------------------------------------------------------------ unescape_git_path *)

Definition is_oct (c : cp) : bool := (48 <=? c) && (c <=? 55).

(* u8::from_str_radix(octal, 8): value over 255 is an error and nothing is pushed *)
Definition push_oct (v : N) (rest : list N) : list N := if v <=? 255 then v :: rest else rest.

(* the escape loop: code points of the text between the quotes -> bytes *)
Fixpoint unesc (s : str) : list N :=
  match s with
  | [] => []
  | c :: r =>
      if c =? 92 then
        match r with
        | [] => [92]                                       (* peek = None: keep the backslash *)
        | d :: r1 =>
            if d =? 92 then 92 :: unesc r1
            else if d =? 34 then 34 :: unesc r1
            else if d =? 110 then 10 :: unesc r1
            else if d =? 116 then 9 :: unesc r1
            else if d =? 114 then 13 :: unesc r1
            else if d =? 97 then 7 :: unesc r1             (* \a \b \v \f: git's quote_c_style emits them too *)
            else if d =? 98 then 8 :: unesc r1
            else if d =? 118 then 11 :: unesc r1
            else if d =? 102 then 12 :: unesc r1
            else if is_digit d then
              if is_oct d then
                match r1 with
                | d2 :: r2 =>
                    if is_oct d2 then
                      match r2 with
                      | d3 :: r3 =>
                          if is_oct d3
                          then push_oct (((d - 48) * 8 + (d2 - 48)) * 8 + (d3 - 48)) (unesc r3)
                          else push_oct ((d - 48) * 8 + (d2 - 48)) (unesc r2)
                      | [] => push_oct ((d - 48) * 8 + (d2 - 48)) []
                      end
                    else push_oct (d - 48) (unesc r1)
                | [] => push_oct (d - 48) []
                end
              else unesc r                                 (* \8 \9: empty octal, nothing pushed, digit not consumed *)
            else 92 :: unesc r                             (* unknown escape: keep the backslash *)
        end
      else enc1 c ++ unesc r
  end.

(* a path shorter than two bytes is returned as is (path.len() < 2), so the slice
   &path[1..path.len()-1] is always in range *)
Definition unescape_git_path (path : str) : str :=
  match path with
  | [] | [_] => path
  | _ => if first_is c_dq path && last_is c_dq path
         then dec (unesc (removelast (tl path)))
         else path
  end.

Definition diff_prefixes : list str := [[97;47]; [98;47]; [99;47]; [119;47]; [105;47]; [111;47]].

Fixpoint strip_first_prefix (ps : list str) (s : str) : str :=
  match ps with
  | [] => s
  | p :: ps' => match strip_prefix p s with Some t => t | None => strip_first_prefix ps' s end
  end.

(* str::strip_suffix('\t').unwrap_or(path): git ends a header path that contains a space with
   one TAB; everything before it, trailing blanks included, belongs to the name *)
Definition strip_tab (s : str) : str := if last_is c_tab s then removelast s else s.

Definition normalize_diff_path_token (path : str) : str :=
  strip_first_prefix diff_prefixes (unescape_git_path (strip_tab path)).

(* None = not a +++ line; Some None = /dev/null *)
Definition plus_header (line : str) : option (option str) :=
  match strip_prefix s_plus3 line with
  | None => None
  | Some raw =>
      if str_eqb (trim_end raw) s_devnull then Some None
      else Some (Some (normalize_diff_path_token raw))
  end.

(* ------------------------------------------------------------------ the scanners *)

Definition amap := list (str * list N).

(* result.entry(k).or_default().extend(v) *)
Fixpoint upd (k : str) (v : list N) (m : amap) : amap :=
  match m with
  | [] => [(k, v)]
  | (k', v') :: m' => if str_eqb k k' then (k', v' ++ v) :: m' else (k', v') :: upd k v m'
  end.

(* st_pend: added lines of the current hunk that are still to come (pending_added); their text is
   file content and is not looked at, even if it reads like a header *)
Record sstate := mkS { st_cur : option str; st_all : amap; st_ins : amap; st_pend : nat }.

Definition s_atat_sp : str := [64;64;32].

Definition step_main (st : sstate) (line : str) : outcome sstate :=
  match plus_header line with
  | Some po => Ok (mkS po (st_all st) (st_ins st) (st_pend st))
  | None =>
      if starts_with s_atat_sp line then
        match parse_hunk_header line with
        | Panic => Panic
        | Ok None => Ok st
        | Ok (Some (ls, pure)) =>
            match st_cur st with
            | None => Ok (mkS None (st_all st) (st_ins st) (length ls))
            | Some file =>
                Ok (mkS (st_cur st) (upd file ls (st_all st))
                        (if pure then upd file ls (st_ins st) else st_ins st) (length ls))
            end
        end
      else Ok st
  end.

Definition step (st : sstate) (line : str) : outcome sstate :=
  match st_pend st with
  | S n => if first_is c_plus line
           then Ok (mkS (st_cur st) (st_all st) (st_ins st) n)
           else step_main st line
  | O => step_main st line
  end.

Fixpoint scan_lines (st : sstate) (ls : list str) : outcome sstate :=
  match ls with
  | [] => Ok st
  | l :: ls' => match step st l with Panic => Panic | Ok st' => scan_lines st' ls' end
  end.

(* sort_unstable + dedup on u32 *)
Fixpoint insert_n (x : N) (l : list N) : list N :=
  match l with
  | [] => [x]
  | y :: l' => if x <=? y then x :: l else y :: insert_n x l'
  end.
Fixpoint sort_n (l : list N) : list N :=
  match l with [] => [] | x :: l' => insert_n x (sort_n l') end.
Fixpoint dedup (l : list N) : list N :=
  match l with
  | x :: ((y :: _) as l') => if x =? y then dedup l' else x :: dedup l'
  | _ => l
  end.
Definition sort_dedup (l : list N) : list N := dedup (sort_n l).

(* String order = lexicographic on scalar values; the canonical listing of a HashMap *)
Fixpoint str_leb (a b : str) : bool :=
  match a, b with
  | [], _ => true
  | _ :: _, [] => false
  | x :: a', y :: b' => if x <? y then true else if y <? x then false else str_leb a' b'
  end.
Fixpoint insert_k (e : str * list N) (m : amap) : amap :=
  match m with
  | [] => [e]
  | e' :: m' => if str_leb (fst e) (fst e') then e :: m else e' :: insert_k e m'
  end.
Fixpoint sort_keys (m : amap) : amap :=
  match m with [] => [] | e :: m' => insert_k e (sort_keys m') end.

Definition canon (m : amap) : amap :=
  sort_keys (map (fun e => (fst e, sort_dedup (snd e))) m).

Definition scan (text : str) : outcome (amap * amap) :=
  match scan_lines (mkS None [] [] 0) (lines text) with
  | Panic => Panic
  | Ok st => Ok (canon (st_all st), canon (st_ins st))
  end.

Definition parse_added_with_insertions (text : str) : outcome (amap * amap) := scan text.
Definition parse_added (text : str) : outcome amap :=
  match scan text with Panic => Panic | Ok (a, _) => Ok a end.

(* ------------------------------------------------------------------ the specification *)

Definition new_range (h : hunk) : list N := iota (h_ns h) (length (h_new h)).
Definition is_insertion (h : hunk) : bool :=
  match h_old h, h_new h with [], _ :: _ => true | _, _ => false end.

(* files that reach the scanner with a +++ b/path line *)
Definition has_hunks (f : file_diff) : bool := match fd_hunks f with [] => false | _ => true end.
Definition live (f : file_diff) : bool := negb (fd_del f) && has_hunks f.

(* the String under which git-ai knows the file *)
Definition key (f : file_diff) : str := dec (fd_path f).

Definition added_raw (d : list file_diff) : amap :=
  map (fun f => (key f, flat_map new_range (fd_hunks f))) (filter live d).
Definition has_insertion (f : file_diff) : bool := existsb is_insertion (fd_hunks f).
Definition ins_raw (d : list file_diff) : amap :=
  map (fun f => (key f, flat_map new_range (filter is_insertion (fd_hunks f))))
      (filter (fun f => live f && has_insertion f) d).

(* per path (sorted by path) the new-side line numbers of all hunks, in increasing order.
   A live file whose hunks only delete is listed with the empty list, as the Rust map does. *)
Definition added_lines (d : list file_diff) : amap := sort_keys (added_raw d).
Definition insertion_lines (d : list file_diff) : amap := sort_keys (ins_raw d).

(* ------------------------------------------------------------------ side conditions *)

Definition no_lf (s : list N) : bool := negb (mem c_nl s).
Definition is_byte (b : N) : bool := b <=? 255.
Definition two31 : N := 2147483648.

(* new sides strictly increasing and disjoint, every line number below 2^31 *)
Fixpoint hunks_sorted (lo : N) (hs : list hunk) : bool :=
  match hs with
  | [] => true
  | h :: hs' =>
      match h_new h with
      | [] => hunks_sorted lo hs'
      | _ => (lo <? h_ns h) && (h_ns h + count_of (h_new h) <=? two31)
             && hunks_sorted (h_ns h + count_of (h_new h) - 1) hs'
      end
  end.

Definition hunk_wf (h : hunk) : bool :=
  forallb no_lf (h_old h) && forallb no_lf (h_new h) && no_lf (h_sec h)
  && (count_of (h_old h) <? two31) && (h_ns h <? two31).

Definition file_wf (f : file_diff) : bool :=
  forallb is_byte (fd_path f) && no_lf (fd_mode f) && no_lf (fd_oid_old f) && no_lf (fd_oid_new f)
  && forallb hunk_wf (fd_hunks f) && hunks_sorted 0 (fd_hunks f).

Fixpoint nodup_str (l : list str) : bool :=
  match l with
  | [] => true
  | x :: l' => negb (existsb (str_eqb x) l') && nodup_str l'
  end.

Definition wf_doc (d : list file_diff) : bool :=
  forallb file_wf d && nodup_str (map key (filter live d)).

(* The classes on which the scanners used to go wrong (an added line beginning with ++ and a space;
   an unquoted path ending in a space; a path containing BEL, BS, VT or FF) are repaired in the
   code this model describes: there is no exception class any more.  The former witnesses are
   kept below as regression witnesses. *)
Definition path_ok (p : list N) : bool := forallb is_byte p.

Definition ascii (c : N) : bool := c <? 128.
Definition ascii_paths (d : list file_diff) : bool :=
  forallb (fun f => forallb ascii (fd_path f)) d.

(* ------------------------------------------------------------------ witnesses *)

Definition mk_h (os : N) (old : list (list N)) (ns : N) (new : list (list N)) : hunk :=
  mkHunk os old false ns new false [].
Definition mk_f (p : list N) (hs : list hunk) : file_diff :=
  mkFile p false false [49;48;48;54;52;52] [49;97;50;98;51;99;52] [53;100;54;101;55;102;56] hs.

Definition t_weird : list N := [43;43;32;119;101;105;114;100].          (* ++ weird *)
Definition t_later : list N := [97;105;32;108;97;116;101;114].          (* ai later *)
Definition p_f : list N := [102;46;116;120;116].                        (* f.txt *)

(* the reproduced two-hunk example *)
Definition wit_k1 : list file_diff := [mk_f p_f [mk_h 1 [] 2 [t_weird]; mk_h 4 [] 6 [t_later]]].
Definition wit_k2 : list file_diff := [mk_f [116;114;97;105;108;32] [mk_h 0 [] 1 [t_later]]].   (* trail + space *)
Definition wit_k3 : list file_diff := [mk_f [98;101;108;7] [mk_h 0 [] 1 [t_later]]].            (* bel BEL *)
Definition wit_panic : list file_diff := [mk_f p_f [mk_h 0 [] 1 [[43;43;32;34]]]].              (* ++ dq *)


(* a document inside the theorem: quoted path (space, double quote, backslash, e-acute as two bytes),
   path with a space only (TAB after the label), a path beginning with a/, a deleted file, a new file
   without final newline, a file section without hunks, a deletion-only hunk, body lines that look
   like diff syntax (including added lines beginning with ++ and a space in the middle of a file),
   a CRLF line, a function-context text containing @@, a path ending in two blanks, a path with BEL
   and FF *)
Definition wit_ok : list file_diff :=
  [ mk_f [97;32;34;92;195;169] [mk_h 3 [[45;45;32;121]] 3 [[64;64;32;45;49;32;43;49;32;64;64]; [43;32;120]];
                                mkHunk 9 [[111]] true 10 [[92;32;78;111]; [99;13]] true [102;110;32;64;64;32;120]];
    mk_f [120;32;121] [mk_h 5 [[100]] 4 []];
    mk_f [97;47;98] [mk_h 0 [] 1 [[43;43]; [43;43;43]]];
    mkFile [100] false true [49;48;48;54;52;52] [49;97] [48;48] [mk_h 1 [[122]] 0 []];
    mkFile [110] true false [49;48;48;54;52;52] [48;48] [49;97] [mkHunk 0 [] false 1 [[110;101;119]] true []];
    mk_f [101] [];
    mk_f [107;49] [mk_h 1 [] 2 [t_weird; [43;43;32;34]; [43;43;32;47;100;101;118;47;110;117;108;108]];
                   mk_h 7 [[111]] 11 [t_later]];
    mk_f [116;32;32] [mk_h 0 [] 1 [t_later]];
    mk_f [7;12] [mk_h 0 [] 1 [t_later]] ].
