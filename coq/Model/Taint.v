(* Model/Taint.v — what can reach refs/notes/ai (property C08, taint part).  Definitions only.

   A note is modelled by the prompt records of its metadata (attestations carry no conversation
   text).  `notes` is the set of ALL note blobs reachable from refs/notes/ai: every primitive of
   src/git/refs.rs adds a commit on top of the previous tip (`git notes add -f`, fast-import
   `from <tip>`), so a blob once written stays reachable through the history of the ref; a write
   therefore only ever ADDS a blob.

   The writers, their taint flags, the arms of each writer's storage-mode match (post_commit,
   rewrite_authorship_after_commit_amend), the resolution order of effective_prompt_storage and the
   cannot_refetch table of append_checkpoint come from the source (Gen.GenNoteWriters). *)
From Verif Require Import Base.Str.
From Verif Require Import Gen.GenSecrets Gen.GenNoteWriters Model.Redact.
Open Scope N_scope.

(* p_accepted: accepted_lines of the record (lines of the session that are in the commit) *)
Record prompt := mkPrompt { p_id : list N; p_tool : list N; p_accepted : N; p_messages : list msg }.
Definition note := list prompt.
Definition notes := list note.

Definition set_messages (p : prompt) (ms : list msg) : prompt := mkPrompt (p_id p) (p_tool p) (p_accepted p) ms.

(* ---------- Config::effective_prompt_storage ---------- *)

Record config := mkConfig {
  c_global : option smode;      (* prompt_storage parsed (None = not one of the three words) *)
  c_fallback : option smode;    (* default_prompt_storage parsed *)
  c_excluded : bool;            (* should_exclude_prompts(repo): exclude list matches *)
  c_include_empty : bool;       (* include_prompts_in_repositories is empty *)
  c_include_match : bool }.     (* repo matches the include list *)

(* Config::should_exclude_prompts over the remote URLs of the repository (None = they could not be read) and the
   exclusion patterns; glob matching (glob::Pattern::matches) is an environment function; the two quantifiers
   come from the source (Gen: excl_over_remotes, excl_over_patterns) *)
Definition quantb {A : Type} (q : quant) (f : A -> bool) (l : list A) : bool :=
  match q with QAny => existsb f l | QAll => forallb f l end.

Definition star_pattern : list N := [42].

Definition should_exclude (glob : list N -> list N -> bool) (patterns : list (list N))
           (remotes : option (list (list N))) : bool :=
  match patterns with
  | [] => false
  | _ =>
      if existsb (str_eqb star_pattern) patterns then true
      else match remotes with
           | None => false
           | Some [] => false
           | Some rs => quantb excl_over_remotes (fun u => quantb excl_over_patterns (fun p => glob p u) patterns) rs
           end
  end.

Definition effective_mode (c : config) : smode :=
  if c_excluded c then eff_excluded
  else if c_include_empty c then match c_global c with Some m => m | None => eff_unparsable_global end
  else if c_include_match c then match c_global c with Some m => m | None => eff_unparsable_global_included end
  else match c_fallback c with Some m => m | None => eff_no_fallback end.

(* ---------- append_checkpoint: is the transcript kept inline in the working log? ---------- *)

Fixpoint rule_for (tool : list N) (rules : list (list N * refetch_rule)) : refetch_rule :=
  match rules with
  | [] => refetch_default
  | (t, r) :: rest => if str_eqb t tool then r else rule_for tool rest
  end.

Definition cannot_refetch (tool : list N) (meta_keys : list (list N)) : bool :=
  match rule_for tool refetch_rules with
  | RKeep => true
  | RDrop => false
  | RDropIfMeta k => negb (existsb (str_eqb k) meta_keys)
  end.

Definition stored_transcript (tool : list N) (meta_keys : list (list N)) (ms : list msg) : list msg :=
  if cannot_refetch tool meta_keys then ms else [].

(* ---------- the storage-mode match ---------- *)

(* what one run of post_commit finds in its environment *)
Record env := mkEnv { e_logged_in : bool; e_cas_ok : bool }.

Definition msgs_nil (ms : list msg) : bool := match ms with [] => true | _ => false end.

Fixpoint put_messages (l : note) (mss : list (list msg)) : note :=
  match l, mss with
  | p :: l', ms :: mss' => set_messages p ms :: put_messages l' mss'
  | _, _ => []
  end.

Section WithClassifier.
  Variable isr : list N -> bool.

  (* strip_prompt_messages *)
  Definition strip_log (l : note) : note := map (fun p => set_messages p []) l.

  (* redact_secrets_from_prompts *)
  Definition redact_log (l : note) : outcome note :=
    match redact_prompts isr (map p_messages l) with
    | Panic => Panic
    | Ok (mss, _) => Ok (put_messages l mss)
    end.

  Definition run_simple (a : action) (l : note) : outcome note :=
    match a with
    | AStrip => Ok (strip_log l)
    | ARedact => redact_log l
    | AKeep | ARedactThenCas => Ok l
    end.

  (* enqueue_prompt_messages_to_cas, successful run: every record that meets all the conditions the source
     lists (Gen: cas_clear_when) is uploaded and its messages cleared; the others are left as they are *)
  Definition cas_atom_holds (p : prompt) (a : cas_atom) : bool :=
    match a with
    | CHasMessages => negb (msgs_nil (p_messages p))
    | CAcceptedPositive => 0 <? p_accepted p
    end.
  Definition cas_takes_with (atoms : list cas_atom) (p : prompt) : bool := forallb (cas_atom_holds p) atoms.
  Definition cas_clear_with (atoms : list cas_atom) (l : note) : note :=
    map (fun p => if cas_takes_with atoms p then set_messages p [] else p) l.
  Definition cas_clear (l : note) : note := cas_clear_with cas_clear_when l.

  (* ARedactThenCas: redact, enqueue to the CAS queue (cas_clear); when the enqueue fails the failure arm runs *)
  Definition run_action (e : env) (failure : action) (a : action) (l : note) : outcome note :=
    match a with
    | ARedactThenCas =>
        match redact_log l with
        | Panic => Panic
        | Ok l' =>
            if e_cas_ok e then Ok (cas_clear l')
            else run_simple failure l'
        end
    | _ => run_simple a l
    end.

  (* the storage-mode match of one writer *)
  Definition filter_log (a : arms) (m : smode) (e : env) (l : note) : outcome note :=
    match m with
    | MLocal => run_action e (a_cas_failure a) (a_local a) l
    | MNotes => run_action e (a_cas_failure a) (a_notes a) l
    | MDefault =>
        if e_logged_in e then run_action e (a_cas_failure a) (a_default_in a) l
        else run_action e (a_cas_failure a) (a_default_out a) l
    end.

  (* ---------- one note-writer step ---------- *)

  (* what the writer builds its log from *)
  Record source := mkSource {
    s_worklog : note;               (* records assembled from the working log: checkpoint transcripts, INITIAL prompts *)
    s_picks : list (nat * nat) }.   (* (note, record) positions copied from existing notes *)

  Definition dummy_prompt : prompt := mkPrompt [] [] 0 [].

  Definition pick (ns : notes) (ij : nat * nat) : prompt :=
    nth (snd ij) (nth (fst ij) ns []) dummy_prompt.

  Definition source_is_notes (w : writer) : bool := w_src_notes w && negb (w_src_worklog w).

  (* a writer whose source is not known to be existing notes only may carry working-log records *)
  Definition built_log (w : writer) (ns : notes) (src : source) : note :=
    (if source_is_notes w then [] else s_worklog src)
    ++ (if w_src_notes w then map (pick ns) (s_picks src) else []).

  (* a panic while filtering aborts the hook: nothing is written *)
  Definition write (w : writer) (m : smode) (e : env) (ns : notes) (src : source) : notes :=
    let l := built_log w ns src in
    match w_arms w with
    | Some a =>
        match filter_log a m e l with
        | Ok l' => l' :: ns
        | Panic => ns
        end
    | None => l :: ns
    end.

  Record step := mkStep { st_writer : writer; st_mode : smode; st_env : env; st_source : source }.

  Fixpoint run (steps : list step) (ns : notes) : notes :=
    match steps with
    | [] => ns
    | st :: rest => run rest (write (st_writer st) (st_mode st) (st_env st) ns (st_source st))
    end.
End WithClassifier.

(* ---------- invariant ---------- *)

Definition clean_prompt (p : prompt) : Prop := p_messages p = [].
Definition Inv_clean (ns : notes) : Prop := Forall (Forall clean_prompt) ns.

Definition inv_cleanb (ns : notes) : bool := forallb (forallb (fun p => msgs_nil (p_messages p))) ns.

(* ---------- the inventory check ---------- *)

Definition is_strip (a : action) : bool := match a with AStrip => true | _ => false end.
Definition is_redact (a : action) : bool := match a with ARedact => true | _ => false end.

(* the successful enqueue clears EVERY record that has messages: no condition beyond having messages *)
Definition atoms_clear_all (atoms : list cas_atom) : bool :=
  forallb (fun a => match a with CHasMessages => true | CAcceptedPositive => false end) atoms.
Definition cas_clears_all : bool := atoms_clear_all cas_clear_when.

(* an action after which no record has messages left, whatever the environment *)
Definition clears (failure a : action) : bool :=
  match a with
  | AStrip => true
  | ARedactThenCas => cas_clears_all && is_strip failure
  | ARedact | AKeep => false
  end.

(* the writer applies a storage-mode match that leaves no messages in Local and Default mode *)
Definition w_filtered (w : writer) : bool :=
  match w_arms w with
  | Some a => clears (a_cas_failure a) (a_local a) && clears (a_cas_failure a) (a_default_in a)
              && clears (a_cas_failure a) (a_default_out a)
  | None => false
  end.

(* ... and redacts in Notes mode *)
Definition w_redacts_in_notes (w : writer) : bool :=
  match w_arms w with Some a => is_redact (a_notes a) | None => false end.

Definition safe_writer (w : writer) : bool := w_filtered w || source_is_notes w.

(* no exception list: every writer of the inventory must be filtered or notes-sourced *)
Definition inventory_ok (ws : list writer) : bool := forallb safe_writer ws.

Definition unsafe_writers (ws : list writer) : list writer := filter (fun w => negb (safe_writer w)) ws.

(* every writer that may carry working-log records into a note in Notes mode masks them *)
Definition inventory_notes_ok (ws : list writer) : bool :=
  forallb (fun w => source_is_notes w || w_redacts_in_notes w) ws.
