(* Proofs/NotesTreeProofs.v -- one note per object and complete lookup for fan-out depth <= 1;
   refutation for deeper trees (C05, part 1). *)
From Coq Require Import List NArith Bool Lia PeanoNat.
From Verif Require Import Base.Str Base.StrFacts Model.NotesTree.
Import ListNotations.
Open Scope N_scope.
Arguments N.add : simpl never.
Arguments N.sub : simpl never.
Arguments N.mul : simpl never.
Arguments N.eqb : simpl never.
Arguments N.ltb : simpl never.
Arguments N.leb : simpl never.

(* ------------------------------------------------------------------ paths *)
Lemma path_eqb_eq p : forall q, path_eqb p q = true <-> p = q.
Proof.
  induction p as [|a p IH]; intros [|b q]; cbn [path_eqb]; split; intro H; try congruence; try reflexivity.
  - apply andb_true_iff in H as [H1 H2]. apply str_eqb_eq in H1. apply IH in H2. congruence.
  - inversion H; subst. apply andb_true_iff. split; [apply str_eqb_refl | apply IH; reflexivity].
Qed.

Lemma path_eqb_refl p : path_eqb p p = true.
Proof. apply path_eqb_eq; reflexivity. Qed.

Lemma is_prefix_refl p : is_prefix p p = true.
Proof. induction p; cbn [is_prefix]; auto. rewrite str_eqb_refl, IHp; reflexivity. Qed.

Lemma firstn_skipn_len2 (s : list N) :
  (2 < length s)%nat -> length (firstn 2 s) = 2%nat /\ skipn 2 s <> [].
Proof.
  destruct s as [|a [|b [|c s]]]; cbn [length]; intro H; try lia.
  split; [reflexivity | discriminate].
Qed.

Lemma key_fanout s : key (fanout_path s) = s.
Proof.
  unfold fanout_path, key. destruct (length s <=? 2)%nat; cbn [concat].
  - apply app_nil_r.
  - rewrite app_nil_r. apply firstn_skipn.
Qed.

Lemma fanout_le1 s : path_le1 (fanout_path s) = true.
Proof.
  unfold fanout_path. destruct (length s <=? 2)%nat eqn:E; cbn [path_le1]; auto.
  apply Nat.leb_gt in E. destruct (firstn_skipn_len2 s E) as [H1 H2].
  rewrite H1. destruct (skipn 2 s) as [|x l]; [congruence | reflexivity].
Qed.

(* under depth <= 1, the only places where the note of sha can sit *)
Lemma le1_key_paths p s :
  path_le1 p = true -> key p = s -> p = [s] \/ p = fanout_path s.
Proof.
  destruct p as [|a [|b [|c p]]]; cbn [path_le1]; intros L K; try discriminate.
  - left. unfold key in K. cbn [concat] in K. rewrite app_nil_r in K. congruence.
  - right. apply andb_true_iff in L as [La Lb]. apply Nat.eqb_eq in La.
    unfold key in K. cbn [concat] in K. rewrite app_nil_r in K.
    assert (Hb : b <> []) by (destruct b; [discriminate | discriminate]).
    assert (Hl : (2 < length s)%nat).
    { rewrite <- K, app_length. destruct b; [congruence | cbn [length]; lia]. }
    unfold fanout_path. apply Nat.leb_gt in Hl. rewrite Hl.
    subst s. f_equal.
    + rewrite firstn_app, <- La, firstn_all, Nat.sub_diag. cbn [firstn]. rewrite app_nil_r. reflexivity.
    + rewrite skipn_app, <- La, skipn_all, Nat.sub_diag. reflexivity.
Qed.

(* ------------------------------------------------------------------ NoDup / filter *)
Lemma In_map_filter {A B} (f : A -> B) g l x :
  In x (map f (filter g l)) -> In x (map f l).
Proof.
  intro H. apply in_map_iff in H as [e [H1 H2]]. apply filter_In in H2 as [H2 _].
  apply in_map_iff. eauto.
Qed.

Lemma NoDup_map_filter {A B} (f : A -> B) g l :
  NoDup (map f l) -> NoDup (map f (filter g l)).
Proof.
  induction l as [|e l IH]; cbn [map filter]; intro H; [constructor|].
  inversion H; subst. destruct (g e); cbn [map]; auto.
  constructor; auto. intro Hin. apply H2. eapply In_map_filter; eauto.
Qed.

Lemma NoDup_snoc {A} (l : list A) s : NoDup l -> ~ In s l -> NoDup (l ++ [s]).
Proof.
  intros Hl Hs. induction l as [|x l IH]; cbn [app]; [constructor; [cbn; tauto | constructor]|].
  inversion Hl as [|x' l' Hx Hl']; subst x' l'. constructor.
  - rewrite in_app_iff. cbn [In]. intros [H|[H|[]]]; [contradiction|]. apply Hs. left; auto.
  - apply IH; auto. intro H. apply Hs. right; auto.
Qed.

Lemma str_mem_In s l : str_mem s l = true <-> In s l.
Proof.
  induction l as [|x l IH]; cbn [str_mem In]; [split; [discriminate | tauto]|].
  rewrite orb_true_iff, IH, str_eqb_eq. tauto.
Qed.

Lemma nodup_strs_NoDup l : nodup_strs l = true <-> NoDup l.
Proof.
  induction l as [|x l IH]; cbn [nodup_strs]; [split; [constructor | reflexivity]|].
  rewrite andb_true_iff, negb_true_iff, IH. split.
  - intros [H1 H2]. constructor; auto. intro Hin. apply str_mem_In in Hin. congruence.
  - intro H. inversion H; subst. split; auto.
    destruct (str_mem x l) eqn:E; auto. apply str_mem_In in E. contradiction.
Qed.

Lemma unique_keysb_spec t : unique_keysb t = true <-> unique_keys t.
Proof. apply nodup_strs_NoDup. Qed.

(* ------------------------------------------------------------------ one write *)
Lemma layout_filter g t : layout_le1 t = true -> layout_le1 (filter g t) = true.
Proof.
  unfold layout_le1. rewrite !forallb_forall. intros H e He.
  apply filter_In in He as [He _]. auto.
Qed.

Lemma layout_write_one t e : layout_le1 t = true -> layout_le1 (write_one t e) = true.
Proof.
  intro L. unfold write_one, fi_modify, fi_delete, layout_le1.
  rewrite forallb_app. apply andb_true_iff. split.
  - apply layout_filter. apply layout_filter. destruct (path_eqb _ _); auto. apply layout_filter; auto.
  - cbn [forallb fst]. rewrite fanout_le1. reflexivity.
Qed.

Lemma unique_write_one t e :
  layout_le1 t = true -> unique_keys t -> unique_keys (write_one t e).
Proof.
  intros L U. destruct e as [s b]. unfold write_one, unique_keys, keys. cbn [fst snd].
  set (fan := fanout_path s).
  set (t1 := if path_eqb [s] fan then t else fi_delete [s] t).
  assert (U1 : NoDup (map (fun e => key (fst e)) t1)).
  { unfold t1. destruct (path_eqb [s] fan); auto. apply NoDup_map_filter; auto. }
  assert (L1 : layout_le1 t1 = true).
  { unfold t1. destruct (path_eqb [s] fan); auto. apply layout_filter; auto. }
  unfold fi_modify. rewrite map_app. cbn [map fst].
  assert (Hk : key fan = s) by apply key_fanout.
  rewrite Hk.
  apply NoDup_snoc.
  - apply NoDup_map_filter. apply NoDup_map_filter. exact U1.
  - intro Hin. apply in_map_iff in Hin as [[p b'] [Hkey Hin]]. cbn [fst] in Hkey.
    apply filter_In in Hin as [Hin Hf]. cbn [fst] in Hf.
    unfold fi_delete in Hin. apply filter_In in Hin as [Hin Hd]. cbn [fst] in Hd.
    assert (Lp : path_le1 p = true).
    { unfold layout_le1 in L1. rewrite forallb_forall in L1. apply (L1 (p, b')). exact Hin. }
    destruct (le1_key_paths p s Lp Hkey) as [Hp | Hp].
    + (* flat *)
      subst p. unfold t1 in Hin. destruct (path_eqb [s] fan) eqn:E.
      * apply path_eqb_eq in E. rewrite <- E, is_prefix_refl in Hd. discriminate.
      * unfold fi_delete in Hin. apply filter_In in Hin as [_ Hd']. cbn [fst] in Hd'.
        rewrite is_prefix_refl in Hd'. discriminate.
    + subst p. fold fan in Hd. rewrite is_prefix_refl in Hd. discriminate.
Qed.

(* ------------------------------------------------------------------ the batch *)
Lemma batch_invariants es : forall t,
  layout_le1 t = true -> unique_keys t ->
  layout_le1 (fold_left write_one es t) = true /\ unique_keys (fold_left write_one es t).
Proof.
  induction es as [|e es IH]; intros t L U; cbn [fold_left]; [split; assumption|].
  apply IH; [apply layout_write_one | apply unique_write_one]; assumption.
Qed.

Theorem batch_unique t es :
  layout_le1 t = true -> unique_keys t -> unique_keys (batch_write t es).
Proof. intros L U. apply (batch_invariants (dedup_last es) t L U). Qed.

Theorem batch_layout t es :
  layout_le1 t = true -> layout_le1 (batch_write t es) = true.
Proof.
  intro L. unfold batch_write. generalize (dedup_last es) as l. revert L. revert t.
  intros t L l. revert t L. induction l as [|e l IH]; intros t L; cbn [fold_left]; auto.
  apply IH. apply layout_write_one; assumption.
Qed.

(* ------------------------------------------------------------------ lookup *)
Lemma le1_git_path_ok p : path_le1 p = true -> git_path_ok p = true.
Proof.
  destruct p as [|a [|b [|c p]]]; cbn [path_le1]; intro H; try discriminate.
  - reflexivity.
  - apply andb_true_iff in H as [H _]. unfold git_path_ok. cbn [is_nil negb removelast forallb].
    rewrite H. reflexivity.
Qed.

Lemma filter_unique {A} (k : A -> list N) x l :
  NoDup (map k l) ->
  filter (fun e => str_eqb (k e) x) l
  = opt_list (find (fun e => str_eqb (k e) x) l).
Proof.
  induction l as [|e l IH]; cbn [map filter find]; intro H; [reflexivity|].
  inversion H; subst. destruct (str_eqb (k e) x) eqn:E.
  - cbn [opt_list]. f_equal. apply str_eqb_eq in E.
    assert (Hn : forall y, In y l -> str_eqb (k y) x = false).
    { intros y Hy. apply str_eqb_neq. intro Hk. apply H2. apply in_map_iff. exists y. split; congruence. }
    clear -Hn. induction l as [|y l IH]; cbn [filter]; auto.
    rewrite (Hn y (or_introl eq_refl)). apply IH. intros z Hz. apply Hn. right; auto.
  - apply IH; auto.
Qed.

Lemma find_blob_In t p b : find_blob t p = Some b -> In (p, b) t.
Proof.
  unfold find_blob. destruct (find _ t) as [e|] eqn:E; [|discriminate].
  intro H. injection H as <-. apply find_some in E as [Hin Hp].
  apply path_eqb_eq in Hp. destruct e; cbn [fst snd] in *. congruence.
Qed.

Lemma find_blob_None t p : find_blob t p = None -> forall b, ~ In (p, b) t.
Proof.
  unfold find_blob. destruct (find _ t) as [e|] eqn:E; [discriminate|].
  intros _ b Hin. eapply find_none in E; eauto. cbn [fst] in E. rewrite path_eqb_refl in E. discriminate.
Qed.

Lemma unique_find_key t s p b :
  unique_keys t -> In (p, b) t -> key p = s ->
  find (fun e => str_eqb (key (fst e)) s) t = Some (p, b).
Proof.
  unfold unique_keys, keys. induction t as [|e t IH]; cbn [map find In]; intros U Hin K; [contradiction|].
  inversion U; subst. destruct Hin as [-> | Hin].
  - cbn [fst]. rewrite str_eqb_refl. reflexivity.
  - destruct (str_eqb (key (fst e)) (key p)) eqn:E; [|apply IH; auto].
    apply str_eqb_eq in E. exfalso. apply H1. apply in_map_iff. exists (p, b). cbn [fst]. split; congruence.
Qed.

Theorem lookup_complete t sha :
  layout_le1 t = true -> unique_keys t -> opt_list (lookup t sha) = git_lookup t sha.
Proof.
  intros L U. unfold git_lookup.
  assert (Hf : filter (fun e => git_path_ok (fst e) && str_eqb (key (fst e)) sha) t
               = filter (fun e => str_eqb (key (fst e)) sha) t).
  { apply filter_ext_in. intros e He. unfold layout_le1 in L. rewrite forallb_forall in L.
    rewrite (le1_git_path_ok _ (L e He)). reflexivity. }
  rewrite Hf, (filter_unique (fun e => key (fst e)) sha t U).
  unfold lookup. destruct (find_blob t [sha]) as [b|] eqn:E1.
  - apply find_blob_In in E1.
    rewrite (unique_find_key t sha [sha] b U E1); [reflexivity|].
    unfold key. cbn [concat]. apply app_nil_r.
  - destruct (find_blob t (fanout_path sha)) as [b|] eqn:E2.
    + apply find_blob_In in E2.
      rewrite (unique_find_key t sha _ b U E2 (key_fanout sha)). reflexivity.
    + destruct (find (fun e => str_eqb (key (fst e)) sha) t) as [[p b]|] eqn:E3; [|reflexivity].
      exfalso. apply find_some in E3 as [Hin Hk]. cbn [fst] in Hk. apply str_eqb_eq in Hk.
      assert (Lp : path_le1 p = true).
      { unfold layout_le1 in L. rewrite forallb_forall in L. apply (L (p, b) Hin). }
      destruct (le1_key_paths p sha Lp Hk) as [-> | ->].
      * exact (find_blob_None _ _ E1 b Hin).
      * exact (find_blob_None _ _ E2 b Hin).
Qed.

(* ------------------------------------------------------------------ deeper fan-out: refuted *)
Theorem fanout2_refuted :
  exists t sha b,
    Known_C05_fanout t = true /\ unique_keysb t = true /\
    (* (a) after the batch write two paths annotate the same object *)
    unique_keysb (batch_write t [(sha, b)]) = false /\
    (* (b) git's reader then returns both blobs (and prints their concatenation) *)
    length (git_lookup (batch_write t [(sha, b)]) sha) = 2%nat /\
    (* (c) the code's lookup misses the note that git's reader finds *)
    git_lookup t sha <> [] /\ lookup t sha = None.
Proof.
  exists w_tree2, w_sha, 2. vm_compute.
  repeat (split; try reflexivity). discriminate.
Qed.

(* the notes of other objects are left alone (object names longer than two characters) *)
Lemma long_filter g t : long_keys t = true -> long_keys (filter g t) = true.
Proof.
  unfold long_keys. rewrite !forallb_forall. intros H e He.
  apply filter_In in He as [He _]. auto.
Qed.

Lemma write_one_removed_key t s b p b' :
  layout_le1 t = true -> long_keys t = true -> (2 < length s)%nat ->
  In (p, b') t -> key p <> s -> In (p, b') (write_one t (s, b)).
Proof.
  intros L LK Hs Hin Hk. unfold write_one. cbn [fst snd].
  assert (Lp : path_le1 p = true).
  { unfold layout_le1 in L. rewrite forallb_forall in L. apply (L (p, b') Hin). }
  assert (Kp : (2 < length (key p))%nat).
  { unfold long_keys in LK. rewrite forallb_forall in LK. specialize (LK (p, b') Hin).
    cbn [fst] in LK. apply Nat.ltb_lt in LK. exact LK. }
  set (fan := fanout_path s).
  assert (Hfan : fan = [firstn 2 s; skipn 2 s]).
  { unfold fan, fanout_path. apply Nat.leb_gt in Hs. rewrite Hs. reflexivity. }
  assert (P1 : is_prefix [s] p = false).
  { destruct p as [|a [|c [|d p]]]; cbn [path_le1] in Lp; try discriminate; cbn [is_prefix].
    - destruct (str_eqb s a) eqn:E; auto. apply str_eqb_eq in E. exfalso. apply Hk.
      unfold key. cbn [concat]. rewrite app_nil_r. congruence.
    - destruct (str_eqb s a) eqn:E; auto. apply str_eqb_eq in E. exfalso.
      apply andb_true_iff in Lp as [La _]. apply Nat.eqb_eq in La. subst a. lia. }
  assert (P2 : is_prefix fan p = false).
  { destruct (is_prefix fan p) eqn:E; auto. exfalso. rewrite Hfan in E.
    destruct p as [|a [|c [|d p]]]; cbn [path_le1] in Lp; try discriminate; cbn [is_prefix] in E.
    - rewrite andb_false_r in E. discriminate.
    - apply andb_true_iff in E as [E1 E2]. apply andb_true_iff in E2 as [E2 _].
      apply str_eqb_eq in E1. apply str_eqb_eq in E2. apply Hk.
      unfold key. cbn [concat]. rewrite app_nil_r, <- E1, <- E2. apply firstn_skipn. }
  assert (P3 : is_prefix p fan = false).
  { destruct (is_prefix p fan) eqn:E; auto. exfalso. rewrite Hfan in E.
    destruct p as [|a [|c [|d p]]]; cbn [path_le1] in Lp; try discriminate; cbn [is_prefix] in E.
    - rewrite andb_true_r in E. apply str_eqb_eq in E.
      unfold key in Kp. cbn [concat] in Kp. rewrite app_nil_r in Kp.
      destruct (firstn_skipn_len2 s Hs) as [H2 _]. subst a. lia.
    - apply andb_true_iff in E as [E1 E2]. apply andb_true_iff in E2 as [E2 _].
      apply str_eqb_eq in E1. apply str_eqb_eq in E2. apply Hk.
      unfold key. cbn [concat]. rewrite app_nil_r, E1, E2. apply firstn_skipn. }
  unfold fi_modify. apply in_or_app. left.
  apply filter_In. cbn [fst]. split; [|rewrite P2, P3; reflexivity].
  unfold fi_delete. apply filter_In. cbn [fst]. split; [|rewrite P2; reflexivity].
  destruct (path_eqb [s] fan); auto.
  apply filter_In. cbn [fst]. split; auto. rewrite P1. reflexivity.
Qed.

Lemma write_one_only_adds t s b p b' :
  In (p, b') (write_one t (s, b)) -> In (p, b') t \/ (p = fanout_path s /\ b' = b).
Proof.
  unfold write_one, fi_modify, fi_delete. cbn [fst snd]. intro H.
  apply in_app_or in H as [H | [H | []]].
  - left. apply filter_In in H as [H _]. apply filter_In in H as [H _].
    destruct (path_eqb _ _); auto. apply filter_In in H as [H _]. auto.
  - right. injection H as <- <-. auto.
Qed.

Lemma long_write_one t s b :
  long_keys t = true -> (2 < length s)%nat -> long_keys (write_one t (s, b)) = true.
Proof.
  intros LK Hs. unfold write_one, fi_modify, fi_delete, long_keys. cbn [fst snd].
  rewrite forallb_app. apply andb_true_iff. split.
  - apply long_filter. apply long_filter. destruct (path_eqb _ _); auto. apply long_filter; auto.
  - cbn [forallb fst]. rewrite key_fanout. apply Nat.ltb_lt in Hs. rewrite Hs. reflexivity.
Qed.

Lemma fold_preserves_others es : forall t k,
  layout_le1 t = true -> long_keys t = true ->
  Forall (fun e => (2 < length (fst e))%nat) es ->
  ~ In k (map fst es) ->
  forall p b, key p = k -> (In (p, b) (fold_left write_one es t) <-> In (p, b) t).
Proof.
  induction es as [|[s b0] es IH]; intros t k L LK F Hk p b Kp; cbn [fold_left]; [tauto|].
  inversion F; subst. cbn [fst] in *. cbn [map fst In] in Hk.
  assert (Hks : key p <> s) by (intro; apply Hk; left; congruence).
  rewrite (IH (write_one t (s, b0)) (key p)); auto.
  - split.
    + intro H. apply write_one_only_adds in H as [H | [H _]]; auto.
      exfalso. apply Hks. rewrite H. apply key_fanout.
    + intro H. apply write_one_removed_key; auto.
  - apply layout_write_one; auto.
  - apply long_write_one; auto.
Qed.

Lemma dedup_last_sub es e : In e (dedup_last es) -> In e es.
Proof.
  induction es as [|x es IH]; cbn [dedup_last]; [tauto|].
  destruct (existsb _ es); cbn [In]; intro H; [right; auto | destruct H; auto].
Qed.

Theorem batch_preserves_others t es k :
  layout_le1 t = true -> long_keys t = true ->
  Forall (fun e => (2 < length (fst e))%nat) es ->
  ~ In k (map fst es) ->
  forall p b, key p = k -> (In (p, b) (batch_write t es) <-> In (p, b) t).
Proof.
  intros L LK F Hk. unfold batch_write. apply fold_preserves_others; auto.
  - rewrite Forall_forall in *. intros e He. apply F. apply dedup_last_sub; auto.
  - intro H. apply Hk. apply in_map_iff in H as [e [H1 H2]]. apply in_map_iff. exists e.
    split; auto. apply dedup_last_sub; auto.
Qed.

(* string-level function and its component form agree *)
Lemma notes_path_components oid s :
  notes_path_for_object oid = Ok s -> mem c_slash oid = false ->
  split_on c_slash s = fanout_path oid.
Proof.
  unfold notes_path_for_object, fanout_path. destruct (length oid <=? 2)%nat eqn:E.
  - intros H M. injection H as <-. apply split_on_nomem; auto.
  - apply Nat.leb_gt in E. destruct (nth_error oid 2) as [b|] eqn:En.
    + destruct (is_char_boundary_byte b); [|discriminate]. intros H M. injection H as <-.
      assert (M1 : mem c_slash (firstn 2 oid) = false /\ mem c_slash (skipn 2 oid) = false).
      { rewrite <- (firstn_skipn 2 oid) in M. rewrite mem_false_app in M.
        apply orb_false_iff in M. exact M. }
      destruct M1 as [M1 M2].
      change (firstn 2 oid ++ [c_slash] ++ skipn 2 oid) with (firstn 2 oid ++ c_slash :: skipn 2 oid).
      rewrite (split_on_app c_slash _ _ M1). f_equal. apply split_on_nomem. exact M2.
    + apply nth_error_None in En. lia.
Qed.
