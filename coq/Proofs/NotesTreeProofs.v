(* Proofs/NotesTreeProofs.v -- one note per object and complete lookup for fan-out depth <= 1;
   refutation for deeper trees (C05, part 1). *)
From Coq Require Import List NArith Bool Lia PeanoNat.
From Verif Require Import Base.Str Base.StrFacts Gen.GenNotes Model.NotesTree.
Import ListNotations.
Open Scope N_scope.
Arguments N.add : simpl never.
Arguments N.sub : simpl never.
Arguments N.mul : simpl never.
Arguments N.eqb : simpl never.
Arguments N.ltb : simpl never.
Arguments N.leb : simpl never.

(* ------------------------------------------------------------------ paths *)
Lemma path_eqb_eq p : forall q, path_eqb p q = true <-> p = q.
Proof.
  induction p as [|a p IH]; intros [|b q]; cbn [path_eqb]; split; intro H; try congruence; try reflexivity.
  - apply andb_true_iff in H as [H1 H2]. apply str_eqb_eq in H1. apply IH in H2. congruence.
  - inversion H; subst. apply andb_true_iff. split; [apply str_eqb_refl | apply IH; reflexivity].
Qed.

Lemma path_eqb_refl p : path_eqb p p = true.
Proof. apply path_eqb_eq; reflexivity. Qed.

Lemma is_prefix_refl p : is_prefix p p = true.
Proof. induction p; cbn [is_prefix]; auto. rewrite str_eqb_refl, IHp; reflexivity. Qed.

Lemma firstn_skipn_len2 (s : list N) :
  (2 < length s)%nat -> length (firstn 2 s) = 2%nat /\ skipn 2 s <> [].
Proof.
  destruct s as [|a [|b [|c s]]]; cbn [length]; intro H; try lia.
  split; [reflexivity | discriminate].
Qed.

Lemma key_fanout s : key (fanout_path s) = s.
Proof.
  unfold fanout_path, key. destruct (length s <=? 2)%nat; cbn [concat].
  - apply app_nil_r.
  - rewrite app_nil_r. apply firstn_skipn.
Qed.

Lemma fanout_le1 s : path_le1 (fanout_path s) = true.
Proof.
  unfold fanout_path. destruct (length s <=? 2)%nat eqn:E; cbn [path_le1]; auto.
  apply Nat.leb_gt in E. destruct (firstn_skipn_len2 s E) as [H1 H2].
  rewrite H1. destruct (skipn 2 s) as [|x l]; [congruence | reflexivity].
Qed.

(* under depth <= 1, the only places where the note of sha can sit *)
Lemma le1_key_paths p s :
  path_le1 p = true -> key p = s -> p = [s] \/ p = fanout_path s.
Proof.
  destruct p as [|a [|b [|c p]]]; cbn [path_le1]; intros L K; try discriminate.
  - left. unfold key in K. cbn [concat] in K. rewrite app_nil_r in K. congruence.
  - right. apply andb_true_iff in L as [La Lb]. apply Nat.eqb_eq in La.
    unfold key in K. cbn [concat] in K. rewrite app_nil_r in K.
    assert (Hb : b <> []) by (destruct b; [discriminate | discriminate]).
    assert (Hl : (2 < length s)%nat).
    { rewrite <- K, app_length. destruct b; [congruence | cbn [length]; lia]. }
    unfold fanout_path. apply Nat.leb_gt in Hl. rewrite Hl.
    subst s. f_equal.
    + rewrite firstn_app, <- La, firstn_all, Nat.sub_diag. cbn [firstn]. rewrite app_nil_r. reflexivity.
    + rewrite skipn_app, <- La, skipn_all, Nat.sub_diag. reflexivity.
Qed.

(* ------------------------------------------------------------------ NoDup / filter *)
Lemma In_map_filter {A B} (f : A -> B) g l x :
  In x (map f (filter g l)) -> In x (map f l).
Proof.
  intro H. apply in_map_iff in H as [e [H1 H2]]. apply filter_In in H2 as [H2 _].
  apply in_map_iff. eauto.
Qed.

Lemma NoDup_map_filter {A B} (f : A -> B) g l :
  NoDup (map f l) -> NoDup (map f (filter g l)).
Proof.
  induction l as [|e l IH]; cbn [map filter]; intro H; [constructor|].
  inversion H; subst. destruct (g e); cbn [map]; auto.
  constructor; auto. intro Hin. apply H2. eapply In_map_filter; eauto.
Qed.

Lemma NoDup_snoc {A} (l : list A) s : NoDup l -> ~ In s l -> NoDup (l ++ [s]).
Proof.
  intros Hl Hs. induction l as [|x l IH]; cbn [app]; [constructor; [cbn; tauto | constructor]|].
  inversion Hl as [|x' l' Hx Hl']; subst x' l'. constructor.
  - rewrite in_app_iff. cbn [In]. intros [H|[H|[]]]; [contradiction|]. apply Hs. left; auto.
  - apply IH; auto. intro H. apply Hs. right; auto.
Qed.

Lemma str_mem_In s l : str_mem s l = true <-> In s l.
Proof.
  induction l as [|x l IH]; cbn [str_mem In]; [split; [discriminate | tauto]|].
  rewrite orb_true_iff, IH, str_eqb_eq. tauto.
Qed.

Lemma nodup_strs_NoDup l : nodup_strs l = true <-> NoDup l.
Proof.
  induction l as [|x l IH]; cbn [nodup_strs]; [split; [constructor | reflexivity]|].
  rewrite andb_true_iff, negb_true_iff, IH. split.
  - intros [H1 H2]. constructor; auto. intro Hin. apply str_mem_In in Hin. congruence.
  - intro H. inversion H; subst. split; auto.
    destruct (str_mem x l) eqn:E; auto. apply str_mem_In in E. contradiction.
Qed.

Lemma unique_keysb_spec t : unique_keysb t = true <-> unique_keys t.
Proof. apply nodup_strs_NoDup. Qed.

(* ------------------------------------------------------------------ the D commands as one filter *)
Lemma filter_filter {A} (f g : A -> bool) l :
  filter f (filter g l) = filter (fun x => g x && f x) l.
Proof.
  induction l as [|x l IH]; cbn [filter]; [reflexivity|].
  destruct (g x); cbn [filter andb]; [destruct (f x); rewrite IH; reflexivity | exact IH].
Qed.

Definition kept (ds : list path) (e : path * blob) : bool :=
  forallb (fun p => negb (is_prefix p (fst e))) ds.

Lemma fold_delete_filter ds : forall t,
  fold_left (fun t' p => fi_delete p t') ds t = filter (kept ds) t.
Proof.
  induction ds as [|d ds IH]; intro t; cbn [fold_left].
  - unfold kept. cbn [forallb]. induction t as [|x t IHt]; cbn [filter]; [reflexivity | f_equal; exact IHt].
  - rewrite IH. unfold fi_delete. rewrite filter_filter. apply filter_ext. intro e.
    unfold kept. cbn [forallb]. reflexivity.
Qed.

Lemma write_one_with_eq all t s b :
  write_one_with all t (s, b)
  = filter (fun e => negb (is_prefix (fanout_path s) (fst e)) && negb (is_prefix (fst e) (fanout_path s)))
           (filter (kept (delete_paths all s)) t) ++ [(fanout_path s, b)].
Proof. unfold write_one_with, fi_modify. cbn [fst snd]. rewrite fold_delete_filter. reflexivity. Qed.

Lemma In_fan_delete all s : In (fanout_path s) (delete_paths all s).
Proof. unfold delete_paths. rewrite !in_app_iff. right. left. left. reflexivity. Qed.

Lemma In_flat_delete all s : In [s] (delete_paths all s).
Proof.
  unfold delete_paths. destruct (path_eqb [s] (fanout_path s)) eqn:E.
  - apply path_eqb_eq in E. cbn [app]. left. symmetry. exact E.
  - rewrite in_app_iff. left. left. reflexivity.
Qed.

Lemma In_deep_delete s p : In p (deep_paths s) -> In p (delete_paths true s).
Proof. intro H. unfold delete_paths. rewrite !in_app_iff. right. right. exact H. Qed.

Lemma kept_not_listed ds e : In (fst e) ds -> kept ds e = false.
Proof.
  intro H. unfold kept. destruct (forallb _ ds) eqn:E; auto.
  rewrite forallb_forall in E. specialize (E _ H). rewrite is_prefix_refl in E. discriminate.
Qed.

(* ------------------------------------------------------------------ one write, any layout predicate *)
Section OneWrite.
  Variable P : path -> bool.
  Variable all : bool.
  Hypothesis P_fan : forall s, P (fanout_path s) = true.

  Definition layout_P (t : tree) : Prop := forall e, In e t -> P (fst e) = true.

  Lemma layout_P_write t e : layout_P t -> layout_P (write_one_with all t e).
  Proof.
    intros L x Hx. destruct e as [s b]. rewrite write_one_with_eq in Hx.
    apply in_app_or in Hx as [Hx | [<- | []]].
    - apply filter_In in Hx as [Hx _]. apply filter_In in Hx as [Hx _]. auto.
    - cbn [fst]. apply P_fan.
  Qed.

  (* every place where a note of s can sit under P is among the deleted paths *)
  Hypothesis P_covered : forall p s, P p = true -> key p = s -> In p (delete_paths all s).

  Lemma unique_P_write t e : layout_P t -> unique_keys t -> unique_keys (write_one_with all t e).
  Proof.
    intros L U. destruct e as [s b]. rewrite write_one_with_eq. unfold unique_keys, keys.
    rewrite map_app. cbn [map fst]. rewrite key_fanout. apply NoDup_snoc.
    - apply NoDup_map_filter. apply NoDup_map_filter. exact U.
    - intro Hin. apply in_map_iff in Hin as [x [Hk Hx]].
      apply filter_In in Hx as [Hx _]. apply filter_In in Hx as [Hx Hkept].
      rewrite (kept_not_listed _ x) in Hkept; [discriminate|].
      apply P_covered; auto.
  Qed.

  Lemma batch_P es : forall t, layout_P t -> unique_keys t ->
    layout_P (fold_left (write_one_with all) es t) /\ unique_keys (fold_left (write_one_with all) es t).
  Proof.
    induction es as [|e es IH]; intros t L U; cbn [fold_left]; [split; assumption|].
    apply IH; [apply layout_P_write | apply unique_P_write]; assumption.
  Qed.
End OneWrite.

Lemma layout_le1_P t : layout_le1 t = true <-> layout_P path_le1 t.
Proof. unfold layout_le1, layout_P. apply forallb_forall. Qed.

Lemma layout_ok_P t : layout_ok t = true <-> layout_P path_ok t.
Proof. unfold layout_ok, layout_P. apply forallb_forall. Qed.

Lemma le1_covered all p s : path_le1 p = true -> key p = s -> In p (delete_paths all s).
Proof.
  intros L K. destruct (le1_key_paths p s L K) as [-> | ->]; [apply In_flat_delete | apply In_fan_delete].
Qed.

(* ------------------------------------------------------------------ depth <= 1 (holds before and after the repair) *)
Theorem batch_unique_with all t es :
  layout_le1 t = true -> unique_keys t -> unique_keys (batch_write_with all t es).
Proof.
  intros L U. apply layout_le1_P in L.
  apply (batch_P path_le1 all fanout_le1 (le1_covered all) (dedup_last es) t L U).
Qed.

Theorem batch_layout_with all t es :
  layout_le1 t = true -> layout_le1 (batch_write_with all t es) = true.
Proof.
  intro L. apply layout_le1_P. apply layout_le1_P in L. unfold batch_write_with.
  generalize (dedup_last es) as l. intro l. revert t L.
  induction l as [|e l IH]; intros t L; cbn [fold_left]; auto.
  apply IH. apply layout_P_write; auto. exact fanout_le1.
Qed.

Theorem batch_unique t es :
  layout_le1 t = true -> unique_keys t -> unique_keys (batch_write t es).
Proof. apply batch_unique_with. Qed.

Theorem batch_layout t es :
  layout_le1 t = true -> layout_le1 (batch_write t es) = true.
Proof. apply batch_layout_with. Qed.

(* ------------------------------------------------------------------ any layout git accepts *)
Lemma key_split_dirs d : forall s, key (split_dirs d s) = s.
Proof.
  induction d as [|d IH]; intro s; cbn [split_dirs]; unfold key in *; cbn [concat].
  - apply app_nil_r.
  - rewrite IH. apply firstn_skipn.
Qed.

Lemma length_split_dirs d : forall s, length (split_dirs d s) = S d.
Proof. induction d as [|d IH]; intro s; cbn [split_dirs length]; auto. Qed.

Lemma git_path_ok_cons c q :
  q <> [] -> git_path_ok (c :: q) = ((length c =? 2)%nat && git_path_ok q).
Proof.
  intro Hq. unfold git_path_ok. destruct q as [|c' q]; [congruence|].
  cbn [is_nil negb andb]. change (removelast (c :: c' :: q)) with (c :: removelast (c' :: q)).
  cbn [forallb]. reflexivity.
Qed.

Lemma path_split p : git_path_ok p = true -> p = split_dirs (length p - 1) (key p).
Proof.
  induction p as [|c q IH]; intro H; [discriminate|].
  destruct q as [|c' q].
  - cbn [length Nat.sub split_dirs]. unfold key. cbn [concat]. rewrite app_nil_r. reflexivity.
  - rewrite git_path_ok_cons in H by discriminate. apply andb_true_iff in H as [Hc Hq].
    apply Nat.eqb_eq in Hc. specialize (IH Hq).
    replace (length (c :: c' :: q) - 1)%nat with (S (length (c' :: q) - 1)) by (cbn [length]; lia).
    cbn [split_dirs]. unfold key in *. cbn [concat] in *.
    assert (F : firstn 2 (c ++ c' ++ concat q) = c).
    { rewrite firstn_app, <- Hc, firstn_all, Nat.sub_diag. cbn [firstn]. apply app_nil_r. }
    assert (S' : skipn 2 (c ++ c' ++ concat q) = c' ++ concat q).
    { rewrite skipn_app, <- Hc, skipn_all, Nat.sub_diag. reflexivity. }
    rewrite F, S'. f_equal. exact IH.
Qed.

Lemma key_len p : git_path_ok p = true ->
  length (key p) = (2 * (length p - 1) + length (last p []))%nat.
Proof.
  induction p as [|c q IH]; intro H; [discriminate|].
  destruct q as [|c' q].
  - unfold key. cbn [concat length last Nat.sub Nat.mul Nat.add]. rewrite app_nil_r. reflexivity.
  - rewrite git_path_ok_cons in H by discriminate. apply andb_true_iff in H as [Hc Hq].
    apply Nat.eqb_eq in Hc. specialize (IH Hq).
    change (last (c :: c' :: q) []) with (last (c' :: q) []).
    unfold key in *. change (concat (c :: c' :: q)) with (c ++ concat (c' :: q)).
    rewrite app_length, IH, Hc. cbn [length]. lia.
Qed.

Lemma path_ok_git p : path_ok p = true -> git_path_ok p = true.
Proof.
  destruct p as [|c [|c' q]]; cbn [path_ok]; intro H; try discriminate.
  - reflexivity.
  - apply andb_true_iff in H as [H _]. exact H.
Qed.

Lemma fanout_ok s : path_ok (fanout_path s) = true.
Proof.
  unfold fanout_path. destruct (length s <=? 2)%nat eqn:E; [reflexivity|].
  apply Nat.leb_gt in E. destruct (firstn_skipn_len2 s E) as [H1 H2].
  cbn [path_ok]. unfold git_path_ok. cbn [is_nil negb removelast forallb last].
  rewrite H1. destruct (skipn 2 s) as [|x l]; [congruence | reflexivity].
Qed.

Lemma In_deep_paths d s :
  (2 <= d)%nat -> (2 * d < length s)%nat -> In (split_dirs d s) (deep_paths s).
Proof.
  intros H2 Hl. unfold deep_paths. apply in_map_iff. exists d. split; [reflexivity|].
  apply in_seq.
  assert (Hd : (d <= (length s - 1) / 2)%nat) by (apply Nat.div_le_lower_bound; lia).
  lia.
Qed.

Lemma ok_probe p s : path_ok p = true -> key p = s -> In p (probe_paths true s).
Proof.
  intros Hok K. pose proof (path_ok_git p Hok) as Hg.
  destruct p as [|c [|c' [|c'' q]]].
  - discriminate.
  - left. unfold key in K. cbn [concat] in K. rewrite app_nil_r in K. congruence.
  - right. left. cbn [path_ok] in Hok. apply andb_true_iff in Hok as [Hg' Hl].
    assert (L1 : path_le1 [c; c'] = true).
    { cbn [path_le1]. unfold git_path_ok in Hg'. cbn [is_nil negb removelast forallb andb] in Hg'.
      rewrite andb_true_r in Hg'. rewrite Hg'. cbn [last] in Hl. exact Hl. }
    destruct (le1_key_paths _ s L1 K) as [H | H]; [discriminate H | symmetry; exact H].
  - right. right. cbn [probe_paths].
    rewrite (path_split _ Hg), K.
    set (p := c :: c' :: c'' :: q) in *.
    assert (Hlen : length (key p) = (2 * (length p - 1) + length (last p []))%nat) by (apply key_len; exact Hg).
    assert (Hlast : last p [] <> []).
    { unfold p in Hok. cbn [path_ok] in Hok. apply andb_true_iff in Hok as [_ Hl].
      fold p in Hl. destruct (last p []); [discriminate | discriminate]. }
    apply In_deep_paths.
    + unfold p. cbn [length]. lia.
    + rewrite <- K, Hlen. destruct (last p []); [congruence | cbn [length]; lia].
Qed.

Lemma ok_covered p s : path_ok p = true -> key p = s -> In p (delete_paths true s).
Proof.
  intros Hok K. destruct (ok_probe p s Hok K) as [<- | [<- | H]].
  - apply In_flat_delete.
  - apply In_fan_delete.
  - apply In_deep_delete. exact H.
Qed.

(* the repaired writer keeps one entry per object for every layout (uses the translated fact) *)
Lemma all_layouts : gn_all_layouts = true.
Proof. reflexivity. Qed.

Theorem batch_unique_any_layout t es :
  layout_ok t = true -> unique_keys t ->
  layout_ok (batch_write t es) = true /\ unique_keys (batch_write t es).
Proof.
  intros L U. apply layout_ok_P in L. unfold batch_write. rewrite all_layouts.
  destruct (batch_P path_ok true fanout_ok ok_covered (dedup_last es) t L U) as [L' U'].
  split; [apply layout_ok_P; exact L' | exact U'].
Qed.

(* ------------------------------------------------------------------ lookup *)
Lemma le1_git_path_ok p : path_le1 p = true -> git_path_ok p = true.
Proof.
  destruct p as [|a [|b [|c p]]]; cbn [path_le1]; intro H; try discriminate.
  - reflexivity.
  - apply andb_true_iff in H as [H _]. unfold git_path_ok. cbn [is_nil negb removelast forallb].
    rewrite H. reflexivity.
Qed.

Lemma filter_unique {A} (k : A -> list N) x l :
  NoDup (map k l) ->
  filter (fun e => str_eqb (k e) x) l
  = opt_list (find (fun e => str_eqb (k e) x) l).
Proof.
  induction l as [|e l IH]; cbn [map filter find]; intro H; [reflexivity|].
  inversion H; subst. destruct (str_eqb (k e) x) eqn:E.
  - cbn [opt_list]. f_equal. apply str_eqb_eq in E.
    assert (Hn : forall y, In y l -> str_eqb (k y) x = false).
    { intros y Hy. apply str_eqb_neq. intro Hk. apply H2. apply in_map_iff. exists y. split; congruence. }
    clear -Hn. induction l as [|y l IH]; cbn [filter]; auto.
    rewrite (Hn y (or_introl eq_refl)). apply IH. intros z Hz. apply Hn. right; auto.
  - apply IH; auto.
Qed.

Lemma find_blob_In t p b : find_blob t p = Some b -> In (p, b) t.
Proof.
  unfold find_blob. destruct (find _ t) as [e|] eqn:E; [|discriminate].
  intro H. injection H as <-. apply find_some in E as [Hin Hp].
  apply path_eqb_eq in Hp. destruct e; cbn [fst snd] in *. congruence.
Qed.

Lemma find_blob_None t p : find_blob t p = None -> forall b, ~ In (p, b) t.
Proof.
  unfold find_blob. destruct (find _ t) as [e|] eqn:E; [discriminate|].
  intros _ b Hin. eapply find_none in E; eauto. cbn [fst] in E. rewrite path_eqb_refl in E. discriminate.
Qed.

Lemma first_blob_Some t ps b : first_blob t ps = Some b -> exists p, In p ps /\ In (p, b) t.
Proof.
  induction ps as [|p ps IH]; cbn [first_blob]; [discriminate|].
  destruct (find_blob t p) as [b'|] eqn:E.
  - intro H. injection H as <-. exists p. split; [left; reflexivity | apply find_blob_In; exact E].
  - intro H. destruct (IH H) as [q [Hq Hin]]. exists q. split; [right; exact Hq | exact Hin].
Qed.

Lemma first_blob_None t ps : first_blob t ps = None -> forall p b, In p ps -> ~ In (p, b) t.
Proof.
  induction ps as [|p ps IH]; cbn [first_blob]; intros H q b Hq; [contradiction|].
  destruct (find_blob t p) as [b'|] eqn:E; [discriminate|].
  destruct Hq as [<- | Hq]; [exact (find_blob_None _ _ E b) | exact (IH H q b Hq)].
Qed.

Lemma unique_find_key t s p b :
  unique_keys t -> In (p, b) t -> key p = s ->
  find (fun e => str_eqb (key (fst e)) s) t = Some (p, b).
Proof.
  unfold unique_keys, keys. induction t as [|e t IH]; cbn [map find In]; intros U Hin K; [contradiction|].
  inversion U; subst. destruct Hin as [-> | Hin].
  - cbn [fst]. rewrite str_eqb_refl. reflexivity.
  - destruct (str_eqb (key (fst e)) (key p)) eqn:E; [|apply IH; auto].
    apply str_eqb_eq in E. exfalso. apply H1. apply in_map_iff. exists (p, b). cbn [fst]. split; congruence.
Qed.

Lemma probe_keys all s p : In p (probe_paths all s) -> key p = s.
Proof.
  unfold probe_paths. intros [<- | [<- | H]].
  - unfold key. cbn [concat]. apply app_nil_r.
  - apply key_fanout.
  - destruct all; [|contradiction]. unfold deep_paths in H. apply in_map_iff in H as [d [<- _]].
    apply key_split_dirs.
Qed.

Section Lookup.
  Variable P : path -> bool.
  Variable all : bool.
  Hypothesis P_git : forall p, P p = true -> git_path_ok p = true.
  Hypothesis P_probed : forall p s, P p = true -> key p = s -> In p (probe_paths all s).

  Lemma lookup_P t sha :
    layout_P P t -> unique_keys t -> opt_list (lookup_with all t sha) = git_lookup t sha.
  Proof.
    intros L U. unfold git_lookup.
    assert (Hf : filter (fun e => git_path_ok (fst e) && str_eqb (key (fst e)) sha) t
                 = filter (fun e => str_eqb (key (fst e)) sha) t).
    { apply filter_ext_in. intros e He. rewrite (P_git _ (L e He)). reflexivity. }
    rewrite Hf, (filter_unique (fun e => key (fst e)) sha t U).
    unfold lookup_with. destruct (first_blob t (probe_paths all sha)) as [b|] eqn:E.
    - apply first_blob_Some in E as [p [Hp Hin]].
      rewrite (unique_find_key t sha p b U Hin (probe_keys all sha p Hp)). reflexivity.
    - destruct (find (fun e => str_eqb (key (fst e)) sha) t) as [[p b]|] eqn:E3; [|reflexivity].
      exfalso. apply find_some in E3 as [Hin Hk]. cbn [fst] in Hk. apply str_eqb_eq in Hk.
      apply (first_blob_None _ _ E p b); auto. apply P_probed; auto. exact (L (p, b) Hin).
  Qed.
End Lookup.

Lemma le1_probed all p s : path_le1 p = true -> key p = s -> In p (probe_paths all s).
Proof.
  intros L K. destruct (le1_key_paths p s L K) as [-> | ->]; [left; reflexivity | right; left; reflexivity].
Qed.

Theorem lookup_complete_with all t sha :
  layout_le1 t = true -> unique_keys t -> opt_list (lookup_with all t sha) = git_lookup t sha.
Proof.
  intros L U. apply layout_le1_P in L.
  exact (lookup_P path_le1 all le1_git_path_ok (le1_probed all) t sha L U).
Qed.

Theorem lookup_complete t sha :
  layout_le1 t = true -> unique_keys t -> opt_list (lookup t sha) = git_lookup t sha.
Proof. apply lookup_complete_with. Qed.

Theorem lookup_complete_any_layout t sha :
  layout_ok t = true -> unique_keys t -> opt_list (lookup t sha) = git_lookup t sha.
Proof.
  intros L U. apply layout_ok_P in L. unfold lookup. rewrite all_layouts.
  exact (lookup_P path_ok true path_ok_git ok_probe t sha L U).
Qed.

(* ------------------------------------------------------------------ the code before the repair: refuted *)
Theorem fanout2_refuted :
  exists t sha b,
    Known_C05_fanout t = true /\ layout_ok t = true /\ unique_keysb t = true /\
    (* (a) after the batch write two paths annotate the same object *)
    unique_keysb (batch_write_with false t [(sha, b)]) = false /\
    (* (b) git's reader then returns both blobs (and prints their concatenation) *)
    length (git_lookup (batch_write_with false t [(sha, b)]) sha) = 2%nat /\
    (* (c) the lookup misses the note that git's reader finds *)
    git_lookup t sha <> [] /\ lookup_with false t sha = None /\
    (* ... and the repaired code is right on the same tree *)
    unique_keysb (batch_write_with true t [(sha, b)]) = true /\ lookup_with true t sha = Some 1.
Proof.
  exists w_tree2, w_sha, 2. vm_compute.
  repeat (split; try reflexivity). discriminate.
Qed.

(* the notes of other objects are left alone (object names longer than two characters) *)
Lemma long_filter g t : long_keys t = true -> long_keys (filter g t) = true.
Proof.
  unfold long_keys. rewrite !forallb_forall. intros H e He.
  apply filter_In in He as [He _]. auto.
Qed.

Lemma is_prefix_len a : forall b, is_prefix a b = true -> (length a <= length b)%nat.
Proof.
  induction a as [|x a IH]; intros [|y b]; cbn [is_prefix length]; intro H; try lia; try discriminate.
  apply andb_true_iff in H as [_ H]. specialize (IH b H). lia.
Qed.

Lemma write_one_removed_key all t s b p b' :
  layout_le1 t = true -> long_keys t = true -> (2 < length s)%nat ->
  In (p, b') t -> key p <> s -> In (p, b') (write_one_with all t (s, b)).
Proof.
  intros L LK Hs Hin Hk. rewrite write_one_with_eq.
  assert (Lp : path_le1 p = true).
  { unfold layout_le1 in L. rewrite forallb_forall in L. apply (L (p, b') Hin). }
  assert (Kp : (2 < length (key p))%nat).
  { unfold long_keys in LK. rewrite forallb_forall in LK. specialize (LK (p, b') Hin).
    cbn [fst] in LK. apply Nat.ltb_lt in LK. exact LK. }
  set (fan := fanout_path s).
  assert (Hfan : fan = [firstn 2 s; skipn 2 s]).
  { unfold fan, fanout_path. apply Nat.leb_gt in Hs. rewrite Hs. reflexivity. }
  assert (P1 : is_prefix [s] p = false).
  { destruct p as [|a [|c [|d p]]]; cbn [path_le1] in Lp; try discriminate; cbn [is_prefix].
    - destruct (str_eqb s a) eqn:E; auto. apply str_eqb_eq in E. exfalso. apply Hk.
      unfold key. cbn [concat]. rewrite app_nil_r. congruence.
    - destruct (str_eqb s a) eqn:E; auto. apply str_eqb_eq in E. exfalso.
      apply andb_true_iff in Lp as [La _]. apply Nat.eqb_eq in La. subst a. lia. }
  assert (P2 : is_prefix fan p = false).
  { destruct (is_prefix fan p) eqn:E; auto. exfalso. rewrite Hfan in E.
    destruct p as [|a [|c [|d p]]]; cbn [path_le1] in Lp; try discriminate; cbn [is_prefix] in E.
    - rewrite andb_false_r in E. discriminate.
    - apply andb_true_iff in E as [E1 E2]. apply andb_true_iff in E2 as [E2 _].
      apply str_eqb_eq in E1. apply str_eqb_eq in E2. apply Hk.
      unfold key. cbn [concat]. rewrite app_nil_r, <- E1, <- E2. apply firstn_skipn. }
  assert (P3 : is_prefix p fan = false).
  { destruct (is_prefix p fan) eqn:E; auto. exfalso. rewrite Hfan in E.
    destruct p as [|a [|c [|d p]]]; cbn [path_le1] in Lp; try discriminate; cbn [is_prefix] in E.
    - rewrite andb_true_r in E. apply str_eqb_eq in E.
      unfold key in Kp. cbn [concat] in Kp. rewrite app_nil_r in Kp.
      destruct (firstn_skipn_len2 s Hs) as [H2 _]. subst a. lia.
    - apply andb_true_iff in E as [E1 E2]. apply andb_true_iff in E2 as [E2 _].
      apply str_eqb_eq in E1. apply str_eqb_eq in E2. apply Hk.
      unfold key. cbn [concat]. rewrite app_nil_r, E1, E2. apply firstn_skipn. }
  assert (P4 : forall d, In d (deep_paths s) -> is_prefix d p = false).
  { intros d Hd. destruct (is_prefix d p) eqn:E; auto. exfalso. apply is_prefix_len in E.
    unfold deep_paths in Hd. apply in_map_iff in Hd as [k [<- Hk']]. apply in_seq in Hk'.
    rewrite length_split_dirs in E.
    destruct p as [|a [|c [|d' p]]]; cbn [path_le1] in Lp; try discriminate; cbn [length] in E; lia. }
  apply in_or_app. left.
  apply filter_In. cbn [fst]. split; [|rewrite P2, P3; reflexivity].
  apply filter_In. split; auto. unfold kept. apply forallb_forall. intros d Hd. cbn [fst].
  apply negb_true_iff. unfold delete_paths in Hd. rewrite !in_app_iff in Hd.
  destruct Hd as [Hd | [[<- | []] | Hd]].
  - destruct (path_eqb [s] (fanout_path s)); [contradiction|]. destruct Hd as [<- | []]. exact P1.
  - exact P2.
  - destruct all; [apply P4; exact Hd | contradiction].
Qed.

Lemma write_one_only_adds all t s b p b' :
  In (p, b') (write_one_with all t (s, b)) -> In (p, b') t \/ (p = fanout_path s /\ b' = b).
Proof.
  rewrite write_one_with_eq. intro H.
  apply in_app_or in H as [H | [H | []]].
  - left. apply filter_In in H as [H _]. apply filter_In in H as [H _]. exact H.
  - right. injection H as <- <-. auto.
Qed.

Lemma long_write_one all t s b :
  long_keys t = true -> (2 < length s)%nat -> long_keys (write_one_with all t (s, b)) = true.
Proof.
  intros LK Hs. rewrite write_one_with_eq. unfold long_keys.
  rewrite forallb_app. apply andb_true_iff. split.
  - apply long_filter. apply long_filter. exact LK.
  - cbn [forallb fst]. rewrite key_fanout. apply Nat.ltb_lt in Hs. rewrite Hs. reflexivity.
Qed.

Lemma layout_write_one all t e : layout_le1 t = true -> layout_le1 (write_one_with all t e) = true.
Proof.
  intro L. apply layout_le1_P. apply layout_P_write; [exact fanout_le1 | apply layout_le1_P; exact L].
Qed.

Lemma fold_preserves_others all es : forall t k,
  layout_le1 t = true -> long_keys t = true ->
  Forall (fun e => (2 < length (fst e))%nat) es ->
  ~ In k (map fst es) ->
  forall p b, key p = k -> (In (p, b) (fold_left (write_one_with all) es t) <-> In (p, b) t).
Proof.
  induction es as [|[s b0] es IH]; intros t k L LK F Hk p b Kp; cbn [fold_left]; [tauto|].
  inversion F; subst. cbn [fst] in *. cbn [map fst In] in Hk.
  assert (Hks : key p <> s) by (intro; apply Hk; left; congruence).
  rewrite (IH (write_one_with all t (s, b0)) (key p)); auto.
  - split.
    + intro H. apply write_one_only_adds in H as [H | [H _]]; auto.
      exfalso. apply Hks. rewrite H. apply key_fanout.
    + intro H. apply write_one_removed_key; auto.
  - apply layout_write_one; auto.
  - apply long_write_one; auto.
Qed.

Lemma dedup_last_sub es e : In e (dedup_last es) -> In e es.
Proof.
  induction es as [|x es IH]; cbn [dedup_last]; [tauto|].
  destruct (existsb _ es); cbn [In]; intro H; [right; auto | destruct H; auto].
Qed.

Theorem batch_preserves_others t es k :
  layout_le1 t = true -> long_keys t = true ->
  Forall (fun e => (2 < length (fst e))%nat) es ->
  ~ In k (map fst es) ->
  forall p b, key p = k -> (In (p, b) (batch_write t es) <-> In (p, b) t).
Proof.
  intros L LK F Hk. unfold batch_write, batch_write_with. apply fold_preserves_others; auto.
  - rewrite Forall_forall in *. intros e He. apply F. apply dedup_last_sub; auto.
  - intro H. apply Hk. apply in_map_iff in H as [e [H1 H2]]. apply in_map_iff. exists e.
    split; auto. apply dedup_last_sub; auto.
Qed.

(* string-level function and its component form agree *)
Lemma notes_path_components oid s :
  notes_path_for_object oid = Ok s -> mem c_slash oid = false ->
  split_on c_slash s = fanout_path oid.
Proof.
  unfold notes_path_for_object, fanout_path. destruct (length oid <=? 2)%nat eqn:E.
  - intros H M. injection H as <-. apply split_on_nomem; auto.
  - apply Nat.leb_gt in E. destruct (nth_error oid 2) as [b|] eqn:En.
    + destruct (is_char_boundary_byte b); [|discriminate]. intros H M. injection H as <-.
      assert (M1 : mem c_slash (firstn 2 oid) = false /\ mem c_slash (skipn 2 oid) = false).
      { rewrite <- (firstn_skipn 2 oid) in M. rewrite mem_false_app in M.
        apply orb_false_iff in M. exact M. }
      destruct M1 as [M1 M2].
      change (firstn 2 oid ++ [c_slash] ++ skipn 2 oid) with (firstn 2 oid ++ c_slash :: skipn 2 oid).
      rewrite (split_on_app c_slash _ _ M1). f_equal. apply split_on_nomem. exact M2.
    + apply nth_error_None in En. lia.
Qed.
