(* Proofs/InitialAnchorProofs.v *)
From Coq Require Import List NArith Bool Lia.
From Verif Require Import Gen.GenCheckpoint Model.InitialAnchor.
Import ListNotations.
Open Scope N_scope.

Lemma nth1_index1 : forall l i x, NoDup l -> nth1 l i = Some x -> index1 x l = Some i.
Proof.
  induction l as [|y r IH]; intros i x Hd H; [discriminate|].
  cbn [nth1] in H. inversion Hd as [|? ? Hn Hd']; subst.
  destruct (i =? 1) eqn:E1.
  - apply N.eqb_eq in E1. inversion H; subst. cbn [index1]. rewrite N.eqb_refl. reflexivity.
  - destruct (i =? 0) eqn:E0; [discriminate|].
    apply N.eqb_neq in E1, E0.
    cbn [index1]. destruct (x =? y) eqn:Exy.
    + apply N.eqb_eq in Exy. subst y. exfalso. apply Hn.
      clear - H. revert H. generalize (i - 1). induction r as [|z r IH]; intros k H; [discriminate|].
      cbn [nth1] in H. destruct (k =? 1); [inversion H; left; reflexivity|].
      destruct (k =? 0); [discriminate|]. right. eapply IH, H.
    + rewrite (IH (i - 1) x Hd' H). f_equal. lia.
Qed.

Lemma nth1_range : forall l i x, nth1 l i = Some x -> 1 <= i /\ i <= len l.
Proof.
  induction l as [|y r IH]; intros i x H; [discriminate|].
  cbn [nth1] in H. unfold len in *. cbn [length]. rewrite Nat2N.inj_succ.
  destruct (i =? 1) eqn:E1; [apply N.eqb_eq in E1; lia|].
  destruct (i =? 0) eqn:E0; [discriminate|]. apply N.eqb_neq in E1, E0.
  destruct (IH _ _ H). lia.
Qed.

Lemma nth1_none : forall l i, nth1 l i = None -> i = 0 \/ len l < i.
Proof.
  induction l as [|y r IH]; intros i H.
  - unfold len. cbn. destruct (N.eq_dec i 0); [left; assumption|right; lia].
  - cbn [nth1] in H. unfold len in *. cbn [length]. rewrite Nat2N.inj_succ.
    destruct (i =? 1) eqn:E1; [discriminate|]. destruct (i =? 0) eqn:E0; [apply N.eqb_eq in E0; left; assumption|].
    apply N.eqb_neq in E1, E0. destruct (IH _ H) as [A|A]; [lia|right; lia].
Qed.

(* when the file is still what it was when the claims were written, today's positional reading is the
   specification *)
Lemma filter_all {A} (f : A -> bool) l : forallb f l = true -> filter f l = l.
Proof.
  induction l as [|x l IH]; intro H; [reflexivity|]. cbn [forallb] in H. apply andb_true_iff in H as [H1 H2].
  cbn [filter]. rewrite H1, (IH H2). reflexivity.
Qed.

Theorem positional_exact_when_unchanged cl snapshot i :
  NoDup snapshot -> forallb (fits (len snapshot)) cl = true ->
  positional cl snapshot i = by_content cl snapshot snapshot i.
Proof.
  intros Hd Hf. unfold positional, by_content. rewrite (filter_all _ _ Hf).
  destruct (nth1 snapshot i) as [x|] eqn:E.
  - destruct (nth1_range _ _ _ E) as [A B].
    rewrite (nth1_index1 _ _ _ Hd E).
    assert (G : (1 <=? i) && (i <=? len snapshot) = true) by (apply andb_true_iff; split; apply N.leb_le; assumption).
    rewrite G. reflexivity.
  - destruct (nth1_none _ _ E) as [A|A].
    + subst. reflexivity.
    + assert (G : (i <=? len snapshot) = false) by (apply N.leb_gt; exact A).
      rewrite G, andb_false_r. reflexivity.
Qed.

(* ... but it does not look at the content at all: two files of the same length get the same claims,
   whatever a person typed there *)
Theorem positional_ignores_content cl cur cur' i :
  len cur = len cur' -> positional cl cur i = positional cl cur' i.
Proof. intro H. unfold positional. rewrite H. reflexivity. Qed.

Theorem first_checkpoint_now cl snapshot current i :
  first_checkpoint cl snapshot current i = positional cl current i.
Proof. unfold first_checkpoint. change initial_anchored_to_current with true. reflexivity. Qed.

(* the full statement (claims follow the lines) is false of the faithful model: the person's lines 2-3
   are the session's *)
Theorem k2_refuted :
  first_checkpoint k2_claims k2_snapshot k2_current 2 = Some 7 /\
  by_content k2_claims k2_snapshot k2_current 2 = None /\
  first_checkpoint k2_claims k2_snapshot k2_current 3 = Some 7 /\
  by_content k2_claims k2_snapshot k2_current 3 = None.
Proof. vm_compute. repeat split. Qed.
