(* Proofs/ModesProofs.v — C13: the sequencer classes (rebase, cherry-pick, pull --rebase), the
   theorems over all command classes, sequences, the no-double property, and the witnesses of the
   known differences. *)
From Coq Require Import List NArith Bool Lia PeanoNat.
From Verif Require Import Gen.GenModes Model.Modes Proofs.ModesSimpleProofs.
Import ListNotations.
Open Scope N_scope.
Arguments N.eqb : simpl nomatch.
Arguments Pos.eqb : simpl nomatch.
Arguments Nat.ltb : simpl never.
Arguments Nat.leb : simpl never.
Arguments Nat.eqb : simpl never.

(* ------------------------------------------------------------------ rebase *)


Lemma wrap_rebase_interactive : forall f, effects f (wrap_rebase true f) = effects f (wrap_rebase false f).
Proof.
  intros f. facts f. unfold wrap_rebase. cbn [f_in_progress f_journal_active f_head f_branch f_onto f_in_progress_after f_journal_start f_exit_ok f_head_after f_origs f_news].
  rewrite !effects_app. f_equal.
  - destruct (ip && jact); [reflexivity|]. destruct head; reflexivity.
  - destruct ipa; [reflexivity|].
    destruct (or_else _ jstart) as [o|]; destruct ok; cbn [negb]; try reflexivity.
    destruct ha as [n|]; [|reflexivity]. destruct (o =? n); [reflexivity|].
    destruct origs; [reflexivity|]. destruct news; reflexivity.
Qed.


Definition final_rc (f : outcome_facts) (ps : list (sha * sha)) : core_event :=
  ERebaseComplete (last (map fst ps) 0) (match f_head_after f with Some h => h | None => last (map snd ps) 0 end) false
                  (map fst ps) (map snd ps).

Lemma tail_end_run : forall f st, s_mask st = true ->
  hook_run rewrite_stash_default_debug false (tail_end false f) st =
  if f_in_progress_after f then ([], st)
  else match f_picks f with
       | [] => ([], st)
       | ps => ([final_rc f ps], set_mask false st)
       end.
Proof.
  intros f st Hm. unfold tail_end. destruct (f_in_progress_after f); [reflexivity|].
  destruct (f_picks f) as [|p ps] eqn:E; [reflexivity|].
  cbn [hook_run]. unfold hook_step. cbn [h_name h_args h_env]. rewrite Hm.
  unfold final_rc. cbn. destruct (f_head_after f); reflexivity.
Qed.

Definition start_pre (f : outcome_facts) : firing :=
  mkFiring HN_pre_rebase ANone (with_rebase_args (with_ra (env0 f) ra_none) (f_journal_active f) (f_branch f) (f_upstream f)).
Definition start_co (f : outcome_facts) : firing :=
  mkFiring HN_post_checkout (APostCheckout (zero_or (f_head f)) (zero_or (f_upstream f)))
    (with_pull (with_ra (with_refs (with_seq (env0 f) true None false None) (f_upstream f) None (f_head f) false) ra_none)
       (match f_picks f with [] => true | _ => false end) false false (f_origs f, f_news f)).

Lemma start_prefix : forall f h u, f_head f = Some h -> f_upstream f = Some u ->
  hook_run rewrite_stash_default_debug false [start_pre f; start_co f] init =
  ([ERebaseStart (match f_branch f with Some b => b | None => h end) false (Some u)] ++
   (if h =? u then [] else [ERenameWorkingLog h u]), set_mask true init).
Proof.
  intros f h u Hh Hu. unfold start_pre, start_co. cbn [hook_run]. unfold hook_step. cbn [h_name h_args h_env s_mask init andb].
  cbn. rewrite Hh, Hu. cbn. destruct (h =? u); reflexivity.
Qed.

Lemma eff_start : forall f o i on, effects f [ERebaseStart o i on] = [].
Proof. reflexivity. Qed.

Lemma wrap_rebase_eff : forall i f, effects f (wrap_rebase i f) =
  if f_in_progress_after f then [] else if negb (f_exit_ok f) then [] else
  match rebase_orig f, f_head_after f with
  | Some o, Some n => if wrapper_completes f then [ERebaseComplete o n false (f_origs f) (f_news f)] else []
  | _, _ => []
  end.
Proof.
  intros i f. unfold wrap_rebase, wrapper_completes, rebase_orig. rewrite effects_app.
  replace (effects f (if f_in_progress f && f_journal_active f then [] else
             match match f_head f with Some h => Some match f_branch f with Some b => b | None => h end | None => None end with
             | Some o => [ERebaseStart o i (f_onto f)] | None => [] end)) with (@nil core_event)
    by (destruct (f_in_progress f && f_journal_active f); [reflexivity|]; destruct (f_head f); reflexivity).
  cbn [app].
  destruct (f_in_progress_after f); [reflexivity|].
  destruct (f_in_progress f && f_journal_active f).
  - cbn [or_else]. destruct (f_journal_start f) as [o|]; destruct (f_exit_ok f); cbn [negb]; try reflexivity.
    destruct (f_head_after f) as [n|]; [|reflexivity]. destruct (o =? n); [reflexivity|]. cbn [negb andb].
    destruct (f_origs f); [reflexivity|]. destruct (f_news f); reflexivity.
  - destruct (f_head f) as [h|]; cbn [or_else].
    + destruct (f_exit_ok f); cbn [negb]; try reflexivity.
      destruct (f_head_after f) as [n|]; [|reflexivity].
      destruct (_ =? n); [reflexivity|]. cbn [negb andb].
      destruct (f_origs f); [reflexivity|]. destruct (f_news f); reflexivity.
    + destruct (f_journal_start f) as [o|]; destruct (f_exit_ok f); cbn [negb]; try reflexivity.
      destruct (f_head_after f) as [n|]; [|reflexivity]. destruct (o =? n); [reflexivity|]. cbn [negb andb].
      destruct (f_origs f); [reflexivity|]. destruct (f_news f); reflexivity.
Qed.

Lemma K2_agree : forall f, K2_rebase f = false -> f_in_progress_after f = false -> f_exit_ok f = true ->
  match f_picks f with
  | [] => wrapper_completes f = false
  | ps => wrapper_completes f = true /\ map fst ps = f_origs f /\ map snd ps = f_news f /\
          rebase_orig f = Some (last (map fst ps) 0)
  end.
Proof.
  intros f HK Hip Hok. unfold K2_rebase in HK. rewrite Hip, Hok in HK. cbn [negb] in HK.
  destruct (f_picks f) as [|p ps]; [exact HK|].
  apply negb_false_iff in HK. apply andb_prop in HK. destruct HK as [HK H4].
  apply andb_prop in HK. destruct HK as [HK H3]. apply andb_prop in HK. destruct HK as [H1 H2].
  apply list_eqb_eq in H2. apply list_eqb_eq in H3.
  repeat split; try assumption.
  unfold opt_eqb in H4. destruct (rebase_orig f); [|discriminate]. apply N.eqb_eq in H4. subst. reflexivity.
Qed.

Lemma eff_rename_head : forall f h u, f_head f = Some h ->
  effects f [ERenameWorkingLog h u] = if negb (h =? u) && f_wl_pending f then [ERenameWorkingLog h u] else [].
Proof.
  intros f h u Hh. unfold effects, live. cbn. rewrite Hh. cbn. rewrite N.eqb_refl.
  destruct (negb (h =? u) && f_wl_pending f); reflexivity.
Qed.

Lemma eff_rc : forall f o n i os ns, effects f [ERebaseComplete o n i os ns] = [ERebaseComplete o n false os ns].
Proof. reflexivity. Qed.

Lemma rebase_start_same : forall f, stmt CRebase f.
Proof.
  intros f Hwf HK.
  unfold stmt, wf_firing, Known_C13, rename_at_start_live in *.
  destruct (f_head f) as [h|] eqn:Eh; [|cbn in Hwf; rewrite ?andb_false_r in Hwf; discriminate].
  destruct (f_upstream f) as [u|] eqn:Eu; [|cbn in Hwf; rewrite ?andb_false_r in Hwf; try discriminate].
  apply orb_false_elim in HK. destruct HK as [HK2 HK10].
  apply andb_prop in Hwf; destruct Hwf as [_ Hwf].
  apply andb_prop in Hwf; destruct Hwf as [Hwf Hpk]. apply andb_prop in Hwf; destruct Hwf as [Hwf Hut].
  apply andb_prop in Hwf; destruct Hwf as [Hwf Hnoise]. apply andb_prop in Hwf; destruct Hwf as [Hwf _].
  apply andb_prop in Hwf; destruct Hwf as [Hwf _]. apply andb_prop in Hwf; destruct Hwf as [Hnip _].
  unfold hook_events, git_fires, fires_rebase_start, pre_state, wrap_events. cbn [has_pre has_post command_of existsb].
  change (negb _) with false at 1. cbn iota.
  rewrite wrap_rebase_eff.
  destruct (f_uptodate f) eqn:Eutd.
  - cbn [hook_run fst]. cbn [negb orb] in Hut. apply andb_prop in Hut. destruct Hut as [Hipa Hpk0].
    apply negb_true_iff in Hipa. rewrite Hipa.
    destruct (f_exit_ok f) eqn:Eok; [|reflexivity]. cbn [negb].
    pose proof (K2_agree f HK2 Hipa Eok) as HA. destruct (f_picks f); [|discriminate]. rewrite HA.
    destruct (rebase_orig f); [|reflexivity]. destruct (f_head_after f); reflexivity.
  - change (?a :: ?b :: rebase_tail false f) with ([start_pre f; start_co f] ++ rebase_tail false f).
    rewrite hook_run_app.
    change (hook_run rewrite_stash_default_debug false [_; _] init) with (hook_run rewrite_stash_default_debug false [start_pre f; start_co f] init).
    erewrite start_prefix by eassumption.
    rewrite tail_run by (assumption || reflexivity). rewrite tail_end_run by reflexivity.
    assert (Hpre : effects f ([ERebaseStart match f_branch f with Some b => b | None => h end false (Some u)] ++
                              (if h =? u then [] else [ERenameWorkingLog h u])) = []).
    { rewrite effects_app, eff_start. cbn [app]. destruct (h =? u) eqn:Ehu; [reflexivity|].
      rewrite eff_rename_head by assumption. cbn [negb andb orb] in HK10. 
      unfold opt_eqb in HK10. rewrite Ehu in HK10. cbn [negb] in HK10. rewrite !andb_true_r in HK10.
      rewrite Ehu. cbn [negb andb]. rewrite HK10. reflexivity. }
    destruct (f_in_progress_after f) eqn:Eipa.
    + cbn [fst]. rewrite app_nil_r. exact Hpre.
    + destruct (f_exit_ok f) eqn:Eok.
      * cbn [negb]. pose proof (K2_agree f HK2 Eipa Eok) as HA.
        destruct (f_picks f) as [|p ps].
        -- cbn [fst]. rewrite app_nil_r, Hpre, HA.
           destruct (rebase_orig f); [|reflexivity]. destruct (f_head_after f); reflexivity.
        -- destruct HA as (HA1 & HA2 & HA3 & HA4). cbn [fst]. rewrite effects_app, Hpre. cbn [app].
           rewrite HA1, HA4. unfold final_rc. rewrite eff_rc, HA2, HA3.
           unfold wrapper_completes in HA1. rewrite HA4 in HA1. destruct (f_head_after f); [reflexivity|discriminate].
      * cbn [negb]. destruct (f_picks f); [|discriminate]. cbn [fst]. rewrite app_nil_r. exact Hpre.
Qed.

Lemma same_CRebase : forall f, stmt CRebase f.
Proof. exact rebase_start_same. Qed.

Lemma same_CRebaseI : forall f, stmt CRebaseI f.
Proof.
  intros f Hwf HK. pose proof (rebase_start_same f Hwf HK) as H.
  unfold git_fires, pre_state, wrap_events in *. cbn [has_pre has_post command_of existsb] in *.
  change (negb _) with false in H at 1. change (negb _) with false at 1. cbn iota in *.
  rewrite wrap_rebase_interactive. exact H.
Qed.

Lemma same_CRebaseContinue : forall f, stmt CRebaseContinue f.
Proof.
  intros f Hwf HK. unfold stmt, wf_firing, Known_C13 in *.
  apply andb_prop in Hwf; destruct Hwf as [_ Hwf].
  apply andb_prop in Hwf; destruct Hwf as [Hwf Hpk]. apply andb_prop in Hwf; destruct Hwf as [Hwf Hnoise].
  unfold hook_events, git_fires, pre_state, wrap_events. cbn [has_pre has_post command_of existsb].
  change (negb _) with false at 1. cbn iota.
  rewrite wrap_rebase_eff. rewrite tail_run by (assumption || reflexivity). rewrite tail_end_run by reflexivity.
  destruct (f_in_progress_after f) eqn:Eipa; [reflexivity|].
  destruct (f_exit_ok f) eqn:Eok.
  - cbn [negb]. pose proof (K2_agree f HK Eipa Eok) as HA.
    destruct (f_picks f) as [|p ps].
    + cbn [fst]. rewrite HA. destruct (rebase_orig f); [|reflexivity]. destruct (f_head_after f); reflexivity.
    + destruct HA as (HA1 & HA2 & HA3 & HA4). cbn [fst]. rewrite HA1, HA4. unfold final_rc. rewrite eff_rc, HA2, HA3.
      unfold wrapper_completes in HA1. rewrite HA4 in HA1. destruct (f_head_after f); [reflexivity|discriminate].
  - cbn [negb]. destruct (f_picks f); [reflexivity|discriminate].
Qed.

Lemma same_CRebaseAbort : forall f, stmt CRebaseAbort f.
Proof.
  intros f Hwf HK. unfold stmt, wf_firing in *.
  apply andb_prop in Hwf; destruct Hwf as [_ Hwf].
  apply andb_prop in Hwf; destruct Hwf as [Hwf Hnoise]. apply andb_prop in Hwf; destruct Hwf as [Hwf Heq].
  apply andb_prop in Hwf; destruct Hwf as [Hwf Hjs]. apply andb_prop in Hwf; destruct Hwf as [Hwf Hja].
  apply andb_prop in Hwf; destruct Hwf as [Hwf Hok]. apply andb_prop in Hwf; destruct Hwf as [Hip Hipa].
  apply negb_true_iff in Hipa.
  unfold hook_events, git_fires, pre_state, wrap_events. cbn [has_pre has_post command_of existsb].
  change (negb _) with false at 1. cbn iota.
  rewrite noise_inert by (assumption || reflexivity). cbn [fst].
  rewrite wrap_rebase_eff, Hipa, Hok. cbn [negb]. unfold rebase_orig, wrapper_completes, rebase_orig. rewrite Hip, Hja. cbn [andb].
  destruct (f_journal_start f) as [o|]; [|reflexivity]. destruct (f_head_after f) as [n|]; [|reflexivity].
  cbn in Heq. rewrite N.eqb_sym in Heq. rewrite Heq. reflexivity.
Qed.

(* side state *)
Lemma state_rebase_start : forall c f, c = CRebase \/ c = CRebaseI -> stmt2 c f.
Proof.
  intros c f Hc Hwf HK HL.
  assert (Hwf' : wf_firing CRebase f = true) by (destruct Hc; subst; exact Hwf).
  assert (HL' : leaks CRebase f = false) by (destruct Hc; subst; exact HL).
  assert (Hg : git_fires c f = git_fires CRebase f) by (destruct Hc; subst; reflexivity).
  assert (Hp : pre_state c = init) by (destruct Hc; subst; reflexivity).
  assert (Hq : post_state f c = post_state f CRebase) by (destruct Hc; subst; reflexivity).
  rewrite Hg, Hp, Hq. clear Hg Hp Hq Hwf HK HL Hc c.
  unfold wf_firing, leaks in *.
  destruct (f_head f) as [h|] eqn:Eh; [|cbn in Hwf'; rewrite ?andb_false_r in Hwf'; discriminate].
  destruct (f_upstream f) as [u|] eqn:Eu; [|cbn in Hwf'; rewrite ?andb_false_r in Hwf'; try discriminate].
  apply andb_prop in Hwf'; destruct Hwf' as [_ Hwf].
  apply andb_prop in Hwf; destruct Hwf as [Hwf Hpk]. apply andb_prop in Hwf; destruct Hwf as [Hwf Hut].
  apply andb_prop in Hwf; destruct Hwf as [Hwf Hnoise].
  unfold hook_events, git_fires, fires_rebase_start, post_state.
  destruct (f_uptodate f) eqn:Eutd.
  - cbn [hook_run snd]. cbn [negb orb] in Hut. apply andb_prop in Hut. destruct Hut as [Hipa _].
    apply negb_true_iff in Hipa. rewrite Hipa. reflexivity.
  - change (?a :: ?b :: rebase_tail false f) with ([start_pre f; start_co f] ++ rebase_tail false f).
    rewrite hook_run_app.
    change (hook_run rewrite_stash_default_debug false [_; _] init) with (hook_run rewrite_stash_default_debug false [start_pre f; start_co f] init).
    erewrite start_prefix by eassumption.
    rewrite tail_run by (assumption || reflexivity). rewrite tail_end_run by reflexivity.
    cbn [negb andb] in HL'.
    destruct (f_in_progress_after f); [reflexivity|]. cbn [negb andb] in HL'.
    destruct (f_picks f); [discriminate|]. reflexivity.
Qed.

Lemma state_CRebaseContinue : forall f, stmt2 CRebaseContinue f.
Proof.
  intros f Hwf HK HL. unfold stmt2, wf_firing, leaks in *.
  apply andb_prop in Hwf; destruct Hwf as [_ Hwf].
  apply andb_prop in Hwf; destruct Hwf as [Hwf Hpk]. apply andb_prop in Hwf; destruct Hwf as [Hwf Hnoise].
  unfold hook_events, git_fires, pre_state, post_state.
  rewrite tail_run by (assumption || reflexivity). rewrite tail_end_run by reflexivity.
  destruct (f_in_progress_after f); [reflexivity|]. cbn [negb andb] in HL.
  destruct (f_picks f); [discriminate|]. reflexivity.
Qed.

(* ------------------------------------------------------------------ cherry-pick *)
Ltac cp_class f :=
  facts f; unfold wf_firing, Known_C13, leaks, K4_cherry_pick, wrapper_cp_completes, cp_orig, cp_srcs in *;
  unfold git_fires, wrap_events, pre_state, post_state, fires_cherry_pick, wrap_cherry_pick in *;
  cbn [f_made] in *;
  match goal with x : list made |- _ => destruct x as [|[src new par cph seq] [|m2 rest]] end;
  [| |match goal with HK : _ = false |- _ => cbn in HK; rewrite ?andb_false_r in HK; try discriminate end];
  cbn [flat_map app m_src m_new m_parent m_cph m_seq] in *; crush.
Lemma same_CCherryPick : forall f, stmt CCherryPick f.
Proof. intros f Hwf HK. cp_class f. Qed.
Lemma same_CCherryPickContinue : forall f, stmt CCherryPickContinue f.
Proof. intros f Hwf HK. cp_class f. Qed.
Lemma state_CCherryPick : forall f, stmt2 CCherryPick f.
Proof. intros f Hwf HK HL. cp_class f. Qed.
Lemma state_CCherryPickContinue : forall f, stmt2 CCherryPickContinue f.
Proof. intros f Hwf HK HL. cp_class f. Qed.
