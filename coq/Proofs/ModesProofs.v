(* Proofs/ModesProofs.v — C13: the sequencer classes (rebase, cherry-pick, pull --rebase), the
   theorems over all command classes, sequences, the no-double property, and the witnesses of the
   known differences. *)
From Coq Require Import List NArith Bool Lia PeanoNat.
From Verif Require Import Gen.GenModes Model.Modes Proofs.ModesSimpleProofs.
Import ListNotations.
Open Scope N_scope.
Arguments N.eqb : simpl nomatch.
Arguments Pos.eqb : simpl nomatch.
Arguments Nat.ltb : simpl never.
Arguments Nat.leb : simpl never.
Arguments Nat.eqb : simpl never.

(* ------------------------------------------------------------------ rebase *)


Lemma wrap_rebase_interactive : forall f, effects f (wrap_rebase true f) = effects f (wrap_rebase false f).
Proof.
  intros f. facts f. unfold wrap_rebase. cbn [f_in_progress f_journal_active f_head f_branch f_onto f_in_progress_after f_journal_start f_exit_ok f_head_after f_origs f_news].
  rewrite !effects_app. f_equal.
  - destruct (ip && jact); [reflexivity|]. destruct head; reflexivity.
  - destruct ipa; [reflexivity|].
    destruct (or_else _ jstart) as [o|]; destruct ok; cbn [negb]; try reflexivity.
    destruct ha as [n|]; [|reflexivity]. destruct (o =? n); [reflexivity|].
    destruct origs; [reflexivity|]. destruct news; reflexivity.
Qed.


Definition final_rc (f : outcome_facts) (ps : list (sha * sha)) : core_event :=
  ERebaseComplete (last (map fst ps) 0) (match f_head_after f with Some h => h | None => last (map snd ps) 0 end) false
                  (map fst ps) (map snd ps).

Lemma tail_end_run : forall f st, s_mask st = true ->
  hook_run rewrite_stash_default_debug false (tail_end false f) st =
  if f_in_progress_after f then ([], st)
  else match f_picks f with
       | [] => ([], st)
       | ps => ([final_rc f ps], set_mask false st)
       end.
Proof.
  intros f st Hm. unfold tail_end. destruct (f_in_progress_after f); [reflexivity|].
  destruct (f_picks f) as [|p ps] eqn:E; [reflexivity|].
  cbn [hook_run]. unfold hook_step. cbn [h_name h_args h_env]. rewrite Hm.
  unfold final_rc. cbn. destruct (f_head_after f); reflexivity.
Qed.

Definition start_pre (f : outcome_facts) : firing :=
  mkFiring HN_pre_rebase ANone (with_rebase_args (with_ra (env0 f) ra_none) (f_journal_active f) (f_branch f) (f_upstream f)).
Definition start_co (f : outcome_facts) : firing :=
  mkFiring HN_post_checkout (APostCheckout (zero_or (f_head f)) (zero_or (f_co_head f)))
    (with_pull (with_ra (with_refs (with_seq (env0 f) true None false None) (f_co_head f) None (f_head f) false) ra_none)
       (match f_picks f with [] => true | _ => false end) false false (f_origs f, f_news f)).

Lemma start_prefix : forall f h u, f_head f = Some h -> f_co_head f = Some u ->
  hook_run rewrite_stash_default_debug false [start_pre f; start_co f] init =
  ([ERebaseStart (match f_branch f with Some b => b | None => h end) false (f_upstream f)] ++
   (if h =? u then [] else [ERenameWorkingLog h u]), set_mask true init).
Proof.
  intros f h u Hh Hu. unfold start_pre, start_co. cbn [hook_run]. unfold hook_step. cbn [h_name h_args h_env s_mask init andb].
  cbn. rewrite Hh, Hu. cbn. destruct (h =? u); reflexivity.
Qed.

Lemma eff_start : forall f o i on, effects f [ERebaseStart o i on] = [].
Proof. reflexivity. Qed.

Lemma wrap_rebase_eff : forall i f, effects f (wrap_rebase i f) =
  if f_in_progress_after f then [] else if negb (f_exit_ok f) then [] else
  match rebase_orig f, f_head_after f with
  | Some o, Some n => if wrapper_completes f then [ERebaseComplete o n false (f_origs f) (f_news f)] else []
  | _, _ => []
  end.
Proof.
  intros i f. unfold wrap_rebase, wrapper_completes, rebase_orig. rewrite effects_app.
  replace (effects f (if f_in_progress f && f_journal_active f then [] else
             match match f_head f with Some h => Some match f_branch f with Some b => b | None => h end | None => None end with
             | Some o => [ERebaseStart o i (f_onto f)] | None => [] end)) with (@nil core_event)
    by (destruct (f_in_progress f && f_journal_active f); [reflexivity|]; destruct (f_head f); reflexivity).
  cbn [app].
  destruct (f_in_progress_after f); [reflexivity|].
  destruct (f_in_progress f && f_journal_active f).
  - cbn [or_else]. destruct (f_journal_start f) as [o|]; destruct (f_exit_ok f); cbn [negb]; try reflexivity.
    destruct (f_head_after f) as [n|]; [|reflexivity]. destruct (o =? n); [reflexivity|]. cbn [negb andb].
    destruct (f_origs f); [reflexivity|]. destruct (f_news f); reflexivity.
  - destruct (f_head f) as [h|]; cbn [or_else].
    + destruct (f_exit_ok f); cbn [negb]; try reflexivity.
      destruct (f_head_after f) as [n|]; [|reflexivity].
      destruct (_ =? n); [reflexivity|]. cbn [negb andb].
      destruct (f_origs f); [reflexivity|]. destruct (f_news f); reflexivity.
    + destruct (f_journal_start f) as [o|]; destruct (f_exit_ok f); cbn [negb]; try reflexivity.
      destruct (f_head_after f) as [n|]; [|reflexivity]. destruct (o =? n); [reflexivity|]. cbn [negb andb].
      destruct (f_origs f); [reflexivity|]. destruct (f_news f); reflexivity.
Qed.

Lemma K2_agree : forall f, K2_rebase f = false -> f_in_progress_after f = false -> f_exit_ok f = true ->
  match f_picks f with
  | [] => wrapper_completes f = false
  | ps => wrapper_completes f = true /\ map fst ps = f_origs f /\ map snd ps = f_news f /\
          rebase_orig f = Some (last (map fst ps) 0)
  end.
Proof.
  intros f HK Hip Hok. unfold K2_rebase in HK. rewrite Hip, Hok in HK. cbn [negb] in HK.
  destruct (f_picks f) as [|p ps]; [exact HK|].
  apply negb_false_iff in HK. apply andb_prop in HK. destruct HK as [HK H4].
  apply andb_prop in HK. destruct HK as [HK H3]. apply andb_prop in HK. destruct HK as [H1 H2].
  apply list_eqb_eq in H2. apply list_eqb_eq in H3.
  repeat split; try assumption.
  unfold opt_eqb in H4. destruct (rebase_orig f); [|discriminate]. apply N.eqb_eq in H4. subst. reflexivity.
Qed.

Lemma eff_rename_head : forall f h u, f_head f = Some h ->
  effects f [ERenameWorkingLog h u] = if negb (h =? u) && f_wl_pending f then [ERenameWorkingLog h u] else [].
Proof.
  intros f h u Hh. unfold effects, live. cbn. rewrite Hh. cbn. rewrite N.eqb_refl.
  destruct (negb (h =? u) && f_wl_pending f); reflexivity.
Qed.

Lemma eff_rc : forall f o n i os ns, effects f [ERebaseComplete o n i os ns] = [ERebaseComplete o n false os ns].
Proof. reflexivity. Qed.

Lemma rebase_start_same : forall f, stmt CRebase f.
Proof.
  intros f Hwf HK.
  unfold stmt, wf_firing, Known_C13, rename_at_start_live in *.
  destruct (f_head f) as [h|] eqn:Eh; [|cbn in Hwf; rewrite ?andb_false_r in Hwf; discriminate].
  destruct (f_co_head f) as [u|] eqn:Eu; [|cbn in Hwf; rewrite ?andb_false_r in Hwf; try discriminate].
  apply orb_false_elim in HK. destruct HK as [HK2 HK10].
  apply andb_prop in Hwf; destruct Hwf as [_ Hwf].
  apply andb_prop in Hwf; destruct Hwf as [Hwf Hpk]. apply andb_prop in Hwf; destruct Hwf as [Hwf Hut].
  apply andb_prop in Hwf; destruct Hwf as [Hwf Hnoise]. apply andb_prop in Hwf; destruct Hwf as [Hwf _].
  apply andb_prop in Hwf; destruct Hwf as [Hwf _]. apply andb_prop in Hwf; destruct Hwf as [Hnip _].
  unfold hook_events, git_fires, fires_rebase_start, pre_state, wrap_events. cbn [has_pre has_post command_of existsb].
  change (negb _) with false at 1. cbn iota.
  rewrite wrap_rebase_eff.
  destruct (f_uptodate f) eqn:Eutd.
  - cbn [hook_run fst]. cbn [negb orb] in Hut. apply andb_prop in Hut. destruct Hut as [Hipa Hpk0].
    apply negb_true_iff in Hipa. rewrite Hipa.
    destruct (f_exit_ok f) eqn:Eok; [|reflexivity]. cbn [negb].
    pose proof (K2_agree f HK2 Hipa Eok) as HA. destruct (f_picks f); [|discriminate]. rewrite HA.
    destruct (rebase_orig f); [|reflexivity]. destruct (f_head_after f); reflexivity.
  - change (?a :: ?b :: rebase_tail false f) with ([start_pre f; start_co f] ++ rebase_tail false f).
    rewrite hook_run_app.
    change (hook_run rewrite_stash_default_debug false [_; _] init) with (hook_run rewrite_stash_default_debug false [start_pre f; start_co f] init).
    erewrite start_prefix by eassumption.
    rewrite tail_run by (assumption || reflexivity). rewrite tail_end_run by reflexivity.
    assert (Hpre : effects f ([ERebaseStart match f_branch f with Some b => b | None => h end false (f_upstream f)] ++
                              (if h =? u then [] else [ERenameWorkingLog h u])) = []).
    { rewrite effects_app, eff_start. cbn [app]. destruct (h =? u) eqn:Ehu; [reflexivity|].
      rewrite eff_rename_head by assumption. cbn [negb andb orb] in HK10. 
      unfold opt_eqb in HK10. rewrite Ehu in HK10. cbn [negb] in HK10. rewrite !andb_true_r in HK10.
      rewrite Ehu. cbn [negb andb]. rewrite HK10. reflexivity. }
    destruct (f_in_progress_after f) eqn:Eipa.
    + cbn [fst]. rewrite app_nil_r. exact Hpre.
    + destruct (f_exit_ok f) eqn:Eok.
      * cbn [negb]. pose proof (K2_agree f HK2 Eipa Eok) as HA.
        destruct (f_picks f) as [|p ps].
        -- cbn [fst]. rewrite app_nil_r, Hpre, HA.
           destruct (rebase_orig f); [|reflexivity]. destruct (f_head_after f); reflexivity.
        -- destruct HA as (HA1 & HA2 & HA3 & HA4). cbn [fst]. rewrite effects_app, Hpre. cbn [app].
           rewrite HA1, HA4. unfold final_rc. rewrite eff_rc, HA2, HA3.
           unfold wrapper_completes in HA1. rewrite HA4 in HA1. destruct (f_head_after f); [reflexivity|discriminate].
      * cbn [negb]. destruct (f_picks f); [|discriminate]. cbn [fst]. rewrite app_nil_r. exact Hpre.
Qed.

Lemma same_CRebase : forall f, stmt CRebase f.
Proof. exact rebase_start_same. Qed.

Lemma same_CRebaseI : forall f, stmt CRebaseI f.
Proof.
  intros f Hwf HK. pose proof (rebase_start_same f Hwf HK) as H.
  unfold git_fires, pre_state, wrap_events in *. cbn [has_pre has_post command_of existsb] in *.
  change (negb _) with false in H at 1. change (negb _) with false at 1. cbn iota in *.
  rewrite wrap_rebase_interactive. exact H.
Qed.

Lemma same_CRebaseContinue : forall f, stmt CRebaseContinue f.
Proof.
  intros f Hwf HK. unfold stmt, wf_firing, Known_C13 in *.
  apply andb_prop in Hwf; destruct Hwf as [_ Hwf].
  apply andb_prop in Hwf; destruct Hwf as [Hwf Hpk]. apply andb_prop in Hwf; destruct Hwf as [Hwf Hnoise].
  unfold hook_events, git_fires, pre_state, wrap_events. cbn [has_pre has_post command_of existsb].
  change (negb _) with false at 1. cbn iota.
  rewrite wrap_rebase_eff. rewrite tail_run by (assumption || reflexivity). rewrite tail_end_run by reflexivity.
  destruct (f_in_progress_after f) eqn:Eipa; [reflexivity|].
  destruct (f_exit_ok f) eqn:Eok.
  - cbn [negb]. pose proof (K2_agree f HK Eipa Eok) as HA.
    destruct (f_picks f) as [|p ps].
    + cbn [fst]. rewrite HA. destruct (rebase_orig f); [|reflexivity]. destruct (f_head_after f); reflexivity.
    + destruct HA as (HA1 & HA2 & HA3 & HA4). cbn [fst]. rewrite HA1, HA4. unfold final_rc. rewrite eff_rc, HA2, HA3.
      unfold wrapper_completes in HA1. rewrite HA4 in HA1. destruct (f_head_after f); [reflexivity|discriminate].
  - cbn [negb]. destruct (f_picks f); [reflexivity|discriminate].
Qed.

Lemma same_CRebaseAbort : forall f, stmt CRebaseAbort f.
Proof.
  intros f Hwf HK. unfold stmt, wf_firing in *.
  apply andb_prop in Hwf; destruct Hwf as [_ Hwf].
  apply andb_prop in Hwf; destruct Hwf as [Hwf Hnoise]. apply andb_prop in Hwf; destruct Hwf as [Hwf Heq].
  apply andb_prop in Hwf; destruct Hwf as [Hwf Hjs]. apply andb_prop in Hwf; destruct Hwf as [Hwf Hja].
  apply andb_prop in Hwf; destruct Hwf as [Hwf Hok]. apply andb_prop in Hwf; destruct Hwf as [Hip Hipa].
  apply negb_true_iff in Hipa.
  unfold hook_events, git_fires, pre_state, wrap_events. cbn [has_pre has_post command_of existsb].
  change (negb _) with false at 1. cbn iota.
  rewrite noise_inert by (assumption || reflexivity). cbn [fst].
  rewrite wrap_rebase_eff, Hipa, Hok. cbn [negb]. unfold rebase_orig, wrapper_completes, rebase_orig. rewrite Hip, Hja. cbn [andb].
  destruct (f_journal_start f) as [o|]; [|reflexivity]. destruct (f_head_after f) as [n|]; [|reflexivity].
  cbn in Heq. rewrite N.eqb_sym in Heq. rewrite Heq. reflexivity.
Qed.

(* side state *)
Lemma state_rebase_start : forall c f, c = CRebase \/ c = CRebaseI -> stmt2 c f.
Proof.
  intros c f Hc Hwf HK HL.
  assert (Hwf' : wf_firing CRebase f = true) by (destruct Hc; subst; exact Hwf).
  assert (HL' : leaks CRebase f = false) by (destruct Hc; subst; exact HL).
  assert (Hg : git_fires c f = git_fires CRebase f) by (destruct Hc; subst; reflexivity).
  assert (Hp : pre_state c = init) by (destruct Hc; subst; reflexivity).
  assert (Hq : post_state f c = post_state f CRebase) by (destruct Hc; subst; reflexivity).
  rewrite Hg, Hp, Hq. clear Hg Hp Hq Hwf HK HL Hc c.
  unfold wf_firing, leaks in *.
  destruct (f_head f) as [h|] eqn:Eh; [|cbn in Hwf'; rewrite ?andb_false_r in Hwf'; discriminate].
  destruct (f_co_head f) as [u|] eqn:Eu; [|cbn in Hwf'; rewrite ?andb_false_r in Hwf'; try discriminate].
  apply andb_prop in Hwf'; destruct Hwf' as [_ Hwf].
  apply andb_prop in Hwf; destruct Hwf as [Hwf Hpk]. apply andb_prop in Hwf; destruct Hwf as [Hwf Hut].
  apply andb_prop in Hwf; destruct Hwf as [Hwf Hnoise].
  unfold hook_events, git_fires, fires_rebase_start, post_state.
  destruct (f_uptodate f) eqn:Eutd.
  - cbn [hook_run snd]. cbn [negb orb] in Hut. apply andb_prop in Hut. destruct Hut as [Hipa _].
    apply negb_true_iff in Hipa. rewrite Hipa. reflexivity.
  - change (?a :: ?b :: rebase_tail false f) with ([start_pre f; start_co f] ++ rebase_tail false f).
    rewrite hook_run_app.
    change (hook_run rewrite_stash_default_debug false [_; _] init) with (hook_run rewrite_stash_default_debug false [start_pre f; start_co f] init).
    erewrite start_prefix by eassumption.
    rewrite tail_run by (assumption || reflexivity). rewrite tail_end_run by reflexivity.
    cbn [negb andb] in HL'.
    destruct (f_in_progress_after f); [reflexivity|]. cbn [negb andb] in HL'.
    destruct (f_picks f); [discriminate|]. reflexivity.
Qed.

Lemma state_CRebaseContinue : forall f, stmt2 CRebaseContinue f.
Proof.
  intros f Hwf HK HL. unfold stmt2, wf_firing, leaks in *.
  apply andb_prop in Hwf; destruct Hwf as [_ Hwf].
  apply andb_prop in Hwf; destruct Hwf as [Hwf Hpk]. apply andb_prop in Hwf; destruct Hwf as [Hwf Hnoise].
  unfold hook_events, git_fires, pre_state, post_state.
  rewrite tail_run by (assumption || reflexivity). rewrite tail_end_run by reflexivity.
  destruct (f_in_progress_after f); [reflexivity|]. cbn [negb andb] in HL.
  destruct (f_picks f); [discriminate|]. reflexivity.
Qed.

(* ------------------------------------------------------------------ cherry-pick *)
Ltac cp_class f :=
  facts f; unfold wf_firing, Known_C13, leaks, K4_cherry_pick, wrapper_cp_completes, cp_orig, cp_srcs in *;
  unfold git_fires, wrap_events, pre_state, post_state, fires_cherry_pick, wrap_cherry_pick in *;
  cbn [f_made] in *;
  match goal with x : list made |- _ => destruct x as [|[src new par cph seq] [|m2 rest]] end;
  [| |match goal with HK : _ = false |- _ => cbn in HK; rewrite ?andb_false_r in HK; try discriminate end];
  cbn [flat_map app m_src m_new m_parent m_cph m_seq] in *; crush.
Lemma same_CCherryPick : forall f, stmt CCherryPick f.
Proof. intros f Hwf HK. cp_class f. Qed.
Lemma same_CCherryPickContinue : forall f, stmt CCherryPickContinue f.
Proof. intros f Hwf HK. cp_class f. Qed.
Lemma state_CCherryPick : forall f, stmt2 CCherryPick f.
Proof. intros f Hwf HK HL. cp_class f. Qed.
Lemma state_CCherryPickContinue : forall f, stmt2 CCherryPickContinue f.
Proof. intros f Hwf HK HL. cp_class f. Qed.

(* ------------------------------------------------------------------ pull --rebase *)
Definition pull_pre (f : outcome_facts) : firing :=
  mkFiring HN_pre_rebase ANone (with_rebase_args (with_ra (env0 f) ra_pull_action) (f_journal_active f) (f_branch f) (f_upstream f)).
Definition pull_co (f : outcome_facts) : firing :=
  mkFiring HN_post_checkout (APostCheckout (zero_or (f_head f)) (zero_or (f_co_head f)))
    (with_pull (with_ra (with_refs (with_seq (env0 f) true None false None) (f_co_head f) None (f_head f) false) ra_pull_action)
       (match f_picks f with [] => true | _ => false end) false false (f_origs f, f_news f)).

Lemma pull_prefix : forall f h p ps, f_head f = Some h -> f_picks f = p :: ps ->
  hook_run rewrite_stash_default_debug false [pull_pre f; pull_co f] init = ([], mkSide true (Some h) None None).
Proof.
  intros f h p ps Hh Hp. unfold pull_pre, pull_co. cbn [hook_run]. unfold hook_step. cbn [h_name h_args h_env s_mask init andb].
  cbn. rewrite Hh, Hp. cbn. reflexivity.
Qed.

Definition ppr_events (f : outcome_facts) (h n : sha) : list core_event :=
  if h =? n then []
  else ERenameWorkingLog h n ::
       match f_origs f, f_news f with
       | [], _ => []
       | _, [] => []
       | os, ns => [ERebaseComplete h n false os ns]
       end.

Lemma pull_prefix_nil : forall f h u, f_head f = Some h -> f_co_head f = Some u -> f_picks f = [] ->
  hook_run rewrite_stash_default_debug false [pull_pre f; pull_co f] init = (ppr_events f h u, init).
Proof.
  intros f h u Hh Hu Hp. unfold pull_pre, pull_co, ppr_events. cbn [hook_run]. unfold hook_step.
  cbn [h_name h_args h_env s_mask init andb]. cbn. rewrite Hh, Hu, Hp. cbn.
  destruct (h =? u); [reflexivity|]. destruct (f_origs f); [reflexivity|]. destruct (f_news f); reflexivity.
Qed.

Lemma pull_final : forall f h n p ps, f_head_after f = Some n -> f_in_progress_after f = false -> f_picks f = p :: ps ->
  hook_run rewrite_stash_default_debug false (tail_end true f) (mkSide true (Some h) None None) = (ppr_events f h n, init).
Proof.
  intros f h n p ps Hn Hi Hp. unfold tail_end, ppr_events. rewrite Hi, Hp. cbn [hook_run]. unfold hook_step.
  cbn [h_name h_args h_env s_mask andb]. cbn. rewrite Hn. cbn.
  destruct (h =? n); [reflexivity|]. destruct (f_origs f); [reflexivity|]. destruct (f_news f); reflexivity.
Qed.

Lemma quiet_step : forall rs fi st, quiet_noise fi = true -> s_mask st = false ->
  hook_step rs false st fi = ([], st).
Proof.
  intros rs fi st Hq Hm. destruct fi as [n a e]. unfold quiet_noise in Hq. cbn in Hq.
  apply andb_prop in Hq. destruct Hq as [Hrb Hn].
  unfold hook_step. cbn [h_name h_env h_args]. rewrite Hm. cbn [andb].
  destruct n; try discriminate; unfold requires_lookup; cbn [h_name h_env h_args]; rewrite ?Hrb; cbn; try reflexivity.
  destruct a; try discriminate. destruct stash_upd; try discriminate. apply negb_true_iff in Hn. rewrite Hn.
  destruct ph; cbn; rewrite ?Hrb; reflexivity.
Qed.

Lemma quiet_inert : forall rs noise st, forallb quiet_noise noise = true -> s_mask st = false ->
  hook_run rs false noise st = ([], st).
Proof.
  induction noise; intros st H Hm; cbn [hook_run]; [reflexivity|].
  cbn in H. apply andb_prop in H. destruct H as [H1 H2].
  rewrite quiet_step by assumption. rewrite IHnoise by assumption. reflexivity.
Qed.

Definition rc_part (f : outcome_facts) (h n : sha) : list core_event :=
  match f_origs f, f_news f with
  | [], _ => [] | _, [] => [] | os, ns => [ERebaseComplete h n false os ns]
  end.

Lemma eff_rc_part : forall f h n, effects f (rc_part f h n) = rc_part f h n.
Proof. intros. unfold rc_part. destruct (f_origs f); [reflexivity|]. destruct (f_news f); reflexivity. Qed.

Lemma ppr_split : forall f h n, ppr_events f h n = if h =? n then [] else [ERenameWorkingLog h n] ++ rc_part f h n.
Proof.
  intros. unfold ppr_events, rc_part. destruct (h =? n); [reflexivity|].
  destruct (f_origs f); [reflexivity|]. destruct (f_news f); reflexivity.
Qed.

(* hooks side: the rename is an effect exactly when a working log is pending *)
Lemma eff_ppr : forall f h n, f_head f = Some h ->
  effects f (ppr_events f h n) =
  if h =? n then [] else (if f_wl_pending f then [ERenameWorkingLog h n] else []) ++ rc_part f h n.
Proof.
  intros f h n Hh. rewrite ppr_split. destruct (h =? n) eqn:E; [reflexivity|].
  rewrite effects_app, eff_rc_part. f_equal.
  unfold effects, live. cbn. rewrite Hh. cbn. rewrite N.eqb_refl, E. cbn.
  destruct (f_wl_pending f); reflexivity.
Qed.

(* wrapper side *)
Lemma eff_wrap_pull : forall f h n, f_exit_ok f = true -> f_head f = Some h -> f_head_after f = Some n ->
  effects f (wrap_pull true f) =
  if h =? n then []
  else (if f_autostash_va f then [if f_upstream_touches_pending f then ERestoreStashedVA h n else ERenameWorkingLog h n] else [])
       ++ rc_part f h n.
Proof.
  intros f h n Hok Hh Hn. unfold wrap_pull. rewrite Hok, Hh, Hn. cbn [negb].
  destruct (h =? n); [reflexivity|]. cbn [negb].
  rewrite effects_app. fold (rc_part f h n). rewrite eff_rc_part. f_equal.
  destruct (f_autostash_va f); [|reflexivity]. unfold effects. cbn. destruct (f_upstream_touches_pending f); reflexivity.
Qed.

Lemma pull_agree : forall f h n, f_head f = Some h ->
  (f_wl_pending f && negb (h =? n) && negb (f_autostash_va f)) = false ->
  (f_autostash_va f && f_upstream_touches_pending f) = false ->
  (negb (f_autostash_va f) || f_wl_pending f) = true ->
  (if h =? n then [] else (if f_wl_pending f then [ERenameWorkingLog h n] else []) ++ rc_part f h n) =
  (if h =? n then []
   else (if f_autostash_va f then [if f_upstream_touches_pending f then ERestoreStashedVA h n else ERenameWorkingLog h n] else [])
        ++ rc_part f h n).
Proof.
  intros f h n Hh H1 H2 H3. destruct (h =? n); [reflexivity|]. cbn [negb] in H1. rewrite andb_true_r in H1.
  destruct (f_wl_pending f), (f_autostash_va f), (f_upstream_touches_pending f); cbn in *; try discriminate; reflexivity.
Qed.

Ltac pull_wf Hwf :=
  apply andb_prop in Hwf; destruct Hwf as [_ Hwf];
  apply andb_prop in Hwf; destruct Hwf as [Hwf Hok]; apply andb_prop in Hwf; destruct Hwf as [Hwf Hva];
  apply andb_prop in Hwf; destruct Hwf as [Hwf Hpn];
  apply andb_prop in Hwf; destruct Hwf as [Hwf Hnzu]; apply andb_prop in Hwf; destruct Hwf as [Hwf Hnoise];
  apply andb_prop in Hwf; destruct Hwf as [Hnip Hnipa]; apply negb_true_iff in Hnipa.

Lemma same_CPullRebase : forall f, stmt CPullRebase f.
Proof.
  intros f Hwf HK. unfold stmt, wf_firing, Known_C13 in *.
  destruct (f_exit_ok f) eqn:Eok;
    [|unfold hook_events, git_fires, wrap_events, wrap_pull; cbn [has_pre has_post command_of existsb]; rewrite Eok; reflexivity].
  destruct (f_head f) as [h|] eqn:Eh; [|cbn in Hwf; rewrite ?andb_false_r in Hwf; discriminate].
  destruct (f_head_after f) as [n|] eqn:En; [|cbn in Hwf; rewrite ?andb_false_r in Hwf; discriminate].
  destruct (f_co_head f) as [u|] eqn:Eu; [|cbn in Hwf; rewrite ?andb_false_r in Hwf; discriminate].
  pull_wf Hwf.
  unfold hook_events, git_fires, pre_state, wrap_events. cbn [has_pre has_post command_of existsb].
  change (negb _) with false at 1. cbn iota. rewrite Eok. cbn [negb orb andb is_some] in Hok, HK.
  apply orb_false_elim in HK. destruct HK as [HK HKp]. apply orb_false_elim in HK. destruct HK as [HKwl HKva].
  unfold opt_eqb in HKwl, HKp, Hok.
  rewrite (eff_wrap_pull f h n Eok Eh En).
  unfold fires_rebase_start.
  destruct (f_uptodate f) eqn:Eutd.
  - cbn [hook_run fst]. cbn [negb orb andb] in Hok.
    apply andb_prop in Hok; destruct Hok as [Hok _]. apply andb_prop in Hok; destruct Hok as [Hsame _].
    rewrite N.eqb_sym in Hsame. rewrite Hsame. reflexivity.
  - change (?a :: ?b :: rebase_tail true f) with ([pull_pre f; pull_co f] ++ rebase_tail true f).
    rewrite hook_run_app.
    change (hook_run rewrite_stash_default_debug false [_; _] init) with (hook_run rewrite_stash_default_debug false [pull_pre f; pull_co f] init).
    destruct (f_picks f) as [|p ps] eqn:Epk.
    + erewrite pull_prefix_nil by eassumption. unfold rebase_tail, tail_end. rewrite Epk, Hnipa. rewrite app_nil_r.
      rewrite quiet_inert by (assumption || reflexivity). cbn [fst]. rewrite app_nil_r.
      cbn [negb andb] in HKp. apply negb_false_iff in HKp. apply N.eqb_eq in HKp. subst u.
      rewrite eff_ppr by assumption. apply pull_agree; assumption.
    + erewrite pull_prefix by eassumption.
      rewrite tail_run by (assumption || reflexivity).
      erewrite pull_final by eassumption. cbn [app fst].
      rewrite eff_ppr by assumption. apply pull_agree; assumption.
Qed.

Lemma state_CPullRebase : forall f, stmt2 CPullRebase f.
Proof.
  intros f Hwf HK _. unfold stmt2, wf_firing, Known_C13 in *.
  destruct (f_exit_ok f) eqn:Eok.
  2:{ unfold hook_events, git_fires, post_state. rewrite Eok. pull_wf Hwf. rewrite Hnipa. reflexivity. }
  destruct (f_head f) as [h|] eqn:Eh; [|cbn in Hwf; rewrite ?andb_false_r in Hwf; discriminate].
  destruct (f_head_after f) as [n|] eqn:En; [|cbn in Hwf; rewrite ?andb_false_r in Hwf; discriminate].
  destruct (f_co_head f) as [u|] eqn:Eu; [|cbn in Hwf; rewrite ?andb_false_r in Hwf; discriminate].
  pull_wf Hwf.
  unfold hook_events, git_fires, pre_state, post_state. rewrite Eok, Hnipa.
  unfold fires_rebase_start.
  destruct (f_uptodate f) eqn:Eutd; [reflexivity|].
  change (?a :: ?b :: rebase_tail true f) with ([pull_pre f; pull_co f] ++ rebase_tail true f).
  rewrite hook_run_app.
  change (hook_run rewrite_stash_default_debug false [_; _] init) with (hook_run rewrite_stash_default_debug false [pull_pre f; pull_co f] init).
  destruct (f_picks f) as [|p ps] eqn:Epk.
  - erewrite pull_prefix_nil by eassumption. unfold rebase_tail, tail_end. rewrite Epk, Hnipa. rewrite app_nil_r.
    rewrite quiet_inert by (assumption || reflexivity). reflexivity.
  - erewrite pull_prefix by eassumption.
    rewrite tail_run by (assumption || reflexivity).
    erewrite pull_final by eassumption. reflexivity.
Qed.

(* ------------------------------------------------------------------ all classes *)
Theorem same_events : forall c f, wf_firing c f = true -> Known_C13 c f = false ->
  effects f (fst (hook_events (git_fires c f) (pre_state c))) = effects f (wrap_events c f).
Proof.
  intros c f. destruct c.
  - apply same_CCommit. - apply same_CCommitAmend. - apply same_CRebase. - apply same_CRebaseI.
  - apply same_CRebaseContinue. - apply same_CRebaseAbort. - apply same_CCherryPick. - apply same_CCherryPickContinue.
  - apply same_CCherryPickAbort. - apply same_CResetSoft. - apply same_CResetMixed. - apply same_CResetHard.
  - apply same_CResetPath. - apply same_CStashPush. - apply same_CStashPop. - apply same_CStashApply.
  - apply same_CStashDrop. - apply same_CMergeSquash. - apply same_CCheckoutBranch. - apply same_CSwitchBranch.
  - apply same_CCheckoutPath. - apply same_CPullFF. - apply same_CPullRebase.
Qed.

Theorem same_events_erased : forall c f, wf_firing c f = true -> Known_C13 c f = false ->
  erase_shas (effects f (fst (hook_events (git_fires c f) (pre_state c)))) = erase_shas (effects f (wrap_events c f)).
Proof. intros c f H1 H2. rewrite (same_events c f H1 H2). reflexivity. Qed.

Theorem side_state_cleared : forall c f, wf_firing c f = true -> Known_C13 c f = false -> leaks c f = false ->
  snd (hook_events (git_fires c f) (pre_state c)) = post_state f c.
Proof.
  intros c f. destruct c.
  - apply state_CCommit. - apply state_CCommitAmend. - apply state_rebase_start; auto. - apply state_rebase_start; auto.
  - apply state_CRebaseContinue. - intros _ _ H; discriminate H. - apply state_CCherryPick. - apply state_CCherryPickContinue.
  - apply state_CCherryPickAbort. - apply state_CResetSoft. - apply state_CResetMixed. - apply state_CResetHard.
  - apply state_CResetPath. - apply state_CStashPush. - apply state_CStashPop. - apply state_CStashApply.
  - apply state_CStashDrop. - apply state_CMergeSquash. - apply state_CCheckoutBranch. - apply state_CSwitchBranch.
  - apply state_CCheckoutPath. - apply state_CPullFF. - apply state_CPullRebase.
Qed.

(* ------------------------------------------------------------------ sequences of commands *)
Definition cmd := (command_class * outcome_facts)%type.

Fixpoint run_hooks (cmds : list cmd) (st : side_state) : list core_event * side_state :=
  match cmds with
  | [] => ([], st)
  | (c, f) :: rest =>
      let '(e1, s1) := hook_events (git_fires c f) st in
      let '(e2, s2) := run_hooks rest s1 in
      (effects f e1 ++ e2, s2)
  end.

Fixpoint run_wrap (cmds : list cmd) : list core_event :=
  match cmds with
  | [] => []
  | (c, f) :: rest => effects f (wrap_events c f) ++ run_wrap rest
  end.

(* every command starts in the state the previous one is expected to leave (a stopped rebase keeps the
   mask; everything else starts from the cleared state) *)
Fixpoint chained (st : side_state) (cmds : list cmd) : Prop :=
  match cmds with
  | [] => True
  | (c, f) :: rest => st = pre_state c /\ chained (post_state f c) rest
  end.

Definition agreeing (x : cmd) : Prop :=
  wf_firing (fst x) (snd x) = true /\ Known_C13 (fst x) (snd x) = false /\ leaks (fst x) (snd x) = false.

Definition final_state (st : side_state) (cmds : list cmd) : side_state :=
  match rev cmds with [] => st | (c, f) :: _ => post_state f c end.

Theorem sequences : forall cmds st, chained st cmds -> Forall agreeing cmds ->
  run_hooks cmds st = (run_wrap cmds, final_state st cmds).
Proof.
  induction cmds as [|[c f] rest IH]; intros st Hch Hall.
  - reflexivity.
  - cbn [run_hooks run_wrap]. destruct Hch as [Hst Hch]. subst st.
    inversion Hall as [|x l Hx Hrest]; subst. destruct Hx as (Hwf & HK & HL). cbn [fst snd] in *.
    pose proof (same_events c f Hwf HK) as Hev. pose proof (side_state_cleared c f Hwf HK HL) as Hs.
    destruct (hook_events (git_fires c f) (pre_state c)) as [e1 s1]. cbn [fst snd] in *. subst s1.
    rewrite (IH _ Hch Hrest). rewrite Hev. f_equal.
    unfold final_state. cbn [rev]. destruct rest as [|y r]; [reflexivity|].
    destruct (rev (y :: r)) as [|[c' f'] l'] eqn:E.
    + exfalso. apply (f_equal (@length _)) in E. rewrite rev_length in E. discriminate.
    + reflexivity.
Qed.

(* ------------------------------------------------------------------ wrapper and managed hooks both installed *)
Lemma skip_inert : forall rs fs st, hook_run rs true fs st = ([], st).
Proof.
  induction fs; intros st; cbn [hook_run]; [reflexivity|].
  unfold hook_step. destruct (s_mask st && maskable (h_name a)); rewrite IHfs; reflexivity.
Qed.

Theorem no_double : forall c f st, both_events c f st = (wrap_events c f, st).
Proof.
  intros c f st. unfold both_events. change wrapper_child_sets_skip with true. rewrite skip_inert. rewrite app_nil_r. reflexivity.
Qed.

(* the second barrier: with core.hooksPath overridden for the child git no managed hook is started at all *)
Theorem no_double_override : forall rs sk st, hook_run rs sk [] st = ([], st).
Proof. reflexivity. Qed.

Lemma override_covers_all : forall c, existsb (git_command_eqb (command_of c)) child_override_commands = true.
Proof. destruct c; reflexivity. Qed.

(* ------------------------------------------------------------------ witnesses of the known differences *)
Definition wit_K1_abort : outcome_facts := (mkFacts (Some 10) (Some 10) (Some 9) false true false None true false true (Some 10) [] None None None None false [] [] [] [] [] [] None true false None 0%nat 0%nat None None true false false false false false false false).
Lemma refuted_K1_abort : wf_firing CRebaseAbort wit_K1_abort = true /\ Known_C13 CRebaseAbort wit_K1_abort = false /\ leaks CRebaseAbort wit_K1_abort = true /\
  s_mask (snd (hook_events (git_fires CRebaseAbort wit_K1_abort) (pre_state CRebaseAbort))) = true /\ s_mask (post_state wit_K1_abort CRebaseAbort) = false.
Proof. repeat (split; [vm_compute; reflexivity|]). vm_compute; reflexivity. Qed.
Definition wit_K1_ff : outcome_facts := (mkFacts (Some 10) (Some 20) (Some 9) false true false None false false false None [] None (Some 20) (Some 20) None false [] [] [] [] [] [] None true false None 0%nat 0%nat None None true false false false false false false false).
Lemma refuted_K1_ff : wf_firing CRebase wit_K1_ff = true /\ Known_C13 CRebase wit_K1_ff = false /\ leaks CRebase wit_K1_ff = true /\
  s_mask (snd (hook_events (git_fires CRebase wit_K1_ff) (pre_state CRebase))) = true /\ s_mask (post_state wit_K1_ff CRebase) = false.
Proof. repeat (split; [vm_compute; reflexivity|]). vm_compute; reflexivity. Qed.
Definition wit_K2_drop : outcome_facts := (mkFacts (Some 12) (Some 21) (Some 9) false true false None false false false None [] None (Some 5) (Some 5) None false [(11, 21)] [11; 12] [21] [] [] [] None true false None 0%nat 0%nat None None true false false false false false false false).
Lemma refuted_K2_drop : wf_firing CRebaseI wit_K2_drop = true /\ Known_C13 CRebaseI wit_K2_drop = true /\
  erase_shas (effects wit_K2_drop (fst (hook_events (git_fires CRebaseI wit_K2_drop) (pre_state CRebaseI)))) <>
  erase_shas (effects wit_K2_drop (wrap_events CRebaseI wit_K2_drop)).
Proof. split; [vm_compute; reflexivity|]. split; [vm_compute; reflexivity|]. vm_compute. intro H; discriminate H. Qed.
Definition wit_K2_squash : outcome_facts := (mkFacts (Some 12) (Some 21) (Some 9) false true false None false false false None [] None (Some 5) (Some 5) None false [(11, 21); (12, 21)] [11; 12] [21] [] [] [] None true false None 0%nat 0%nat None None true false false false false false false false).
Lemma refuted_K2_squash : wf_firing CRebaseI wit_K2_squash = true /\ Known_C13 CRebaseI wit_K2_squash = true /\
  erase_shas (effects wit_K2_squash (fst (hook_events (git_fires CRebaseI wit_K2_squash) (pre_state CRebaseI)))) <>
  erase_shas (effects wit_K2_squash (wrap_events CRebaseI wit_K2_squash)).
Proof. split; [vm_compute; reflexivity|]. split; [vm_compute; reflexivity|]. vm_compute. intro H; discriminate H. Qed.
Definition wit_K3 : outcome_facts := (mkFacts (Some 10) (Some 11) (Some 10) false true true None false false false None [] None None None None false [] [] [] [] [] [] None true false None 0%nat 0%nat None None true false false false false false false false).
Lemma refuted_K3 : wf_firing CCommit wit_K3 = true /\ Known_C13 CCommit wit_K3 = true /\
  erase_shas (effects wit_K3 (fst (hook_events (git_fires CCommit wit_K3) (pre_state CCommit)))) <>
  erase_shas (effects wit_K3 (wrap_events CCommit wit_K3)).
Proof. split; [vm_compute; reflexivity|]. split; [vm_compute; reflexivity|]. vm_compute. intro H; discriminate H. Qed.
Definition wit_K4 : outcome_facts := (mkFacts (Some 10) (Some 22) (Some 9) false true false None false false false None [] None None None None false [] [] [21; 22] [] [31; 32] [mkMade 31 21 10 true true; mkMade 32 22 21 true true] None true false None 0%nat 0%nat None None true false false false false false false false).
Lemma refuted_K4 : wf_firing CCherryPick wit_K4 = true /\ Known_C13 CCherryPick wit_K4 = true /\
  erase_shas (effects wit_K4 (fst (hook_events (git_fires CCherryPick wit_K4) (pre_state CCherryPick)))) <>
  erase_shas (effects wit_K4 (wrap_events CCherryPick wit_K4)).
Proof. split; [vm_compute; reflexivity|]. split; [vm_compute; reflexivity|]. vm_compute. intro H; discriminate H. Qed.
Definition wit_K5 : outcome_facts := (mkFacts (Some 10) (Some 11) (Some 10) false true false (Some 31) false false false None [] None None None None false [] [] [] [] [] [] None true false None 0%nat 0%nat None None true false false false false false false false).
Lemma refuted_K5 : wf_firing CCommit wit_K5 = true /\ Known_C13 CCommit wit_K5 = true /\
  erase_shas (effects wit_K5 (fst (hook_events (git_fires CCommit wit_K5) (pre_state CCommit)))) <>
  erase_shas (effects wit_K5 (wrap_events CCommit wit_K5)).
Proof. split; [vm_compute; reflexivity|]. split; [vm_compute; reflexivity|]. vm_compute. intro H; discriminate H. Qed.
Definition wit_K6_hard_head : outcome_facts := (mkFacts (Some 10) (Some 10) (Some 9) false true false None false false false None [] None None None None false [] [] [] [] [] [] (Some 10) true false None 0%nat 0%nat None None true false false false false false false false).
Lemma refuted_K6_hard_head : wf_firing CResetHard wit_K6_hard_head = true /\ Known_C13 CResetHard wit_K6_hard_head = true /\
  erase_shas (effects wit_K6_hard_head (fst (hook_events (git_fires CResetHard wit_K6_hard_head) (pre_state CResetHard)))) <>
  erase_shas (effects wit_K6_hard_head (wrap_events CResetHard wit_K6_hard_head)).
Proof. split; [vm_compute; reflexivity|]. split; [vm_compute; reflexivity|]. vm_compute. intro H; discriminate H. Qed.
Definition wit_K6_path : outcome_facts := (mkFacts (Some 10) (Some 10) (Some 9) false true false None false false false None [] None None None None false [] [] [] [] [] [] (Some 10) true false None 0%nat 0%nat None None true false false false false false false false).
Lemma refuted_K6_path : wf_firing CResetPath wit_K6_path = true /\ Known_C13 CResetPath wit_K6_path = true /\
  erase_shas (effects wit_K6_path (fst (hook_events (git_fires CResetPath wit_K6_path) (pre_state CResetPath)))) <>
  erase_shas (effects wit_K6_path (wrap_events CResetPath wit_K6_path)).
Proof. split; [vm_compute; reflexivity|]. split; [vm_compute; reflexivity|]. vm_compute. intro H; discriminate H. Qed.
Definition wit_K7 : outcome_facts := (mkFacts (Some 10) (Some 10) (Some 9) false true false None false false false None [] None None None None false [] [] [] [] [] [] None true false None 0%nat 0%nat None None true false false true false false false false).
Lemma refuted_K7 : wf_firing CCheckoutPath wit_K7 = true /\ Known_C13 CCheckoutPath wit_K7 = true /\
  erase_shas (effects wit_K7 (fst (hook_events (git_fires CCheckoutPath wit_K7) (pre_state CCheckoutPath)))) <>
  erase_shas (effects wit_K7 (wrap_events CCheckoutPath wit_K7)).
Proof. split; [vm_compute; reflexivity|]. split; [vm_compute; reflexivity|]. vm_compute. intro H; discriminate H. Qed.
Definition wit_K8_apply : outcome_facts := (mkFacts (Some 10) (Some 10) (Some 9) false true false None false false false None [] None None None None false [] [] [] [] [] [] None true true (Some 40) 1%nat 1%nat None None true false false false false false false false).
Lemma refuted_K8_apply : wf_firing CStashApply wit_K8_apply = true /\ Known_C13 CStashApply wit_K8_apply = true /\
  erase_shas (effects wit_K8_apply (fst (hook_events (git_fires CStashApply wit_K8_apply) (pre_state CStashApply)))) <>
  erase_shas (effects wit_K8_apply (wrap_events CStashApply wit_K8_apply)).
Proof. split; [vm_compute; reflexivity|]. split; [vm_compute; reflexivity|]. vm_compute. intro H; discriminate H. Qed.
Definition wit_K8_pop2 : outcome_facts := (mkFacts (Some 10) (Some 10) (Some 9) false true false None false false false None [] None None None None false [] [] [] [] [] [] None true true (Some 40) 2%nat 1%nat None None true false false false false false false false).
Lemma refuted_K8_pop2 : wf_firing CStashPop wit_K8_pop2 = true /\ Known_C13 CStashPop wit_K8_pop2 = true /\
  erase_shas (effects wit_K8_pop2 (fst (hook_events (git_fires CStashPop wit_K8_pop2) (pre_state CStashPop)))) <>
  erase_shas (effects wit_K8_pop2 (wrap_events CStashPop wit_K8_pop2)).
Proof. split; [vm_compute; reflexivity|]. split; [vm_compute; reflexivity|]. vm_compute. intro H; discriminate H. Qed.
Definition wit_K8_drop_dirty : outcome_facts := (mkFacts (Some 10) (Some 10) (Some 9) false true false None false false false None [] None None None None false [] [] [] [] [] [] None true true (Some 40) 1%nat 0%nat None None true false false false false false false false).
Lemma refuted_K8_drop_dirty : wf_firing CStashDrop wit_K8_drop_dirty = true /\ Known_C13 CStashDrop wit_K8_drop_dirty = true /\
  erase_shas (effects wit_K8_drop_dirty (fst (hook_events (git_fires CStashDrop wit_K8_drop_dirty) (pre_state CStashDrop)))) <>
  erase_shas (effects wit_K8_drop_dirty (wrap_events CStashDrop wit_K8_drop_dirty)).
Proof. split; [vm_compute; reflexivity|]. split; [vm_compute; reflexivity|]. vm_compute. intro H; discriminate H. Qed.
Definition wit_K9 : outcome_facts := (mkFacts (Some 10) (Some 10) (Some 9) false true false None false false false None [] None None None None false [] [] [] [] [] [] None true false None 0%nat 0%nat None (Some 50) false false false false false false false false).
Lemma refuted_K9 : wf_firing CMergeSquash wit_K9 = true /\ Known_C13 CMergeSquash wit_K9 = true /\
  erase_shas (effects wit_K9 (fst (hook_events (git_fires CMergeSquash wit_K9) (pre_state CMergeSquash)))) <>
  erase_shas (effects wit_K9 (wrap_events CMergeSquash wit_K9)).
Proof. split; [vm_compute; reflexivity|]. split; [vm_compute; reflexivity|]. vm_compute. intro H; discriminate H. Qed.
Definition wit_K10 : outcome_facts := (mkFacts (Some 12) (Some 22) (Some 9) false true false None false false false None [] None (Some 5) (Some 5) None false [(11, 21); (12, 22)] [11; 12] [21; 22] [] [] [] None true false None 0%nat 0%nat None None true true false false false false false false).
Lemma refuted_K10 : wf_firing CRebase wit_K10 = true /\ Known_C13 CRebase wit_K10 = true /\
  erase_shas (effects wit_K10 (fst (hook_events (git_fires CRebase wit_K10) (pre_state CRebase)))) <>
  erase_shas (effects wit_K10 (wrap_events CRebase wit_K10)).
Proof. split; [vm_compute; reflexivity|]. split; [vm_compute; reflexivity|]. vm_compute. intro H; discriminate H. Qed.
Definition wit_K11 : outcome_facts := (mkFacts (Some 10) (Some 9) (Some 9) false true false None false false false None [] None None None None false [] [] [] [] [] [] (Some 9) true true None 0%nat 0%nat None None true false true false false false false false).
Lemma refuted_K11 : wf_firing CResetSoft wit_K11 = true /\ Known_C13 CResetSoft wit_K11 = true /\
  erase_shas (effects wit_K11 (fst (hook_events (git_fires CResetSoft wit_K11) (pre_state CResetSoft)))) <>
  erase_shas (effects wit_K11 (wrap_events CResetSoft wit_K11)).
Proof. split; [vm_compute; reflexivity|]. split; [vm_compute; reflexivity|]. vm_compute. intro H; discriminate H. Qed.

Theorem same_events_unconditional_refuted : exists c f, wf_firing c f = true /\
  erase_shas (effects f (fst (hook_events (git_fires c f) (pre_state c)))) <> erase_shas (effects f (wrap_events c f)).
Proof. exists CRebaseI, wit_K2_drop. destruct refuted_K2_drop as (H1 & _ & H3). split; assumption. Qed.

Theorem side_state_leak_refuted : exists c f, wf_firing c f = true /\ Known_C13 c f = false /\
  snd (hook_events (git_fires c f) (pre_state c)) <> post_state f c.
Proof.
  exists CRebase, wit_K1_ff. destruct refuted_K1_ff as (H1 & H2 & _ & H4 & H5). repeat split; try assumption.
  intro E. rewrite E in H4. rewrite H4 in H5. discriminate H5.
Qed.

(* the leak makes the next command invisible: a fast-forward rebase followed by a commit *)
Definition wit_commit_after : outcome_facts := (mkFacts (Some 20) (Some 21) (Some 20) false true false None false false false None [] None None None None false [] [] [] [] [] [] None true false None 0%nat 0%nat None None true false false false false false false false).
Theorem sequences_leak_refuted :
  let cmds := [(CRebase, wit_K1_ff); (CCommit, wit_commit_after)] in
  Forall (fun x => wf_firing (fst x) (snd x) = true /\ Known_C13 (fst x) (snd x) = false) cmds /\
  erase_shas (fst (run_hooks cmds init)) = [] /\
  erase_shas (run_wrap cmds) = [SPreCommitCheckpoint; SCommit true].
Proof.
  cbn zeta. split.
  - repeat constructor; vm_compute; reflexivity.
  - split; vm_compute; reflexivity.
Qed.

(* non-vacuity: classes where both translations produce the same non-empty effects *)
Definition wit_rebase2 : outcome_facts := (mkFacts (Some 12) (Some 22) (Some 9) false true false None false false false None [] None (Some 5) (Some 5) None false [(11, 21); (12, 22)] [11; 12] [21; 22] [] [] [] None true false None 0%nat 0%nat None None true false false false false false false false).
Example nonvacuous_rebase : wf_firing CRebase wit_rebase2 = true /\ Known_C13 CRebase wit_rebase2 = false /\
  effects wit_rebase2 (wrap_events CRebase wit_rebase2) = [ERebaseComplete 12 22 false [11; 12] [21; 22]] /\
  effects wit_rebase2 (fst (hook_events (git_fires CRebase wit_rebase2) init)) = [ERebaseComplete 12 22 false [11; 12] [21; 22]].
Proof. repeat split; vm_compute; reflexivity. Qed.

Definition wit_amend : outcome_facts := (mkFacts (Some 10) (Some 11) (Some 9) false true false None false false false None [] None None None None false [] [] [] [] [] [] None true false None 0%nat 0%nat None None true false false false false false false false).
Example nonvacuous_sequence :
  let cmds := [(CCommit, wit_commit_after); (CCommitAmend, (mkFacts (Some 21) (Some 23) (Some 20) false true false None false false false None [] None None None None false [] [] [] [] [] [] None true false None 0%nat 0%nat None None true false false false false false false false)); (CRebaseI, (mkFacts (Some 23) (Some 33) (Some 9) false true false None false false false None [] None (Some 5) (Some 5) None false [(23, 33)] [23] [33] [] [] [] None true false None 0%nat 0%nat None None true false false false false false false false))] in
  chained init cmds /\ Forall agreeing cmds /\
  erase_shas (run_wrap cmds) = [SPreCommitCheckpoint; SCommit true; SPreCommitCheckpoint; SCommitAmend; SRebaseComplete false 1 1].
Proof.
  cbn zeta. split; [cbn; repeat split|]. split.
  - repeat constructor; vm_compute; reflexivity.
  - vm_compute; reflexivity.
Qed.

(* ------------------------------------------------------------------ pull --rebase with pending attribution *)
(* K12: every local commit is skipped as already upstream (noop), an untracked agent file is pending, no autostash *)
Definition wit_K12 : outcome_facts := (mkFacts (Some 10) (Some 20) (Some 9) false true false None false false false None [] None (Some 20) (Some 20) None false [] [10] [] [] [] [] None true false None 0%nat 0%nat None None true true false false false false false false).
Lemma refuted_K12 : wf_firing CPullRebase wit_K12 = true /\ Known_C13 CPullRebase wit_K12 = true /\
  erase_shas (effects wit_K12 (fst (hook_events (git_fires CPullRebase wit_K12) (pre_state CPullRebase)))) <>
  erase_shas (effects wit_K12 (wrap_events CPullRebase wit_K12)).
Proof. split; [vm_compute; reflexivity|]. split; [vm_compute; reflexivity|]. vm_compute. intro H; discriminate H. Qed.

(* the same pull with --autostash: both modes carry the pending attribution to the new HEAD, on the noop exit ... *)
Definition wit_pull_noop_autostash : outcome_facts := (mkFacts (Some 10) (Some 20) (Some 9) false true false None false false false None [] None (Some 20) (Some 20) None false [] [10] [] [] [] [] None true false None 0%nat 0%nat None None true true false false false true false false).
Example pull_noop_autostash_agrees :
  wf_firing CPullRebase wit_pull_noop_autostash = true /\ Known_C13 CPullRebase wit_pull_noop_autostash = false /\
  effects wit_pull_noop_autostash (fst (hook_events (git_fires CPullRebase wit_pull_noop_autostash) init)) = [ERenameWorkingLog 10 20] /\
  effects wit_pull_noop_autostash (wrap_events CPullRebase wit_pull_noop_autostash) = [ERenameWorkingLog 10 20].
Proof. repeat split; vm_compute; reflexivity. Qed.

(* ... and on the exit that rewrites commits *)
Definition wit_pull_real_autostash : outcome_facts := (mkFacts (Some 10) (Some 21) (Some 9) false true false None false false false None [] None (Some 20) (Some 20) None false [(10, 21)] [10] [21] [] [] [] None true false None 0%nat 0%nat None None true true false false false true false false).
Example pull_real_autostash_agrees :
  wf_firing CPullRebase wit_pull_real_autostash = true /\ Known_C13 CPullRebase wit_pull_real_autostash = false /\
  effects wit_pull_real_autostash (fst (hook_events (git_fires CPullRebase wit_pull_real_autostash) init)) =
    [ERenameWorkingLog 10 21; ERebaseComplete 10 21 false [10] [21]] /\
  effects wit_pull_real_autostash (wrap_events CPullRebase wit_pull_real_autostash) =
    [ERenameWorkingLog 10 21; ERebaseComplete 10 21 false [10] [21]].
Proof. repeat split; vm_compute; reflexivity. Qed.

(* ------------------------------------------------------------------ the cherry_pick_hook_state file *)
(* an ordinary commit (no rebase, no cherry-pick in progress) from ANY unmasked side state: the translations agree and
   the cherry-pick state file is gone afterwards — the ordinary pre-commit arm clears a left-over file *)
Lemma commit_from_any_state : forall f st, wf_firing CCommit f = true -> Known_C13 CCommit f = false -> s_mask st = false ->
  effects f (fst (hook_events (git_fires CCommit f) st)) = effects f (wrap_events CCommit f) /\
  s_cp (snd (hook_events (git_fires CCommit f) st)) = None /\ s_mask (snd (hook_events (git_fires CCommit f) st)) = false.
Proof.
  intros f st Hwf HK Hm. destruct st as [m pl sb0 cp]. cbn in Hm. subst m. facts f.
  unfold wf_firing, Known_C13 in *. unfold_classes. split; [|split]; crush.
Qed.

Lemma amend_from_any_state : forall f st, wf_firing CCommitAmend f = true -> Known_C13 CCommitAmend f = false -> s_mask st = false ->
  effects f (fst (hook_events (git_fires CCommitAmend f) st)) = effects f (wrap_events CCommitAmend f) /\
  s_cp (snd (hook_events (git_fires CCommitAmend f) st)) = None.
Proof.
  intros f st Hwf HK Hm. destruct st as [m pl sb0 cp]. cbn in Hm. subst m. facts f.
  unfold wf_firing, Known_C13 in *. unfold_classes. split; crush.
Qed.

(* a commit attempt during a stopped cherry-pick that git aborts after the pre-commit hook leaves the file behind *)
Definition wit_cp_commit_aborted : outcome_facts := (mkFacts (Some 10) (Some 10) (Some 9) false false false (Some 31) false false false None [] None None None None false [] [] [] [] [] [] None true false None 0%nat 0%nat None None true false false false false false true false).
Lemma commit_attempt_leaves_cp_state :
  wf_firing CCommit wit_cp_commit_aborted = true /\
  s_cp (snd (hook_events (git_fires CCommit wit_cp_commit_aborted) init)) = Some (31, 10).
Proof. split; vm_compute; reflexivity. Qed.

(* ... and after `cherry-pick --abort` (no hook fires) the next ordinary commit on that HEAD is still recorded as a commit *)
Definition wit_cp_abort_after : outcome_facts := (mkFacts (Some 10) (Some 10) (Some 9) false true false None true false true (Some 10) [] None None None None false [] [] [] [] [] [] None true false None 0%nat 0%nat None None true false false false false false false false).
Definition wit_commit_after_abandoned : outcome_facts := (mkFacts (Some 10) (Some 11) (Some 10) false true false None false false false None [] None None None None false [] [] [] [] [] [] None true false None 0%nat 0%nat None None true false false false false false false false).
Lemma abandoned_cherry_pick_sequence :
  let cmds := [(CCommit, wit_cp_commit_aborted); (CCherryPickAbort, wit_cp_abort_after); (CCommit, wit_commit_after_abandoned)] in
  Forall (fun x => wf_firing (fst x) (snd x) = true) cmds /\
  skipn 1 (fst (run_hooks cmds init)) = [ECommit (Some 10) 11] /\
  run_wrap [(CCommit, wit_commit_after_abandoned)] = [EPreCommitCheckpoint; ECommit (Some 10) 11] /\
  snd (run_hooks cmds init) = init.
Proof. cbn zeta. split; [repeat constructor; vm_compute; reflexivity|]. repeat split; vm_compute; reflexivity. Qed.
