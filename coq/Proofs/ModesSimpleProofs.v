(* Proofs/ModesSimpleProofs.v — tactics and the command classes whose hook list is a fixed finite
   list (no sequencer loop): both statements, effects equality and side state, by case analysis. *)
From Coq Require Import List NArith Bool Lia PeanoNat.
From Verif Require Import Gen.GenModes Model.Modes.
Import ListNotations.
Open Scope N_scope.
Arguments N.eqb : simpl nomatch.
Arguments Pos.eqb : simpl nomatch.
Arguments Nat.ltb : simpl never.
Arguments Nat.leb : simpl never.
Arguments Nat.eqb : simpl never.

Lemma list_eqb_eq : forall a b, list_eqb a b = true -> a = b.
Proof.
  induction a; destruct b; cbn; intros H; try discriminate; [reflexivity|].
  apply andb_prop in H. destruct H as [H1 H2]. apply N.eqb_eq in H1. subst. f_equal. auto.
Qed.

Ltac hyps :=
  repeat match goal with
  | H : _ && _ = true |- _ => apply andb_prop in H; destruct H
  | H : negb _ = true |- _ => apply negb_true_iff in H
  | H : negb _ = false |- _ => apply negb_false_iff in H
  | H : _ || _ = false |- _ => apply orb_false_elim in H; destruct H
  | H : (_ =? _) = true |- _ => apply N.eqb_eq in H; subst
  | H : Nat.eqb _ _ = true |- _ => apply Nat.eqb_eq in H; subst
  | H : list_eqb _ _ = true |- _ => apply list_eqb_eq in H
  | H : ?x = true |- _ => is_var x; subst x
  | H : ?x = false |- _ => is_var x; subst x
  | H : ?x = _ :: _ |- _ => is_var x; subst x
  | H : _ :: _ = ?x |- _ => is_var x; subst x
  | H : map _ _ = ?x |- _ => is_var x; subst x
  | H : Some _ = Some _ |- _ => injection H as H
  | H : true = true |- _ => clear H
  | H : false = false |- _ => clear H
  | H : true = false |- _ => discriminate H
  | H : false = true |- _ => discriminate H
  end.
Lemma ltb_succ : forall n, Nat.ltb n (S n) = true.
Proof. intros. apply Nat.ltb_lt. lia. Qed.
Lemma ltb_succ_rev : forall n, Nat.ltb (S n) n = false.
Proof. intros. apply Nat.ltb_ge. lia. Qed.
Lemma ltb_irr : forall n, Nat.ltb n n = false.
Proof. intros. apply Nat.ltb_irrefl. Qed.
Ltac eqs :=
  rewrite ?N.eqb_refl, ?ltb_succ, ?ltb_succ_rev, ?ltb_irr;
  repeat match goal with
  | H : (?a =? ?b) = false |- context [?a =? ?b] => rewrite H
  | H : (?a =? ?b) = false |- context [?b =? ?a] => rewrite (N.eqb_sym b a), H
  | H : Nat.leb ?a ?b = _ |- context [Nat.leb ?a ?b] => rewrite H
  end.
Ltac okty x := match type of x with bool => idtac | option _ => idtac | list _ => idtac end.
Ltac split_var :=
  match goal with
  | |- context [match ?x with _ => _ end] => is_var x; okty x; destruct x
  | |- context [if ?x then _ else _] => is_var x; okty x; destruct x
  | H : context [match ?x with _ => _ end] |- _ => is_var x; okty x; destruct x
  | H : context [if ?x then _ else _] |- _ => is_var x; okty x; destruct x
  | H : context [negb ?x] |- _ => is_var x; okty x; destruct x
  | H : context [?x && _] |- _ => is_var x; okty x; destruct x
  | H : context [_ && ?x] |- _ => is_var x; okty x; destruct x
  | H : context [?x || _] |- _ => is_var x; okty x; destruct x
  | H : context [_ || ?x] |- _ => is_var x; okty x; destruct x
  | H : context [Nat.leb ?a ?b] |- _ => match type of H with Nat.leb a b = _ => fail 1 | _ => destruct (Nat.leb a b) eqn:? end
  | |- context [if Nat.leb ?a ?b then _ else _] => destruct (Nat.leb a b) eqn:?
  | |- context [if (?a =? ?b) then _ else _] => destruct (a =? b) eqn:?
  | H : context [if (?a =? ?b) then _ else _] |- _ => destruct (a =? b) eqn:?
  end.
Ltac unf := unfold hook_events, hook_step, requires_lookup, dispatch, capture_cp, clear_cp, clear_pull, set_mask, set_stash,
  set_pull, post_commit_is_cp, post_commit_is_amend, record_cp, rebase_from_stdin, pull_post_rewrite, checkout_core, stash_reftx,
  reset_reftx, cp_in_progress, with_seq, with_refs, with_ra, with_reset, with_stash, with_pull, with_rebase_args, with_squash, env0,
  head_update, relevant_refs, maskable, is_managed, is_terminal, effects, live, effectful, norm, carry, kind_of, ra_none, ra_pull_action, init in *.
Ltac simp1 := unf; unfold opt_eqb, is_some, nz, or_else, zero_or, is_null in *; cbn in *.
Ltac step := simp1; hyps; repeat (progress (simp1; eqs)); try reflexivity; try discriminate.
Ltac crush := step; repeat (split_var; step).
Ltac facts f := destruct f as [head ha pa proot ok rbn cphn ip ipa jact jstart jsrcs onto ups coh br utd picks origs news noise srcs mades target bw dirty stop sb sa snew sqsrc merged wl unc pp det asva mab utp].

Definition stmt c f := wf_firing c f = true -> Known_C13 c f = false ->
  effects f (fst (hook_events (git_fires c f) (pre_state c))) = effects f (wrap_events c f).
Definition stmt2 c f := wf_firing c f = true -> Known_C13 c f = false -> leaks c f = false ->
  snd (hook_events (git_fires c f) (pre_state c)) = post_state f c.


Ltac unfold_classes :=
  unfold git_fires, wrap_events, pre_state, post_state, fires_commit, fires_reset, fires_stash, fires_merge_squash,
    fires_checkout, fires_pull_ff, wrap_commit, wrap_reset, wrap_stash, wrap_merge_squash, wrap_checkout, wrap_pull in *.
Ltac simple_class := intros f Hwf HK; facts f; unfold wf_firing, Known_C13 in *; unfold_classes; crush.
Ltac simple_class2 := intros f Hwf HK HL; facts f; unfold wf_firing, Known_C13, leaks in *; unfold_classes; crush.

Lemma hook_run_app : forall rs sk a b st,
  hook_run rs sk (a ++ b) st =
  let '(e1, s1) := hook_run rs sk a st in let '(e2, s2) := hook_run rs sk b s1 in (e1 ++ e2, s2).
Proof.
  induction a; intros; cbn [hook_run app].
  - destruct (hook_run rs sk b st); reflexivity.
  - destruct (hook_step rs sk st a) as [ev st1]. rewrite IHa.
    destruct (hook_run rs sk a0 st1) as [e1 s1]. destruct (hook_run rs sk b s1) as [e2 s2].
    rewrite app_assoc. reflexivity.
Qed.

Lemma noise_step : forall rs fi st, inert_noise fi = true -> s_mask st = true ->
  hook_step rs false st fi = ([], st).
Proof.
  intros rs fi st Hi Hm. destruct fi as [n a e]. unfold inert_noise in Hi. cbn in Hi.
  apply andb_prop in Hi. destruct Hi as [Hrb Hn].
  unfold hook_step. cbn [h_name h_env h_args]. rewrite Hm, Hrb.
  destruct n; cbn; try reflexivity; try discriminate.
  (* post-rewrite that is not the final one *)
  destruct a; cbn in *; try discriminate; try reflexivity.
  destruct is_rebase; try discriminate. unfold dispatch. cbn. rewrite Hrb. destruct is_amend; reflexivity.
Qed.

Lemma noise_inert : forall rs noise st, forallb inert_noise noise = true -> s_mask st = true ->
  hook_run rs false noise st = ([], st).
Proof.
  induction noise; intros st H Hm; cbn [hook_run]; [reflexivity|].
  cbn in H. apply andb_prop in H. destruct H as [H1 H2].
  rewrite noise_step by assumption. rewrite IHnoise by assumption. reflexivity.
Qed.


Lemma effects_app : forall f a b, effects f (a ++ b) = effects f a ++ effects f b.
Proof. intros. unfold effects. rewrite filter_app, map_app. reflexivity. Qed.

Lemma tail_run : forall rs pull f st, forallb inert_noise (f_noise f) = true -> s_mask st = true ->
  hook_run rs false (rebase_tail pull f) st = hook_run rs false (tail_end pull f) st.
Proof.
  intros. unfold rebase_tail. rewrite hook_run_app, noise_inert by assumption.
  destruct (hook_run rs false (tail_end pull f) st). reflexivity.
Qed.

Lemma same_CCommit : forall f, stmt CCommit f.
Proof. simple_class. Qed.
Lemma state_CCommit : forall f, stmt2 CCommit f.
Proof. simple_class2. Qed.

Lemma same_CCommitAmend : forall f, stmt CCommitAmend f.
Proof. simple_class. Qed.
Lemma state_CCommitAmend : forall f, stmt2 CCommitAmend f.
Proof. simple_class2. Qed.

Lemma same_CCherryPickAbort : forall f, stmt CCherryPickAbort f.
Proof. simple_class. Qed.
Lemma state_CCherryPickAbort : forall f, stmt2 CCherryPickAbort f.
Proof. simple_class2. Qed.

Lemma same_CResetSoft : forall f, stmt CResetSoft f.
Proof. simple_class. Qed.
Lemma state_CResetSoft : forall f, stmt2 CResetSoft f.
Proof. simple_class2. Qed.

Lemma same_CResetMixed : forall f, stmt CResetMixed f.
Proof. simple_class. Qed.
Lemma state_CResetMixed : forall f, stmt2 CResetMixed f.
Proof. simple_class2. Qed.

Lemma same_CResetHard : forall f, stmt CResetHard f.
Proof. simple_class. Qed.
Lemma state_CResetHard : forall f, stmt2 CResetHard f.
Proof. simple_class2. Qed.

Lemma same_CResetPath : forall f, stmt CResetPath f.
Proof. simple_class. Qed.
Lemma state_CResetPath : forall f, stmt2 CResetPath f.
Proof. simple_class2. Qed.

Lemma same_CStashPush : forall f, stmt CStashPush f.
Proof. simple_class. Qed.
Lemma state_CStashPush : forall f, stmt2 CStashPush f.
Proof. simple_class2. Qed.

Lemma same_CStashPop : forall f, stmt CStashPop f.
Proof. simple_class. Qed.
Lemma state_CStashPop : forall f, stmt2 CStashPop f.
Proof. simple_class2. Qed.

Lemma same_CStashApply : forall f, stmt CStashApply f.
Proof. simple_class. Qed.
Lemma state_CStashApply : forall f, stmt2 CStashApply f.
Proof. simple_class2. Qed.

Lemma same_CStashDrop : forall f, stmt CStashDrop f.
Proof. simple_class. Qed.
Lemma state_CStashDrop : forall f, stmt2 CStashDrop f.
Proof. simple_class2. Qed.

Lemma same_CMergeSquash : forall f, stmt CMergeSquash f.
Proof. simple_class. Qed.
Lemma state_CMergeSquash : forall f, stmt2 CMergeSquash f.
Proof. simple_class2. Qed.

Lemma same_CCheckoutBranch : forall f, stmt CCheckoutBranch f.
Proof. simple_class. Qed.
Lemma state_CCheckoutBranch : forall f, stmt2 CCheckoutBranch f.
Proof. simple_class2. Qed.

Lemma same_CSwitchBranch : forall f, stmt CSwitchBranch f.
Proof. simple_class. Qed.
Lemma state_CSwitchBranch : forall f, stmt2 CSwitchBranch f.
Proof. simple_class2. Qed.

Lemma same_CCheckoutPath : forall f, stmt CCheckoutPath f.
Proof. simple_class. Qed.
Lemma state_CCheckoutPath : forall f, stmt2 CCheckoutPath f.
Proof. simple_class2. Qed.

Lemma same_CPullFF : forall f, stmt CPullFF f.
Proof. simple_class. Qed.
Lemma state_CPullFF : forall f, stmt2 CPullFF f.
Proof. simple_class2. Qed.
