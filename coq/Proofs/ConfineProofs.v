(* Proofs/ConfineProofs.v — the inventory is finite and regenerated from the source on every run: the
   classification is decided by computation and lifted to every call site with forallb_forall. *)
From Coq Require Import List NArith Bool.
From Verif Require Import Base.Str Gen.GenInternalGit Model.ConfineTables Model.Confine.
Import ListNotations.
Open Scope N_scope.

Lemma all_sites_ok : forallb site_ok gen_inventory = true.
Proof. vm_compute. reflexivity. Qed.

Theorem every_site_classified e : In e gen_inventory -> classify_site e <> Unclassified.
Proof.
  intros H E. pose proof all_sites_ok as A. rewrite forallb_forall in A. specialize (A e H).
  unfold site_ok in A. rewrite E in A. discriminate.
Qed.

(* a call site that is neither read-only, nor object-store-only, nor spelled out on git-ai's own notes refs,
   nor CI code, is one of the listed dynamic-target sites *)
Theorem writers_are_listed e :
  In e gen_inventory ->
  classify_site e = ReadOnly \/ classify_site e = ObjectStore \/ classify_site e = OwnRefsLiteral
  \/ classify_site e = CiOnly
  \/ (classify_site e = DynamicTarget /\ in_pairs (inv_file e) (inv_fn e) dynamic_sites = true).
Proof.
  intro H. pose proof (every_site_classified e H) as N.
  destruct (classify_site e) eqn:C; auto.
  - right; right; right; right. split; [reflexivity|].
    unfold classify_site in C. destruct (prefix_of ci_prefix (inv_file e)); [discriminate|].
    destruct (in_pairs (inv_file e) (inv_fn e) dynamic_sites); [reflexivity|].
    destruct (command_words 8 (inv_items e)) as [|[ | c | | | ] rest]; try discriminate.
    destruct (in_list c read_only_cmds); [discriminate|].
    destruct (in_list c object_store_cmds); [discriminate|].
    destruct rest as [|[ | w | | | ] r]; try discriminate.
    { destruct (in_list c read_only_bare); discriminate. }
    destruct (in_pairs c w read_only_forms); [|discriminate].
    destruct (prefix_of [110; 111; 116; 101; 115] c); discriminate.
  - contradiction.
Qed.

Lemma dynamic_sites_all_exist : dynamic_sites_exist = true.
Proof. vm_compute. reflexivity. Qed.

(* non-vacuity: the classes are inhabited *)
Lemma classes_inhabited :
  (0 <? count_class (fun c => match c with ReadOnly => true | _ => false end)) = true /\
  (0 <? count_class (fun c => match c with ObjectStore => true | _ => false end)) = true /\
  (0 <? count_class (fun c => match c with OwnRefsLiteral => true | _ => false end)) = true /\
  (0 <? count_class (fun c => match c with DynamicTarget => true | _ => false end)) = true.
Proof. vm_compute. repeat split. Qed.
