(* Proofs/RemapProofs.v — lemmas for C15 (Model/Remap.v). *)
From Coq Require Import List NArith Bool Lia ZifyBool ZifyN Arith.
From Verif Require Import Base.Str Base.StrFacts Gen.GenRemap Model.Remap.
Import ListNotations.
Open Scope N_scope.
Arguments N.add : simpl never.
Arguments N.sub : simpl never.
Arguments N.mul : simpl never.
Arguments N.div : simpl never.
Arguments N.modulo : simpl never.
Arguments N.eqb : simpl never.
Arguments N.ltb : simpl never.
Arguments N.leb : simpl never.

(* ================================================================== (a) comparator *)

Lemma split_first_none d s : mem d s = false -> split_first d s = None.
Proof.
  intro H. pose proof (split_first_spec d s) as S.
  destruct (split_first d s) as [[a b]|]; [|reflexivity].
  destruct S as [-> _]. rewrite mem_false_app in H. simpl in H.
  rewrite N.eqb_refl in H. rewrite orb_true_r in H. discriminate.
Qed.

Lemma hdr_char_not_nl c : hdr_char c = true -> (c =? c_nl) = false.
Proof. unfold hdr_char, is_hex, c_nl, c_sp. lia. Qed.

Lemma hdr_char_not_colon c : hdr_char c = true -> (c =? c_colon) = false.
Proof. unfold hdr_char, is_hex, c_colon, c_sp. lia. Qed.

Lemma hdr_no_nl h : forallb hdr_char h = true -> mem c_nl h = false.
Proof.
  induction h as [|c h IH]; simpl; [reflexivity|].
  intro H. apply andb_true_iff in H as [H1 H2].
  rewrite (hdr_char_not_nl _ H1), (IH H2). reflexivity.
Qed.

Lemma mem_firstn c k s : mem c s = false -> mem c (firstn k s) = false.
Proof.
  revert k. induction s as [|x s IH]; intros [|k] H; simpl; try reflexivity.
  simpl in H. apply orb_false_iff in H as [H1 H2]. rewrite H1, (IH _ H2). reflexivity.
Qed.

(* the printed output is empty or begins with a header character *)
Definition head_hdr (s : str) : Prop :=
  match s with [] => True | c :: _ => hdr_char c = true end.

Lemma print_out_head ds : out_ok ds = true -> head_hdr (print_out ds).
Proof.
  destruct ds as [|d ds]; simpl; [trivial|].
  intro H. apply andb_true_iff in H as [H _].
  unfold sec_ok, hdr_ok in H. apply andb_true_iff in H as [H _].
  apply andb_true_iff in H as [Hn Hc].
  unfold print_sec. destruct (s_header d) as [|c h]; [discriminate|].
  simpl in *. apply andb_true_iff in Hc as [Hc _]. exact Hc.
Qed.

Lemma head_hdr_firstn k s : head_hdr s -> head_hdr (firstn k s).
Proof. destruct s, k; simpl; trivial. Qed.

Lemma head_hdr_no_colon s : head_hdr s -> first_is c_colon s = false.
Proof. destruct s; simpl; [reflexivity|]. apply hdr_char_not_colon. Qed.

Lemma head_hdr_skip_nl s : head_hdr s -> skip_nl s = s.
Proof. destruct s; simpl; [reflexivity|]. intro H. rewrite (hdr_char_not_nl _ H). reflexivity. Qed.

Lemma pairs_loop_sec n h X :
  forallb hdr_char h = true ->
  pairs_loop (S n) (h ++ c_nl :: X) =
  if first_is c_colon X then None else pairs_loop n (skip_nl X).
Proof.
  intro H. cbn [pairs_loop]. rewrite (split_first_app _ _ _ (hdr_no_nl _ H)). reflexivity.
Qed.

Lemma run_loops_sec n h X :
  forallb hdr_char h = true ->
  run_loops (S n) (h ++ c_nl :: X) =
  if first_is c_colon X then false else run_loops n (skip_nl X).
Proof.
  intro H. unfold run_loops. rewrite (pairs_loop_sec _ _ _ H).
  destruct (first_is c_colon X); reflexivity.
Qed.

Lemma print_out_cons d ds :
  print_out (d :: ds) = s_header d ++ c_nl :: (print_recs (s_recs d) ++ print_out ds).
Proof.
  unfold print_out at 1. cbn [flat_map]. unfold print_sec.
  rewrite <- app_assoc. reflexivity.
Qed.

Lemma sec_ok_hdr d : sec_ok d = true -> forallb hdr_char (s_header d) = true.
Proof.
  unfold sec_ok, hdr_ok. intro H. apply andb_true_iff in H as [H _].
  apply andb_true_iff in H as [_ H]. exact H.
Qed.

Lemma print_recs_cons_colon r rs : exists Z, print_recs (r :: rs) = c_colon :: Z.
Proof. unfold print_recs. cbn [flat_map]. unfold print_rec. eexists. reflexivity. Qed.

Lemma run_all_empty ds :
  out_ok ds = true -> (forall d, In d ds -> s_recs d = []) ->
  run_loops (length ds) (print_out ds) = true.
Proof.
  induction ds as [|d ds IH]; intros Hok He.
  - reflexivity.
  - cbn [length]. rewrite print_out_cons.
    simpl in Hok. apply andb_true_iff in Hok as [Hd Hds].
    rewrite (run_loops_sec _ _ _ (sec_ok_hdr _ Hd)).
    rewrite (He d (or_introl eq_refl)). cbn [print_recs flat_map app].
    pose proof (print_out_head ds Hds) as Hh.
    rewrite (head_hdr_no_colon _ Hh), (head_hdr_skip_nl _ Hh).
    apply IH; [exact Hds|]. intros d' Hin. apply He. right. exact Hin.
Qed.

Lemma run_some_rec ds :
  out_ok ds = true -> (exists d, In d ds /\ s_recs d <> []) ->
  run_loops (length ds) (print_out ds) = false.
Proof.
  induction ds as [|d ds IH]; intros Hok [d0 [Hin Hne]].
  - destruct Hin.
  - cbn [length]. rewrite print_out_cons.
    simpl in Hok. apply andb_true_iff in Hok as [Hd Hds].
    rewrite (run_loops_sec _ _ _ (sec_ok_hdr _ Hd)).
    destruct (s_recs d) as [|r rs] eqn:Er.
    + cbn [print_recs flat_map app].
      pose proof (print_out_head ds Hds) as Hh.
      rewrite (head_hdr_no_colon _ Hh), (head_hdr_skip_nl _ Hh).
      apply IH; [exact Hds|]. destruct Hin as [<-|Hin].
      * congruence.
      * exists d0. split; assumption.
    + destruct (print_recs_cons_colon r rs) as [Z ->]. reflexivity.
Qed.

Lemma all_empty_dec (ds : list dsec) :
  (forall d, In d ds -> s_recs d = []) \/ (exists d, In d ds /\ s_recs d <> []).
Proof.
  induction ds as [|d ds [IH|[d0 [Hin Hne]]]].
  - left. intros d [].
  - destruct (s_recs d) eqn:E.
    + left. intros d' [<-|Hin]; [exact E|apply IH; exact Hin].
    + right. exists d. split; [left; reflexivity|]. rewrite E. discriminate.
  - right. exists d0. split; [right; exact Hin|exact Hne].
Qed.

Lemma matches_run out n : n <> O -> matches out n = run_loops n out.
Proof. destruct n; [congruence|reflexivity]. Qed.

Lemma comparator_plain ds :
  out_ok ds = true ->
  (matches (print_out ds) (length ds) = true <-> forall d, In d ds -> s_recs d = []).
Proof.
  intro Hok. split.
  - intro Hm. destruct (all_empty_dec ds) as [H|H]; [exact H|].
    destruct ds as [|d ds]; [destruct H as [? [[] _]]|].
    rewrite matches_run in Hm by discriminate.
    rewrite (run_some_rec _ Hok H) in Hm. discriminate.
  - intro He. destruct ds as [|d ds]; [reflexivity|].
    rewrite matches_run by discriminate. apply run_all_empty; assumption.
Qed.

(* ---------- git's pathspec limiting ---------- *)
Lemma limit_length tracked ds : length (limit tracked ds) = length ds.
Proof. apply map_length. Qed.

Lemma forallb_filter {A} (f g : A -> bool) l :
  forallb f l = true -> forallb f (filter g l) = true.
Proof.
  induction l as [|x l IH]; simpl; [reflexivity|].
  intro H. apply andb_true_iff in H as [H1 H2].
  destruct (g x); simpl; [rewrite H1|]; auto.
Qed.

Lemma limit_ok tracked ds : out_ok ds = true -> out_ok (limit tracked ds) = true.
Proof.
  induction ds as [|d ds IH]; simpl; [reflexivity|].
  intro H. apply andb_true_iff in H as [Hd Hds]. rewrite (IH Hds), andb_true_r.
  unfold sec_ok in *. simpl. apply andb_true_iff in Hd as [Hh Hr].
  rewrite Hh. simpl. apply forallb_filter. exact Hr.
Qed.

Lemma filter_nil_iff {A} (f : A -> bool) l :
  filter f l = [] <-> forall x, In x l -> f x = false.
Proof.
  induction l as [|x l IH]; simpl.
  - split; [intros _ ? []|reflexivity].
  - destruct (f x) eqn:E.
    + split; [discriminate|]. intro H. rewrite (H x (or_introl eq_refl)) in E. discriminate.
    + rewrite IH. split.
      * intros H y [<-|Hy]; [exact E|apply H; exact Hy].
      * intros H y Hy. apply H. right. exact Hy.
Qed.

Theorem comparator_sound ds tracked :
  out_ok ds = true ->
  (matches (print_out (limit tracked ds)) (length ds) = true <->
   forall d r, In d ds -> In r (s_recs d) -> touches tracked r = false).
Proof.
  intro Hok. rewrite <- (limit_length tracked ds).
  rewrite (comparator_plain _ (limit_ok tracked _ Hok)).
  unfold limit. split.
  - intros H d r Hd Hr.
    specialize (H _ (in_map _ _ _ Hd)). simpl in H.
    apply (proj1 (filter_nil_iff _ _) H). exact Hr.
  - intros H d' Hd'. apply in_map_iff in Hd' as [d [<- Hd]]. simpl.
    apply filter_nil_iff. intros r Hr. apply (H d r Hd Hr).
Qed.

(* ---------- decline on short / truncated output ---------- *)
Lemma count_nl_app a b : count_nl (a ++ b) = (count_nl a + count_nl b)%nat.
Proof.
  induction a as [|c a IH]; simpl; [reflexivity|].
  destruct (c =? c_nl); simpl; rewrite IH; reflexivity.
Qed.

Lemma count_nl_nomem a : mem c_nl a = false -> count_nl a = O.
Proof.
  induction a as [|c a IH]; simpl; [reflexivity|].
  intro H. apply orb_false_iff in H as [H1 H2]. rewrite H1. apply IH. exact H2.
Qed.

Lemma count_nl_skip s : (count_nl (skip_nl s) <= count_nl s)%nat.
Proof.
  induction s as [|c s IH]; simpl; [lia|].
  destruct (c =? c_nl) eqn:E; simpl; [lia|]. rewrite E. lia.
Qed.

Lemma pairs_loop_short n : forall out, (count_nl out < n)%nat -> pairs_loop n out = None.
Proof.
  induction n as [|n IH]; intros out H; [lia|].
  cbn [pairs_loop]. pose proof (split_first_spec c_nl out) as S.
  destruct (split_first c_nl out) as [[a rest]|]; [|reflexivity].
  destruct S as [-> Ha].
  rewrite count_nl_app in H. simpl in H.
  rewrite (count_nl_nomem _ Ha) in H.
  destruct (first_is c_colon rest); [reflexivity|].
  apply IH. pose proof (count_nl_skip rest). lia.
Qed.

Theorem decline_safe out n : (count_nl out < n)%nat -> matches out n = false.
Proof.
  intro H. destruct n; [lia|]. rewrite matches_run by discriminate.
  unfold run_loops. rewrite (pairs_loop_short _ _ H). reflexivity.
Qed.

Lemma firstn_app_cons {A} (h : list A) c Y k :
  firstn (length h + S k) (h ++ c :: Y) = h ++ c :: firstn k Y.
Proof. induction h as [|x h IH]; simpl; [reflexivity|]. rewrite IH. reflexivity. Qed.

Lemma firstn_short {A} (h X : list A) k : (k <= length h)%nat -> firstn k (h ++ X) = firstn k h.
Proof.
  revert k. induction h as [|x h IH]; intros [|k] H; simpl in *; try reflexivity; try lia.
  rewrite IH by lia. reflexivity.
Qed.

Lemma trunc_run ds : forall k,
  out_ok ds = true ->
  run_loops (length ds) (firstn k (print_out ds)) = true ->
  firstn k (print_out ds) = print_out (map headers_only ds).
Proof.
  induction ds as [|d ds IH]; intros k Hok Hr.
  - simpl. destruct k; reflexivity.
  - simpl in Hok. apply andb_true_iff in Hok as [Hd Hds].
    pose proof (sec_ok_hdr _ Hd) as Hh.
    cbn [map]. rewrite (print_out_cons (headers_only d)). cbn [headers_only s_header s_recs print_recs flat_map app].
    rewrite print_out_cons in *. cbn [length] in Hr.
    destruct (Nat.le_gt_cases k (length (s_header d))) as [Hk|Hk].
    + (* cut inside the first header: no newline at all *)
      rewrite firstn_short in Hr by exact Hk.
      unfold run_loops in Hr. cbn [pairs_loop] in Hr.
      rewrite (split_first_none _ _ (mem_firstn _ k _ (hdr_no_nl _ Hh))) in Hr. discriminate.
    + replace k with (length (s_header d) + S (k - length (s_header d) - 1))%nat in * by lia.
      set (k' := (k - length (s_header d) - 1)%nat) in *.
      rewrite firstn_app_cons in *.
      rewrite (run_loops_sec _ _ _ Hh) in Hr.
      destruct (s_recs d) as [|r rs] eqn:Er.
      * cbn [print_recs flat_map app] in *.
        pose proof (head_hdr_firstn k' _ (print_out_head ds Hds)) as Hf.
        rewrite (head_hdr_no_colon _ Hf), (head_hdr_skip_nl _ Hf) in Hr.
        rewrite (IH k' Hds Hr). reflexivity.
      * destruct (print_recs_cons_colon r rs) as [Z EZ]. rewrite EZ in *.
        destruct k' as [|k''].
        -- cbn [app firstn] in *. cbn [first_is skip_nl] in Hr.
           destruct ds as [|d' ds].
           ++ reflexivity.
           ++ unfold run_loops in Hr. cbn [length pairs_loop split_first] in Hr. discriminate.
        -- cbn [app firstn first_is] in Hr. rewrite N.eqb_refl in Hr. discriminate.
Qed.

Theorem truncation_safe ds k :
  out_ok ds = true ->
  matches (firstn k (print_out ds)) (length ds) = true ->
  firstn k (print_out ds) = print_out (map headers_only ds).
Proof.
  intros Hok Hm. destruct ds as [|d ds].
  - simpl. destruct k; reflexivity.
  - rewrite matches_run in Hm by discriminate. apply trunc_run; assumption.
Qed.

(* ---------- the printed format parses back ---------- *)
Lemma field_no_sp s : field_ok s = true -> mem c_sp s = false.
Proof.
  induction s as [|c s IH]; simpl; [reflexivity|].
  intro H. apply andb_true_iff in H as [H1 H2]. rewrite (IH H2), orb_false_r.
  unfold field_char in H1. apply andb_true_iff in H1 as [H1 _].
  apply negb_true_iff in H1. exact H1.
Qed.

Lemma field_no_nul s : field_ok s = true -> mem c_nul s = false.
Proof.
  induction s as [|c s IH]; simpl; [reflexivity|].
  intro H. apply andb_true_iff in H as [H1 H2]. rewrite (IH H2), orb_false_r.
  unfold field_char in H1. apply andb_true_iff in H1 as [_ H1].
  apply negb_true_iff in H1. exact H1.
Qed.

Lemma path_no_nul s : path_ok s = true -> mem c_nul s = false.
Proof.
  induction s as [|c s IH]; simpl; [reflexivity|].
  intro H. apply andb_true_iff in H as [H1 H2]. rewrite (IH H2), orb_false_r.
  unfold path_char in H1. apply negb_true_iff in H1. exact H1.
Qed.

Lemma mem_cons c x s : mem c (x :: s) = (x =? c) || mem c s.
Proof. reflexivity. Qed.

Lemma parse_rec_print r rest :
  rec_ok r = true ->
  parse_rec (rec_meta r ++ c_nul :: r_path r ++ c_nul :: rec_tail r ++ rest) = Some (r, rest).
Proof.
  destruct r as [a b c d e p1 p2]. unfold rec_ok, rec_meta, rec_tail. cbn [r_omode r_nmode r_ooid r_noid r_status r_path r_path2].
  intro H.
  apply andb_true_iff in H as [H H7]. apply andb_true_iff in H as [H H6].
  apply andb_true_iff in H as [H H5]. apply andb_true_iff in H as [H H4].
  apply andb_true_iff in H as [H H3]. apply andb_true_iff in H as [H1 H2].
  unfold parse_rec.
  assert (Hm : mem c_nul (a ++ c_sp :: b ++ c_sp :: c ++ c_sp :: d ++ c_sp :: e) = false).
  { repeat (rewrite mem_false_app || rewrite mem_cons).
    rewrite (field_no_nul _ H1), (field_no_nul _ H2), (field_no_nul _ H3), (field_no_nul _ H4),
      (field_no_nul _ H5). reflexivity. }
  rewrite (split_first_app _ _ _ Hm).
  rewrite (split_first_app _ _ _ (field_no_sp _ H1)).
  rewrite (split_first_app _ _ _ (field_no_sp _ H2)).
  rewrite (split_first_app _ _ _ (field_no_sp _ H3)).
  rewrite (split_first_app _ _ _ (field_no_sp _ H4)).
  rewrite (field_no_sp _ H5).
  rewrite (split_first_app _ _ _ (path_no_nul _ H6)).
  destruct p2 as [p2|].
  - apply andb_true_iff in H7 as [Ht Hp]. rewrite Ht.
    rewrite <- app_assoc. cbn [app].
    rewrite (split_first_app _ _ _ (path_no_nul _ Hp)). reflexivity.
  - apply negb_true_iff in H7. rewrite H7. reflexivity.
Qed.

Lemma print_rec_app r X :
  print_rec r ++ X = c_colon :: (rec_meta r ++ c_nul :: r_path r ++ c_nul :: rec_tail r ++ X).
Proof.
  unfold print_rec. cbn [app]. rewrite <- app_assoc. cbn [app].
  rewrite <- app_assoc. cbn [app]. reflexivity.
Qed.

Lemma parse_recs_print rs : forall fuel rest,
  forallb rec_ok rs = true -> first_is c_colon rest = false -> (length rs < fuel)%nat ->
  parse_recs fuel (print_recs rs ++ rest) = Some (rs, rest).
Proof.
  induction rs as [|r rs IH]; intros fuel rest Hok Hc Hf.
  - destruct fuel as [|f]; [lia|]. cbn [print_recs flat_map app parse_recs].
    destruct rest as [|c s]; [reflexivity|]. simpl in Hc. rewrite Hc. reflexivity.
  - destruct fuel as [|f]; [simpl in Hf; lia|].
    simpl in Hok. apply andb_true_iff in Hok as [Hr Hrs].
    unfold print_recs. cbn [flat_map]. rewrite <- app_assoc. rewrite print_rec_app.
    cbn [parse_recs]. rewrite N.eqb_refl.
    rewrite (parse_rec_print _ _ Hr).
    fold (print_recs rs). rewrite (IH f rest Hrs Hc) by (simpl in Hf; lia). reflexivity.
Qed.

Lemma print_recs_length rs : (length rs <= length (print_recs rs))%nat.
Proof.
  induction rs as [|r rs IH]; [simpl; lia|].
  unfold print_recs in *. cbn [flat_map length]. rewrite app_length.
  unfold print_rec at 1. cbn [length]. lia.
Qed.

Lemma parse_secs_print ds : forall fuel,
  out_ok ds = true -> (length ds < fuel)%nat -> parse_secs fuel (print_out ds) = Some ds.
Proof.
  induction ds as [|d ds IH]; intros fuel Hok Hf.
  - destruct fuel; [lia|]. reflexivity.
  - destruct fuel as [|f]; [simpl in Hf; lia|].
    simpl in Hok. apply andb_true_iff in Hok as [Hd Hds].
    pose proof (sec_ok_hdr _ Hd) as Hh.
    rewrite print_out_cons. cbn [parse_secs].
    rewrite (split_first_app _ _ _ (hdr_no_nl _ Hh)).
    assert (Hne : exists c s, s_header d ++ c_nl :: print_recs (s_recs d) ++ print_out ds = c :: s).
    { destruct (s_header d); simpl; eauto. }
    destruct Hne as [c0 [s0 E0]]. rewrite E0.
    unfold sec_ok in Hd. apply andb_true_iff in Hd as [_ Hr].
    rewrite (parse_recs_print _ _ _ Hr (head_hdr_no_colon _ (print_out_head _ Hds))).
    + rewrite (IH f Hds) by (simpl in Hf; lia). destruct d; reflexivity.
    + rewrite app_length. pose proof (print_recs_length (s_recs d)). lia.
Qed.

Lemma print_out_length ds : (length ds <= length (print_out ds))%nat.
Proof.
  induction ds as [|d ds IH]; [simpl; lia|].
  rewrite print_out_cons. rewrite app_length. simpl. rewrite app_length. simpl in *. lia.
Qed.

Theorem print_parse ds : out_ok ds = true -> parse_out (print_out ds) = Some ds.
Proof.
  intro H. unfold parse_out. apply parse_secs_print; [exact H|].
  pose proof (print_out_length ds). lia.
Qed.

(* ================================================================== (c) the shortcut declines *)
Lemma core_declines fb pairs tracked out notes :
  matches out (length pairs) = false -> fast_path_core fb pairs tracked out notes = None.
Proof.
  intro H. unfold fast_path_core. destruct pairs; [reflexivity|]. rewrite H. reflexivity.
Qed.

Lemma some_touch_matches_false ds tracked n :
  out_ok ds = true -> length ds = n ->
  (exists d r, In d ds /\ In r (s_recs d) /\ touches tracked r = true) ->
  matches (print_out (limit tracked ds)) n = false.
Proof.
  intros Hok <- [d [r [Hd [Hr Ht]]]].
  destruct (matches (print_out (limit tracked ds)) (length ds)) eqn:E; [|reflexivity].
  pose proof (proj1 (comparator_sound _ tracked Hok) E) as E'. rewrite (E' d r Hd Hr) in Ht. discriminate.
Qed.

Theorem partial_pairs_decline fb tracked notes ds :
  out_ok ds = true ->
  (exists d r, In d ds /\ In r (s_recs d) /\ touches tracked r = true) ->
  (forall pairs, length pairs = length ds ->
     fast_path_cherry fb pairs tracked (print_out (limit tracked ds)) notes = None) /\
  (forall orig new to_process n_to_process,
     length (filter (fun p => to_process (snd p)) (combine orig new)) = length ds ->
     fast_path_rebase fb orig new to_process n_to_process tracked
                      (print_out (limit tracked ds)) notes = None).
Proof.
  intros Hok Hex. split.
  - intros pairs Hl. unfold fast_path_cherry.
    destruct pairs; [reflexivity|]. destruct tracked; [reflexivity|].
    apply core_declines. apply some_touch_matches_false; auto.
  - intros orig new tp ntp Hl. unfold fast_path_rebase.
    destruct (negb (Nat.eqb (length orig) (length new))); [reflexivity|].
    destruct tracked eqn:Et; [reflexivity|]. rewrite <- Et in *.
    destruct ntp; [reflexivity|].
    apply core_declines. apply some_touch_matches_false; auto.
Qed.

(* when the shortcut does write, it writes one remapped original note per pair *)
Lemma lookup_notes_spec notes pairs l :
  lookup_notes notes pairs = Some l ->
  map fst l = map snd pairs /\
  Forall2 (fun p e => notes (fst p) = Some (snd e)) pairs l.
Proof.
  revert l. induction pairs as [|p pairs IH]; intros l H; simpl in H.
  - inversion H. split; constructor.
  - destruct (notes (fst p)) eqn:En; [|discriminate].
    destruct (lookup_notes notes pairs) as [l'|]; [|discriminate].
    inversion H; subst. destruct (IH l' eq_refl) as [H1 H2].
    split; [simpl; rewrite H1; reflexivity|]. constructor; [simpl; exact En|exact H2].
Qed.

Theorem shortcut_writes fb pairs tracked out notes ws :
  fast_path_core fb pairs tracked out notes = Some ws ->
  matches out (length pairs) = true /\
  map fst ws = map snd pairs /\
  Forall2 (fun p w => exists n, notes (fst p) = Some n /\ snd w = remap_note fb n (snd p)) pairs ws.
Proof.
  unfold fast_path_core. destruct pairs as [|p0 pairs0] eqn:Ep; [discriminate|]. rewrite <- Ep.
  destruct (matches out (length pairs)); [|discriminate]. simpl.
  destruct (lookup_notes notes pairs) as [l|] eqn:El; [|discriminate].
  intro H. inversion H; subst ws. clear H.
  destruct (lookup_notes_spec _ _ _ El) as [H1 H2].
  split; [reflexivity|]. split.
  - rewrite map_map. simpl. exact H1.
  - clear El Ep. revert l H1 H2. generalize pairs. clear.
    induction pairs as [|p ps IH]; intros l H1 H2; inversion H2; subst; simpl; constructor.
    + simpl in H1. inversion H1. exists (snd y). split; [assumption|]. simpl. rewrite H0. reflexivity.
    + apply IH; [simpl in H1; inversion H1; reflexivity|assumption].
Qed.

(* ================================================================== (b) remap *)
Lemma starts_with_app p s : starts_with p (p ++ s) = true.
Proof. induction p as [|x p IH]; simpl; [reflexivity|]. rewrite N.eqb_refl. exact IH. Qed.

Lemma skipn_app_len {A} (p s : list A) : skipn (length p) (p ++ s) = s.
Proof. induction p; simpl; auto. Qed.

Lemma find_split_eq p s :
  find_split p s =
  if starts_with p s then Some ([], skipn (length p) s)
  else match s with
       | [] => None
       | c :: s' => match find_split p s' with Some (a, b) => Some (c :: a, b) | None => None end
       end.
Proof. destruct s; reflexivity. Qed.

Lemma find_split_here p r : find_split p (p ++ r) = Some ([], r).
Proof. rewrite find_split_eq, starts_with_app, skipn_app_len. reflexivity. Qed.

Lemma find_split_pre a : forall rest,
  no_marker_start a rest = true ->
  find_split marker (a ++ rest) =
  match find_split marker rest with Some (p, r) => Some (a ++ p, r) | None => None end.
Proof.
  induction a as [|c a IH]; intros rest H.
  - simpl. destruct (find_split marker rest) as [[p r]|]; reflexivity.
  - cbn [no_marker_start] in H. apply andb_true_iff in H as [H1 H2].
    apply negb_true_iff in H1.
    rewrite find_split_eq. rewrite H1. cbn [app]. rewrite (IH _ H2).
    destruct (find_split marker rest) as [[p r]|]; reflexivity.
Qed.

Definition head_not_ws (x : str) : Prop :=
  match x with c :: _ => is_json_ws c = false | [] => True end.

Lemma span_ws_app w x :
  forallb is_json_ws w = true -> head_not_ws x -> span_ws (w ++ x) = (w, x).
Proof.
  induction w as [|c w IH]; intros Hw Hx.
  - simpl. destruct x as [|c x]; [reflexivity|]. simpl in *. rewrite Hx. reflexivity.
  - simpl in Hw. apply andb_true_iff in Hw as [H1 H2].
    cbn [app span_ws]. rewrite H1, (IH H2 Hx). reflexivity.
Qed.

Lemma scan_value_body_aux n : forall v post,
  (length v <= n)%nat -> esc_body v = true ->
  scan_value (v ++ c_dq :: post) = Some (v, c_dq :: post).
Proof.
  induction n as [|n IH]; intros v post Hl He.
  - destruct v; [|simpl in Hl; lia]. reflexivity.
  - destruct v as [|c v]; [reflexivity|].
    cbn [esc_body] in He. cbn [app scan_value].
    destruct (c =? c_bsl) eqn:Eb.
    + destruct v as [|d v]; [discriminate|]. cbn [app].
      rewrite (IH v post) by (simpl in Hl; auto; lia). reflexivity.
    + destruct (c =? c_dq) eqn:Eq; [discriminate|].
      rewrite (IH v post) by (simpl in Hl; auto; lia). reflexivity.
Qed.

Lemma scan_value_body v post :
  esc_body v = true -> scan_value (v ++ c_dq :: post) = Some (v, c_dq :: post).
Proof. apply (scan_value_body_aux (length v)). lia. Qed.

Definition note_shape (pre w1 w2 v post : str) : str :=
  pre ++ marker ++ w1 ++ c_colon :: w2 ++ c_dq :: v ++ c_dq :: post.

Theorem remap_field_only pre w1 w2 v post t :
  no_marker_start pre (marker ++ w1 ++ c_colon :: w2 ++ c_dq :: v ++ c_dq :: post) = true ->
  forallb is_json_ws w1 = true -> forallb is_json_ws w2 = true -> esc_body v = true ->
  remap_in (note_shape pre w1 w2 v post) t = Some (note_shape pre w1 w2 t post).
Proof.
  intros Hp H1 H2 Hv. unfold remap_in, note_shape.
  rewrite (find_split_pre _ _ Hp), find_split_here.
  rewrite (span_ws_app w1 _ H1) by reflexivity.
  unfold c_colon at 1. rewrite N.eqb_refl.
  rewrite (span_ws_app w2 _ H2) by reflexivity.
  unfold c_dq at 1. rewrite N.eqb_refl.
  rewrite (scan_value_body _ _ Hv). rewrite app_nil_r. reflexivity.
Qed.

Lemma try_remap_pre a md t :
  no_marker_start a md = true ->
  remap_in (a ++ md) t = match remap_in md t with Some r => Some (a ++ r) | None => None end.
Proof.
  intro H. unfold remap_in. rewrite (find_split_pre _ _ H).
  destruct (find_split marker md) as [[p r0]|]; [|reflexivity].
  destruct (span_ws r0) as [w1 r1]. destruct r1 as [|c r2]; [reflexivity|].
  destruct (c =? c_colon); [|reflexivity].
  destruct (span_ws r2) as [w2 r3]. destruct r3 as [|q r4]; [reflexivity|].
  destruct (q =? c_dq); [|reflexivity].
  destruct (scan_value r4) as [[v r5]|]; [|reflexivity].
  rewrite <- app_assoc. reflexivity.
Qed.

Lemma try_remap_indep md t1 t2 :
  remap_in md t1 <> None -> remap_in md t2 <> None.
Proof.
  unfold remap_in.
  destruct (find_split marker md) as [[p r0]|]; [|auto].
  destruct (span_ws r0) as [w1 r1]. destruct r1 as [|c r2]; [auto|].
  destruct (c =? c_colon); [|auto].
  destruct (span_ws r2) as [w2 r3]. destruct r3 as [|q r4]; [auto|].
  destruct (q =? c_dq); [|auto].
  destruct (scan_value r4) as [[v r5]|]; [|auto].
  intros _. discriminate.
Qed.

Lemma split_div_sound fuel : forall s a b, split_div fuel s = Some (a, b) -> s = a ++ b.
Proof.
  induction fuel as [|f IH]; intros s a b H; [discriminate|].
  cbn [split_div] in H. pose proof (split_first_spec c_nl s) as S.
  destruct (split_first c_nl s) as [[l rest]|]; [|discriminate].
  destruct S as [-> _].
  destruct (str_eqb l divider).
  - inversion H; subst. rewrite <- app_assoc. reflexivity.
  - destruct (split_div f rest) as [[a' b']|] eqn:E; [|discriminate].
    inversion H; subst. rewrite (IH _ _ _ E). rewrite <- app_assoc. reflexivity.
Qed.

Theorem remap_base_only s t : wf_note s = true -> remap_in s t = Some (replace_base s t).
Proof.
  unfold wf_note, replace_base, split_note.
  destruct (split_div (S (length s)) s) as [[att md]|] eqn:E; [|discriminate].
  intro H. apply andb_true_iff in H as [Hn Hr].
  pose proof (split_div_sound _ _ _ _ E) as ->.
  rewrite (try_remap_pre _ _ _ Hn).
  assert (Hs : remap_in md t <> None).
  { apply (try_remap_indep md []). destruct (remap_in md []); [discriminate|discriminate]. }
  destruct (remap_in md t); [reflexivity|congruence].
Qed.

(* ---------- the repaired shape: search below the first divider line ---------- *)
Lemma starts_div_line l rest :
  mem c_nl l = false -> starts_with div_line (l ++ c_nl :: rest) = str_eqb l divider.
Proof.
  unfold div_line, divider, c_nl.
  destruct l as [|a [|b [|c [|d l]]]]; cbn [app starts_with str_eqb mem]; intro H; try lia.
Qed.

Lemma starts_div_no_nl s : mem c_nl s = false -> starts_with div_line s = false.
Proof.
  unfold div_line, c_nl.
  destruct s as [|a [|b [|c [|d s]]]]; cbn [starts_with mem]; intro H; try reflexivity; lia.
Qed.

Lemma find_split_nl_none s : mem c_nl s = false -> find_split nl_div_line s = None.
Proof.
  induction s as [|c s IH]; intro H.
  - reflexivity.
  - cbn [mem] in H. apply orb_false_iff in H as [H1 H2].
    rewrite find_split_eq. unfold nl_div_line at 1. cbn [starts_with].
    replace (10 =? c) with false by (unfold c_nl in H1; lia). cbn [andb].
    rewrite (IH H2). reflexivity.
Qed.

Lemma find_split_line l : forall rest,
  mem c_nl l = false ->
  find_split nl_div_line (l ++ c_nl :: rest) =
  if starts_with div_line rest then Some (l, skipn (length div_line) rest)
  else match find_split nl_div_line rest with
       | Some (a, b) => Some (l ++ c_nl :: a, b)
       | None => None
       end.
Proof.
  induction l as [|c l IH]; intros rest H.
  - cbn [app]. rewrite find_split_eq. unfold nl_div_line at 1 2. cbn [starts_with length skipn].
    unfold c_nl at 1. rewrite N.eqb_refl. cbn [andb].
    destruct (starts_with div_line rest); [reflexivity|].
    fold nl_div_line. destruct (find_split nl_div_line rest) as [[a b]|]; reflexivity.
  - cbn [mem] in H. apply orb_false_iff in H as [H1 H2].
    cbn [app]. rewrite find_split_eq. unfold nl_div_line at 1. cbn [starts_with].
    replace (10 =? c) with false by (unfold c_nl in H1; lia). cbn [andb].
    rewrite (IH rest H2).
    destruct (starts_with div_line rest); [reflexivity|].
    destruct (find_split nl_div_line rest) as [[a b]|]; reflexivity.
Qed.

(* the position the repaired code computes is the first LF-terminated line of three dashes *)
Lemma split_div_meta fuel : forall s, (length s < fuel)%nat -> split_div fuel s = meta_split s.
Proof.
  induction fuel as [|f IH]; intros s Hl; [lia|].
  cbn [split_div]. pose proof (split_first_spec c_nl s) as S.
  destruct (split_first c_nl s) as [[l rest]|].
  - destruct S as [-> Hm]. unfold meta_split.
    rewrite (starts_div_line _ _ Hm).
    destruct (str_eqb l divider) eqn:E.
    + apply str_eqb_eq in E. subst l. reflexivity.
    + rewrite (find_split_line _ _ Hm).
      rewrite IH by (rewrite app_length in Hl; simpl in Hl; lia).
      unfold meta_split.
      destruct (starts_with div_line rest).
      * reflexivity.
      * destruct (find_split nl_div_line rest) as [[a b]|]; [|reflexivity].
        rewrite <- app_assoc. reflexivity.
  - unfold meta_split. rewrite (starts_div_no_nl _ S), (find_split_nl_none _ S). reflexivity.
Qed.

Lemma meta_split_note s : meta_split s = split_note s.
Proof. unfold split_note. symmetry. apply split_div_meta. lia. Qed.

Theorem scoped_base_only s t :
  has_base_field s = true -> try_remap_scoped s t = Some (replace_base s t).
Proof.
  unfold has_base_field, try_remap_scoped, replace_base. rewrite meta_split_note.
  destruct (split_note s) as [[att md]|]; [|discriminate].
  intro H.
  assert (Hs : remap_in md t <> None).
  { apply (try_remap_indep md []). destruct (remap_in md []); [discriminate|discriminate]. }
  destruct (remap_in md t); [reflexivity|congruence].
Qed.

Theorem scoped_no_divider s t : split_note s = None -> try_remap_scoped s t = None.
Proof. intro H. unfold try_remap_scoped. rewrite meta_split_note, H. reflexivity. Qed.

Lemma wf_has_field s : wf_note s = true -> has_base_field s = true.
Proof.
  unfold wf_note, has_base_field. destruct (split_note s) as [[att md]|]; [|discriminate].
  intro H. apply andb_true_iff in H as [_ H]. exact H.
Qed.

(* whichever of the two shapes the source has *)
Theorem remap_note_base_only fb s t : wf_note s = true -> remap_note fb s t = replace_base s t.
Proof.
  intro H. unfold remap_note, try_remap. destruct remap_below_divider.
  - rewrite (scoped_base_only _ _ (wf_has_field _ H)). reflexivity.
  - rewrite (remap_base_only _ _ H). reflexivity.
Qed.

(* the repaired shape needs no condition on the attestation section *)
Theorem remap_note_scoped fb s t :
  remap_below_divider = true -> has_base_field s = true -> remap_note fb s t = replace_base s t.
Proof.
  intros Hs H. unfold remap_note, try_remap. rewrite Hs.
  rewrite (scoped_base_only _ _ H). reflexivity.
Qed.


(* ================================================================== (d) commit-object header scan *)
Lemma strip_prefix_app p s : strip_prefix p (p ++ s) = Some s.
Proof. induction p as [|x p IH]; simpl; [reflexivity|]. rewrite N.eqb_refl. exact IH. Qed.

Lemma hex_not_ws c : is_hex c = true -> is_ws c = false.
Proof. unfold is_hex, is_ws. lia. Qed.

Lemma hex_trim_end s : forallb is_hex s = true -> trim_end s = s.
Proof.
  induction s as [|c s IH]; simpl; [reflexivity|].
  intro H. apply andb_true_iff in H as [H1 H2]. rewrite (IH H2).
  destruct s; [rewrite (hex_not_ws _ H1)|]; reflexivity.
Qed.

Lemma hex_trim s : forallb is_hex s = true -> trim s = s.
Proof.
  intro H. unfold trim. rewrite (hex_trim_end _ H).
  destruct s as [|c s]; [reflexivity|]. simpl in *. apply andb_true_iff in H as [H _].
  rewrite (hex_not_ws _ H). reflexivity.
Qed.

Lemma hex_no c s : (forall x, is_hex x = true -> (x =? c) = false) -> forallb is_hex s = true -> mem c s = false.
Proof.
  intros Hc. induction s as [|x s IH]; simpl; [reflexivity|].
  intro H. apply andb_true_iff in H as [H1 H2]. rewrite (Hc _ H1), (IH H2). reflexivity.
Qed.

Lemma hex_no_nl s : forallb is_hex s = true -> mem c_nl s = false.
Proof. apply hex_no. intros x. unfold is_hex, c_nl. lia. Qed.

Lemma hex_no_cr s : forallb is_hex s = true -> mem c_cr s = false.
Proof. apply hex_no. intros x. unfold is_hex, c_cr. lia. Qed.

Lemma line_plain kw s :
  mem c_nl kw = false -> mem c_cr kw = false -> forallb is_hex s = true ->
  mem c_nl (kw ++ s) = false /\ strip_cr (kw ++ s) = kw ++ s.
Proof.
  intros H1 H2 H. split.
  - rewrite mem_false_app, H1, (hex_no_nl _ H). reflexivity.
  - apply strip_cr_id. destruct (last_is c_cr (kw ++ s)) eqn:E; [|reflexivity].
    apply last_is_mem in E. rewrite mem_false_app, H2, (hex_no_cr _ H) in E. discriminate.
Qed.

(* the parsed tree / first parent are those of the header, whatever follows the two lines
   (other headers, the message): the scan with the early exit never reads past the parent line *)
Theorem meta_header T P rest :
  oid_ok T = true -> oid_ok P = true ->
  let content := meta_kw_tree ++ T ++ c_nl :: meta_kw_parent ++ P ++ c_nl :: rest in
  commit_meta_gen true content = (T, Some P) /\ header_meta content = (T, Some P).
Proof.
  unfold oid_ok. intros HT HP.
  apply andb_true_iff in HT as [HTn HT]. apply andb_true_iff in HP as [HPn HP].
  cbv zeta.
  destruct (line_plain meta_kw_tree T eq_refl eq_refl HT) as [A1 A2].
  destruct (line_plain meta_kw_parent P eq_refl eq_refl HP) as [B1 B2].
  assert (EL : lines (meta_kw_tree ++ T ++ c_nl :: meta_kw_parent ++ P ++ c_nl :: rest)
               = (meta_kw_tree ++ T) :: (meta_kw_parent ++ P) :: lines rest).
  { rewrite app_assoc. rewrite (lines_cons _ _ A1), A2.
    rewrite app_assoc. rewrite (lines_cons _ _ B1), B2. reflexivity. }
  assert (NT : strip_prefix meta_kw_tree (meta_kw_parent ++ P) = None) by reflexivity.
  assert (NP : strip_prefix meta_kw_parent (meta_kw_tree ++ T) = None) by reflexivity.
  split.
  - assert (S1 : meta_step (meta_kw_tree ++ T) ([], None) = (T, None)).
    { unfold meta_step. rewrite strip_prefix_app, (hex_trim _ HT). reflexivity. }
    assert (S2 : meta_step (meta_kw_parent ++ P) (T, None) = (T, Some P)).
    { unfold meta_step. rewrite NT, strip_prefix_app, (hex_trim _ HP). reflexivity. }
    unfold commit_meta_gen. rewrite EL. cbn [scan_meta]. rewrite S1.
    cbn [fst snd is_some andb]. rewrite andb_false_r. rewrite S2.
    cbn [fst snd is_some andb]. rewrite HTn. reflexivity.
  - unfold header_meta. rewrite EL. cbn [header_lines].
    assert (N1 : nonempty (meta_kw_tree ++ T) = true) by reflexivity.
    assert (N2 : nonempty (meta_kw_parent ++ P) = true) by reflexivity.
    rewrite N1, N2. cbn [first_with].
    rewrite strip_prefix_app, NP, strip_prefix_app, (hex_trim _ HT), (hex_trim _ HP). reflexivity.
Qed.

Definition wit_root_commit : str := [116; 114; 101; 101; 32; 97; 97; 97; 97; 97; 97; 97; 97; 97; 97; 97; 97; 97; 97; 97; 97; 97; 97; 97; 97; 97; 97; 97; 97; 97; 97; 97; 97; 97; 97; 97; 97; 97; 97; 97; 97; 97; 97; 97; 97; 10; 97; 117; 116; 104; 111; 114; 32; 65; 32; 60; 97; 64; 98; 62; 32; 49; 32; 43; 48; 48; 48; 48; 10; 99; 111; 109; 109; 105; 116; 116; 101; 114; 32; 65; 32; 60; 97; 64; 98; 62; 32; 49; 32; 43; 48; 48; 48; 48; 10; 10; 115; 117; 98; 106; 101; 99; 116; 10; 10; 112; 97; 115; 116; 101; 100; 58; 10; 116; 114; 101; 101; 32; 98; 98; 98; 98; 98; 98; 98; 98; 98; 98; 98; 98; 98; 98; 98; 98; 98; 98; 98; 98; 98; 98; 98; 98; 98; 98; 98; 98; 98; 98; 98; 98; 98; 98; 98; 98; 98; 98; 98; 98; 10; 112; 97; 114; 101; 110; 116; 32; 99; 99; 99; 99; 99; 99; 99; 99; 99; 99; 99; 99; 99; 99; 99; 99; 99; 99; 99; 99; 99; 99; 99; 99; 99; 99; 99; 99; 99; 99; 99; 99; 99; 99; 99; 99; 99; 99; 99; 99; 10].
Definition wit_child_commit : str := [116; 114; 101; 101; 32; 97; 97; 97; 97; 97; 97; 97; 97; 97; 97; 97; 97; 97; 97; 97; 97; 97; 97; 97; 97; 97; 97; 97; 97; 97; 97; 97; 97; 97; 97; 97; 97; 97; 97; 97; 97; 97; 97; 97; 97; 10; 112; 97; 114; 101; 110; 116; 32; 99; 99; 99; 99; 99; 99; 99; 99; 99; 99; 99; 99; 99; 99; 99; 99; 99; 99; 99; 99; 99; 99; 99; 99; 99; 99; 99; 99; 99; 99; 99; 99; 99; 99; 99; 99; 99; 99; 99; 99; 10; 97; 117; 116; 104; 111; 114; 32; 65; 32; 60; 97; 64; 98; 62; 32; 49; 32; 43; 48; 48; 48; 48; 10; 99; 111; 109; 109; 105; 116; 116; 101; 114; 32; 65; 32; 60; 97; 64; 98; 62; 32; 49; 32; 43; 48; 48; 48; 48; 10; 10; 115; 117; 98; 106; 101; 99; 116; 10; 10; 116; 114; 101; 101; 32; 98; 98; 98; 98; 98; 98; 98; 98; 98; 98; 98; 98; 98; 98; 98; 98; 98; 98; 98; 98; 98; 98; 98; 98; 98; 98; 98; 98; 98; 98; 98; 98; 98; 98; 98; 98; 98; 98; 98; 98; 10].
Definition wit_tree_T : str := [97; 97; 97; 97; 97; 97; 97; 97; 97; 97; 97; 97; 97; 97; 97; 97; 97; 97; 97; 97; 97; 97; 97; 97; 97; 97; 97; 97; 97; 97; 97; 97; 97; 97; 97; 97; 97; 97; 97; 97].
Definition wit_tree_X : str := [98; 98; 98; 98; 98; 98; 98; 98; 98; 98; 98; 98; 98; 98; 98; 98; 98; 98; 98; 98; 98; 98; 98; 98; 98; 98; 98; 98; 98; 98; 98; 98; 98; 98; 98; 98; 98; 98; 98; 98].
Definition wit_parent_P : str := [99; 99; 99; 99; 99; 99; 99; 99; 99; 99; 99; 99; 99; 99; 99; 99; 99; 99; 99; 99; 99; 99; 99; 99; 99; 99; 99; 99; 99; 99; 99; 99; 99; 99; 99; 99; 99; 99; 99; 99].

(* a root commit (no parent header): the early exit is never taken, the scan runs through the message
   and a body line that looks like a tree header replaces the commit's tree *)
Theorem meta_root_refuted :
  header_meta wit_root_commit = (wit_tree_T, None) /\
  commit_meta_gen true wit_root_commit = (wit_tree_X, Some wit_parent_P).
Proof. vm_compute. split; reflexivity. Qed.

(* without the early exit the same happens to every commit *)
Theorem meta_no_exit_refuted :
  header_meta wit_child_commit = (wit_tree_T, Some wit_parent_P) /\
  commit_meta_gen true wit_child_commit = (wit_tree_T, Some wit_parent_P) /\
  commit_meta_gen false wit_child_commit = (wit_tree_X, Some wit_parent_P).
Proof. vm_compute. repeat split; reflexivity. Qed.

(* ================================================================== (e) write or fall back *)
(* a written note that is not the recomputed one is a remapped copy of the original, and that
   happens only when the recomputed note has neither attestations nor prompt records *)
Theorem replay_copy_only_when_empty fb a p rec orig new w :
  (replay_write_rebase_gen true fb a p rec orig new = Some w \/
   replay_write_cherry_gen true fb a p rec orig new = Some w) ->
  w <> rec ->
  a = false /\ p = false /\ exists raw, orig = Some raw /\ w = remap_note fb raw new.
Proof.
  unfold replay_write_rebase_gen, replay_write_cherry_gen, has_payload.
  destruct a, p; cbn [orb andb]; intros [H|H] Hw; inversion H; subst; try congruence;
    destruct orig as [raw|]; inversion H; subst; try congruence;
    (split; [reflexivity|split; [reflexivity|exists raw; split; reflexivity]]).
Qed.

(* with the prompt disjunct dropped, a recomputed note that still has its prompt record but
   attributes no line is replaced by a copy of the original *)
Theorem replay_narrow_refuted fb rec raw new :
  replay_write_rebase_gen false fb false true rec (Some raw) new = Some (remap_note fb raw new) /\
  replay_write_cherry_gen false fb false true rec (Some raw) new = Some (remap_note fb raw new) /\
  replay_write_rebase_gen true fb false true rec (Some raw) new = Some rec /\
  replay_write_cherry_gen true fb false true rec (Some raw) new = Some rec.
Proof. repeat split; reflexivity. Qed.

(* ================================================================== witnesses *)
Definition wit_bad_note : str := [34; 98; 97; 115; 101; 95; 99; 111; 109; 109; 105; 116; 95; 115; 104; 97; 34; 58; 34; 120; 34; 46; 116; 120; 116; 10; 32; 32; 97; 98; 99; 100; 32; 49; 10; 45; 45; 45; 10; 123; 10; 32; 32; 34; 115; 99; 104; 101; 109; 97; 95; 118; 101; 114; 115; 105; 111; 110; 34; 58; 32; 34; 97; 117; 116; 104; 111; 114; 115; 104; 105; 112; 47; 51; 46; 48; 46; 48; 34; 44; 10; 32; 32; 34; 103; 105; 116; 95; 97; 105; 95; 118; 101; 114; 115; 105; 111; 110; 34; 58; 32; 34; 49; 46; 49; 46; 56; 34; 44; 10; 32; 32; 34; 98; 97; 115; 101; 95; 99; 111; 109; 109; 105; 116; 95; 115; 104; 97; 34; 58; 32; 34; 48; 108; 100; 34; 44; 10; 32; 32; 34; 112; 114; 111; 109; 112; 116; 115; 34; 58; 32; 123; 125; 10; 125].
Definition wit_bad_att' : str := [34; 98; 97; 115; 101; 95; 99; 111; 109; 109; 105; 116; 95; 115; 104; 97; 34; 58; 34; 110; 51; 119; 34; 46; 116; 120; 116; 10; 32; 32; 97; 98; 99; 100; 32; 49; 10; 45; 45; 45; 10].
Definition wit_bad_fixed : str := [34; 98; 97; 115; 101; 95; 99; 111; 109; 109; 105; 116; 95; 115; 104; 97; 34; 58; 34; 120; 34; 46; 116; 120; 116; 10; 32; 32; 97; 98; 99; 100; 32; 49; 10; 45; 45; 45; 10; 123; 10; 32; 32; 34; 115; 99; 104; 101; 109; 97; 95; 118; 101; 114; 115; 105; 111; 110; 34; 58; 32; 34; 97; 117; 116; 104; 111; 114; 115; 104; 105; 112; 47; 51; 46; 48; 46; 48; 34; 44; 10; 32; 32; 34; 103; 105; 116; 95; 97; 105; 95; 118; 101; 114; 115; 105; 111; 110; 34; 58; 32; 34; 49; 46; 49; 46; 56; 34; 44; 10; 32; 32; 34; 98; 97; 115; 101; 95; 99; 111; 109; 109; 105; 116; 95; 115; 104; 97; 34; 58; 32; 34; 110; 51; 119; 34; 44; 10; 32; 32; 34; 112; 114; 111; 109; 112; 116; 115; 34; 58; 32; 123; 125; 10; 125].
Definition wit_target : str := [110; 51; 119].
Definition wit_good_note : str := [34; 99; 32; 100; 46; 112; 121; 34; 10; 32; 32; 97; 98; 99; 100; 32; 51; 45; 52; 10; 115; 114; 99; 47; 98; 46; 114; 115; 10; 32; 32; 97; 98; 99; 100; 32; 49; 10; 45; 45; 45; 10; 123; 10; 32; 32; 34; 115; 99; 104; 101; 109; 97; 95; 118; 101; 114; 115; 105; 111; 110; 34; 58; 32; 34; 97; 117; 116; 104; 111; 114; 115; 104; 105; 112; 47; 51; 46; 48; 46; 48; 34; 44; 10; 32; 32; 34; 103; 105; 116; 95; 97; 105; 95; 118; 101; 114; 115; 105; 111; 110; 34; 58; 32; 34; 49; 46; 49; 46; 56; 34; 44; 10; 32; 32; 34; 98; 97; 115; 101; 95; 99; 111; 109; 109; 105; 116; 95; 115; 104; 97; 34; 58; 32; 34; 97; 97; 97; 97; 49; 49; 49; 49; 34; 44; 10; 32; 32; 34; 112; 114; 111; 109; 112; 116; 115; 34; 58; 32; 123; 10; 32; 32; 32; 32; 34; 97; 98; 99; 100; 34; 58; 32; 123; 10; 32; 32; 32; 32; 32; 32; 34; 97; 103; 101; 110; 116; 95; 105; 100; 34; 58; 32; 123; 10; 32; 32; 32; 32; 32; 32; 32; 32; 34; 116; 111; 111; 108; 34; 58; 32; 34; 116; 34; 44; 10; 32; 32; 32; 32; 32; 32; 32; 32; 34; 105; 100; 34; 58; 32; 34; 115; 49; 34; 44; 10; 32; 32; 32; 32; 32; 32; 32; 32; 34; 109; 111; 100; 101; 108; 34; 58; 32; 34; 109; 34; 10; 32; 32; 32; 32; 32; 32; 125; 44; 10; 32; 32; 32; 32; 32; 32; 34; 104; 117; 109; 97; 110; 95; 97; 117; 116; 104; 111; 114; 34; 58; 32; 110; 117; 108; 108; 44; 10; 32; 32; 32; 32; 32; 32; 34; 109; 101; 115; 115; 97; 103; 101; 115; 34; 58; 32; 91; 10; 32; 32; 32; 32; 32; 32; 32; 32; 123; 10; 32; 32; 32; 32; 32; 32; 32; 32; 32; 32; 34; 116; 121; 112; 101; 34; 58; 32; 34; 117; 115; 101; 114; 34; 44; 10; 32; 32; 32; 32; 32; 32; 32; 32; 32; 32; 34; 116; 101; 120; 116; 34; 58; 32; 34; 115; 101; 116; 32; 92; 34; 98; 97; 115; 101; 95; 99; 111; 109; 109; 105; 116; 95; 115; 104; 97; 92; 34; 58; 32; 92; 34; 122; 122; 122; 92; 34; 32; 112; 108; 101; 97; 115; 101; 32; 92; 92; 32; 111; 107; 34; 10; 32; 32; 32; 32; 32; 32; 32; 32; 125; 10; 32; 32; 32; 32; 32; 32; 93; 44; 10; 32; 32; 32; 32; 32; 32; 34; 116; 111; 116; 97; 108; 95; 97; 100; 100; 105; 116; 105; 111; 110; 115; 34; 58; 32; 49; 44; 10; 32; 32; 32; 32; 32; 32; 34; 116; 111; 116; 97; 108; 95; 100; 101; 108; 101; 116; 105; 111; 110; 115; 34; 58; 32; 48; 44; 10; 32; 32; 32; 32; 32; 32; 34; 97; 99; 99; 101; 112; 116; 101; 100; 95; 108; 105; 110; 101; 115; 34; 58; 32; 49; 44; 10; 32; 32; 32; 32; 32; 32; 34; 111; 118; 101; 114; 114; 105; 100; 101; 110; 95; 108; 105; 110; 101; 115; 34; 58; 32; 48; 10; 32; 32; 32; 32; 125; 10; 32; 32; 125; 10; 125].
Definition wit_good_target : str := [98; 98; 98; 98; 50; 50; 50; 50].
Definition wit_good_remapped : str := [34; 99; 32; 100; 46; 112; 121; 34; 10; 32; 32; 97; 98; 99; 100; 32; 51; 45; 52; 10; 115; 114; 99; 47; 98; 46; 114; 115; 10; 32; 32; 97; 98; 99; 100; 32; 49; 10; 45; 45; 45; 10; 123; 10; 32; 32; 34; 115; 99; 104; 101; 109; 97; 95; 118; 101; 114; 115; 105; 111; 110; 34; 58; 32; 34; 97; 117; 116; 104; 111; 114; 115; 104; 105; 112; 47; 51; 46; 48; 46; 48; 34; 44; 10; 32; 32; 34; 103; 105; 116; 95; 97; 105; 95; 118; 101; 114; 115; 105; 111; 110; 34; 58; 32; 34; 49; 46; 49; 46; 56; 34; 44; 10; 32; 32; 34; 98; 97; 115; 101; 95; 99; 111; 109; 109; 105; 116; 95; 115; 104; 97; 34; 58; 32; 34; 98; 98; 98; 98; 50; 50; 50; 50; 34; 44; 10; 32; 32; 34; 112; 114; 111; 109; 112; 116; 115; 34; 58; 32; 123; 10; 32; 32; 32; 32; 34; 97; 98; 99; 100; 34; 58; 32; 123; 10; 32; 32; 32; 32; 32; 32; 34; 97; 103; 101; 110; 116; 95; 105; 100; 34; 58; 32; 123; 10; 32; 32; 32; 32; 32; 32; 32; 32; 34; 116; 111; 111; 108; 34; 58; 32; 34; 116; 34; 44; 10; 32; 32; 32; 32; 32; 32; 32; 32; 34; 105; 100; 34; 58; 32; 34; 115; 49; 34; 44; 10; 32; 32; 32; 32; 32; 32; 32; 32; 34; 109; 111; 100; 101; 108; 34; 58; 32; 34; 109; 34; 10; 32; 32; 32; 32; 32; 32; 125; 44; 10; 32; 32; 32; 32; 32; 32; 34; 104; 117; 109; 97; 110; 95; 97; 117; 116; 104; 111; 114; 34; 58; 32; 110; 117; 108; 108; 44; 10; 32; 32; 32; 32; 32; 32; 34; 109; 101; 115; 115; 97; 103; 101; 115; 34; 58; 32; 91; 10; 32; 32; 32; 32; 32; 32; 32; 32; 123; 10; 32; 32; 32; 32; 32; 32; 32; 32; 32; 32; 34; 116; 121; 112; 101; 34; 58; 32; 34; 117; 115; 101; 114; 34; 44; 10; 32; 32; 32; 32; 32; 32; 32; 32; 32; 32; 34; 116; 101; 120; 116; 34; 58; 32; 34; 115; 101; 116; 32; 92; 34; 98; 97; 115; 101; 95; 99; 111; 109; 109; 105; 116; 95; 115; 104; 97; 92; 34; 58; 32; 92; 34; 122; 122; 122; 92; 34; 32; 112; 108; 101; 97; 115; 101; 32; 92; 92; 32; 111; 107; 34; 10; 32; 32; 32; 32; 32; 32; 32; 32; 125; 10; 32; 32; 32; 32; 32; 32; 93; 44; 10; 32; 32; 32; 32; 32; 32; 34; 116; 111; 116; 97; 108; 95; 97; 100; 100; 105; 116; 105; 111; 110; 115; 34; 58; 32; 49; 44; 10; 32; 32; 32; 32; 32; 32; 34; 116; 111; 116; 97; 108; 95; 100; 101; 108; 101; 116; 105; 111; 110; 115; 34; 58; 32; 48; 44; 10; 32; 32; 32; 32; 32; 32; 34; 97; 99; 99; 101; 112; 116; 101; 100; 95; 108; 105; 110; 101; 115; 34; 58; 32; 49; 44; 10; 32; 32; 32; 32; 32; 32; 34; 111; 118; 101; 114; 114; 105; 100; 101; 110; 95; 108; 105; 110; 101; 115; 34; 58; 32; 48; 10; 32; 32; 32; 32; 125; 10; 32; 32; 125; 10; 125].
Definition wit_ds : list dsec :=
  [mk_dsec [97; 97; 97; 97; 97; 97; 97; 97; 97; 97; 97; 97; 97; 97; 97; 97; 97; 97; 97; 97; 97; 97; 97; 97; 97; 97; 97; 97; 97; 97; 97; 97; 97; 97; 97; 97; 97; 97; 97; 97; 32; 98; 98; 98; 98; 98; 98; 98; 98; 98; 98; 98; 98; 98; 98; 98; 98; 98; 98; 98; 98; 98; 98; 98; 98; 98; 98; 98; 98; 98; 98; 98; 98; 98; 98; 98; 98; 98; 98; 98; 98] [];
   mk_dsec [98; 98; 98; 98; 98; 98; 98; 98; 98; 98; 98; 98; 98; 98; 98; 98; 98; 98; 98; 98; 98; 98; 98; 98; 98; 98; 98; 98; 98; 98; 98; 98; 98; 98; 98; 98; 98; 98; 98; 98; 32; 97; 97; 97; 97; 97; 97; 97; 97; 97; 97; 97; 97; 97; 97; 97; 97; 97; 97; 97; 97; 97; 97; 97; 97; 97; 97; 97; 97; 97; 97; 97; 97; 97; 97; 97; 97; 97; 97; 97; 97] [(mk_drec [49; 48; 48; 54; 52; 52] [49; 48; 48; 54; 52; 52] [97; 97; 97; 97; 97; 97; 97; 97; 97; 97; 97; 97; 97; 97; 97; 97; 97; 97; 97; 97; 97; 97; 97; 97; 97; 97; 97; 97; 97; 97; 97; 97; 97; 97; 97; 97; 97; 97; 97; 97] [98; 98; 98; 98; 98; 98; 98; 98; 98; 98; 98; 98; 98; 98; 98; 98; 98; 98; 98; 98; 98; 98; 98; 98; 98; 98; 98; 98; 98; 98; 98; 98; 98; 98; 98; 98; 98; 98; 98; 98] [77] [99; 32; 100; 46; 112; 121] None); (mk_drec [49; 48; 48; 54; 52; 52] [49; 48; 48; 54; 52; 52] [97; 97; 97; 97; 97; 97; 97; 97; 97; 97; 97; 97; 97; 97; 97; 97; 97; 97; 97; 97; 97; 97; 97; 97; 97; 97; 97; 97; 97; 97; 97; 97; 97; 97; 97; 97; 97; 97; 97; 97] [97; 97; 97; 97; 97; 97; 97; 97; 97; 97; 97; 97; 97; 97; 97; 97; 97; 97; 97; 97; 97; 97; 97; 97; 97; 97; 97; 97; 97; 97; 97; 97; 97; 97; 97; 97; 97; 97; 97; 97] [82; 49; 48; 48] [111; 108; 100; 32; 110; 97; 109; 101; 46; 116; 120; 116] (Some [110; 101; 119; 10; 58; 110; 97; 109; 101; 46; 116; 120; 116])); (mk_drec [48; 48; 48; 48; 48; 48] [49; 48; 48; 54; 52; 52] [48; 48; 48; 48; 48; 48; 48; 48; 48; 48; 48; 48; 48; 48; 48; 48; 48; 48; 48; 48; 48; 48; 48; 48; 48; 48; 48; 48; 48; 48; 48; 48; 48; 48; 48; 48; 48; 48; 48; 48] [98; 98; 98; 98; 98; 98; 98; 98; 98; 98; 98; 98; 98; 98; 98; 98; 98; 98; 98; 98; 98; 98; 98; 98; 98; 98; 98; 98; 98; 98; 98; 98; 98; 98; 98; 98; 98; 98; 98; 98] [65] [230; 151; 165; 230; 156; 172; 32; 232; 170; 158; 46; 109; 100] None); (mk_drec [49; 48; 48; 54; 52; 52] [49; 50; 48; 48; 48; 48] [97; 97; 97; 97; 97; 97; 97; 97; 97; 97; 97; 97; 97; 97; 97; 97; 97; 97; 97; 97; 97; 97; 97; 97; 97; 97; 97; 97; 97; 97; 97; 97; 97; 97; 97; 97; 97; 97; 97; 97] [98; 98; 98; 98; 98; 98; 98; 98; 98; 98; 98; 98; 98; 98; 98; 98; 98; 98; 98; 98; 98; 98; 98; 98; 98; 98; 98; 98; 98; 98; 98; 98; 98; 98; 98; 98; 98; 98; 98; 98] [84] [108; 105; 110; 107] None)];
   mk_dsec [97; 97; 97; 97; 97; 97; 97; 97; 97; 97; 97; 97; 97; 97; 97; 97; 97; 97; 97; 97; 97; 97; 97; 97; 97; 97; 97; 97; 97; 97; 97; 97; 97; 97; 97; 97; 97; 97; 97; 97; 32; 97; 97; 97; 97; 97; 97; 97; 97; 97; 97; 97; 97; 97; 97; 97; 97; 97; 97; 97; 97; 97; 97; 97; 97; 97; 97; 97; 97; 97; 97; 97; 97; 97; 97; 97; 97; 97; 97; 97; 97] [(mk_drec [49; 48; 48; 54; 52; 52] [48; 48; 48; 48; 48; 48] [97; 97; 97; 97; 97; 97; 97; 97; 97; 97; 97; 97; 97; 97; 97; 97; 97; 97; 97; 97; 97; 97; 97; 97; 97; 97; 97; 97; 97; 97; 97; 97; 97; 97; 97; 97; 97; 97; 97; 97] [48; 48; 48; 48; 48; 48; 48; 48; 48; 48; 48; 48; 48; 48; 48; 48; 48; 48; 48; 48; 48; 48; 48; 48; 48; 48; 48; 48; 48; 48; 48; 48; 48; 48; 48; 48; 48; 48; 48; 48] [68] [103; 111; 110; 101; 46; 116; 120; 116] None)]].
Definition wit_tracked_hit : list str := [[97; 46; 116; 120; 116]; [110; 101; 119; 10; 58; 110; 97; 109; 101; 46; 116; 120; 116]].
Definition wit_tracked_miss : list str := [[97; 46; 116; 120; 116]; [111; 116; 104; 101; 114]].

Lemma str_neq_of_eqb a b : str_eqb a b = false -> a <> b.
Proof. apply str_eqb_neq. Qed.

(* the historical shape (marker searched in the whole note): a note that the reader accepts (a file
   whose name contains the marker text) is mis-rewritten: the path line changes, the metadata keeps
   the old base.  This is why the search had to be confined to the metadata section. *)
Theorem remap_unscoped_refuted :
  exists s t r,
    (exists att md md', split_note s = Some (att, md) /\ remap_in md t = Some md') /\
    remap_in s t = Some r /\ r <> replace_base s t /\
    (exists att md att', split_note s = Some (att, md) /\ r = att' ++ md /\ att' <> att).
Proof.
  exists wit_bad_note, wit_target.
  destruct (remap_in wit_bad_note wit_target) as [r|] eqn:E; [|vm_compute in E; discriminate].
  exists r. split.
  - destruct (split_note wit_bad_note) as [[att md]|] eqn:Es; [|vm_compute in Es; discriminate].
    destruct (remap_in md wit_target) as [md'|] eqn:Em.
    + exists att, md, md'. split; [reflexivity|exact Em].
    + vm_compute in Es. inversion Es; subst. vm_compute in Em. discriminate.
  - split; [reflexivity|]. vm_compute in E. inversion E; subst r. clear E. split.
    + apply str_neq_of_eqb. vm_compute. reflexivity.
    + destruct (split_note wit_bad_note) as [[att md]|] eqn:Es; [|vm_compute in Es; discriminate].
      exists att, md, wit_bad_att'. split; [reflexivity|].
      vm_compute in Es. inversion Es; subst. split.
      * vm_compute. reflexivity.
      * apply str_neq_of_eqb. vm_compute. reflexivity.
Qed.

Lemma wit_good_wf : wf_note wit_good_note = true.
Proof. vm_compute. reflexivity. Qed.

Lemma wit_good_remap :
  remap_in wit_good_note wit_good_target = Some wit_good_remapped /\
  replace_base wit_good_note wit_good_target = wit_good_remapped.
Proof. split; vm_compute; reflexivity. Qed.

Lemma wit_bad_not_wf : wf_note wit_bad_note = false.
Proof. vm_compute. reflexivity. Qed.

Lemma wit_ds_facts :
  out_ok wit_ds = true /\ parse_out (print_out wit_ds) = Some wit_ds /\
  matches (print_out wit_ds) 3 = false /\
  matches (print_out (limit wit_tracked_hit wit_ds)) 3 = false /\
  matches (print_out (limit wit_tracked_miss wit_ds)) 3 = true /\
  matches (print_out (limit wit_tracked_miss wit_ds)) 4 = false.
Proof. vm_compute. repeat split; reflexivity. Qed.

(* the same note under the repaired shape: only the metadata's value changes *)
Lemma wit_bad_scoped :
  has_base_field wit_bad_note = true /\
  try_remap_scoped wit_bad_note wit_target = Some wit_bad_fixed /\
  replace_base wit_bad_note wit_target = wit_bad_fixed.
Proof. vm_compute. repeat split; reflexivity. Qed.
