(* Proofs/WorkLogProofs.v — the newest entry of a file decides; pruning is irrelevant;
   an empty INITIAL write leaves no stale claims. *)
From Coq Require Import List NArith Bool Lia.
From Verif Require Import Base.Str Base.StrFacts Gen.GenWorkLog Model.WorkLog.
Import ListNotations.
Open Scope N_scope.

Lemma str_eqb_sym a b : str_eqb a b = str_eqb b a.
Proof.
  destruct (str_eqb a b) eqn:E.
  - apply str_eqb_eq in E. subst. symmetry. apply str_eqb_refl.
  - symmetry. apply str_eqb_neq. apply str_eqb_neq in E. congruence.
Qed.

Lemma alookup_aremove_same f m : alookup f (aremove f m) = None.
Proof.
  induction m as [|[g v] m IH]; [reflexivity|]. cbn [aremove].
  destruct (str_eqb f g) eqn:E; [exact IH|]. cbn [alookup]. rewrite E. exact IH.
Qed.

Lemma alookup_aremove_other f g m : str_eqb f g = false -> alookup f (aremove g m) = alookup f m.
Proof.
  intro H. induction m as [|[h v] m IH]; [reflexivity|]. cbn [aremove alookup].
  destruct (str_eqb g h) eqn:E.
  - apply str_eqb_eq in E. subst h. rewrite H. exact IH.
  - cbn [alookup]. rewrite IH. reflexivity.
Qed.

Lemma alookup_ainsert_same f v m : alookup f (ainsert f v m) = Some v.
Proof. unfold ainsert. cbn [alookup]. rewrite str_eqb_refl. reflexivity. Qed.

Lemma alookup_ainsert_other f g v m :
  str_eqb f g = false -> alookup f (ainsert g v m) = alookup f m.
Proof. intro H. unfold ainsert. cbn [alookup]. rewrite H. apply alookup_aremove_other, H. Qed.

Lemma fold_flat drops cps : forall m,
  fold_left (apply_checkpoint_gen drops) cps m
  = fold_left (apply_entry_gen drops) (all_entries cps) m.
Proof.
  induction cps as [|c cs IH]; intro m; [reflexivity|].
  unfold all_entries. cbn [fold_left flat_map]. rewrite fold_left_app.
  unfold apply_checkpoint_gen at 2. apply IH.
Qed.

(* value of the lookup determined by the newest non-skipped entry seen so far *)
Definition val (f : list N) (initial : amap) (acc : option wentry) : option (list lattr) :=
  match acc with
  | Some e => match effective e with [] => None | l => Some l end
  | None => alookup f initial
  end.

Lemma fold_entries_spec f initial es : forall m acc,
  alookup f m = val f initial acc ->
  alookup f (fold_left (apply_entry_gen true) es m) = val f initial (latest_for f es acc).
Proof.
  induction es as [|e es IH]; intros m acc H; [exact H|].
  cbn [fold_left latest_for]. apply IH.
  unfold apply_entry_gen. destruct (skipped e) eqn:S.
  - rewrite andb_false_r. exact H.
  - rewrite andb_true_r. destruct (str_eqb f (we_file e)) eqn:E.
    + apply str_eqb_eq in E. subst f. cbn [val].
      destruct (effective e) as [|x l].
      * apply alookup_aremove_same.
      * apply alookup_ainsert_same.
    + destruct (effective e) as [|x l].
      * rewrite alookup_aremove_other by exact E. exact H.
      * rewrite alookup_ainsert_other by exact E. exact H.
Qed.

Theorem latest_wins_gen f initial cps :
  alookup f (va_from_log_gen true initial cps) = spec_lookup f initial cps.
Proof.
  unfold va_from_log_gen, spec_lookup. rewrite fold_flat.
  rewrite (fold_entries_spec f initial (all_entries cps) initial None eq_refl). reflexivity.
Qed.

Theorem latest_wins f initial cps :
  alookup f (va_from_log initial cps) = spec_lookup f initial cps.
Proof. unfold va_from_log, empty_entry_drops_file. apply latest_wins_gen. Qed.

(* what the code did before fix 739e3592: an older AI entry survives a newer all-human entry *)
Definition stale_witness : list checkpoint :=
  [ mkCheckpoint true  [mkWentry [97] [mkLattr 3 3 [115; 49]] false []];
    mkCheckpoint false [mkWentry [97] [] true []] ].

Theorem stale_refuted :
  alookup [97] (va_from_log_gen false [] stale_witness) <> spec_lookup [97] [] stale_witness.
Proof. vm_compute. discriminate. Qed.

(* ---- no-op checkpoints ---- *)

Theorem empty_checkpoint_noop initial cps1 cps2 k :
  va_from_log initial (cps1 ++ mkCheckpoint k [] :: cps2) = va_from_log initial (cps1 ++ cps2).
Proof.
  unfold va_from_log, va_from_log_gen. rewrite !fold_left_app. reflexivity.
Qed.

(* ---- pruning ---- *)

(* the last entry for file f, skipped or not *)
Fixpoint lastf (f : list N) (es : list wentry) : option wentry :=
  match es with
  | [] => None
  | e :: es' => match lastf f es' with
                | Some x => Some x
                | None => if str_eqb f (we_file e) then Some e else None
                end
  end.

Definition last_not_skipped (f : list N) (cps : list checkpoint) : Prop :=
  match lastf f (all_entries cps) with
  | Some e => skipped e = false
  | None => True
  end.

Lemma lastf_none_latest f es : lastf f es = None -> forall acc, latest_for f es acc = acc.
Proof.
  induction es as [|e es IH]; intros H acc; [reflexivity|]. cbn [lastf] in H.
  destruct (lastf f es) eqn:L; [discriminate|].
  destruct (str_eqb f (we_file e)) eqn:E; [discriminate|].
  cbn [latest_for]. rewrite E. cbn [andb]. apply IH. reflexivity.
Qed.

Lemma lastf_some_latest f es x :
  lastf f es = Some x -> skipped x = false -> forall acc, latest_for f es acc = Some x.
Proof.
  induction es as [|e es IH]; intros H S acc; [discriminate|]. cbn [lastf] in H.
  cbn [latest_for]. destruct (lastf f es) eqn:L.
  - inversion H; subst. apply IH; [reflexivity|exact S].
  - destruct (str_eqb f (we_file e)) eqn:E; [|discriminate]. inversion H; subst.
    rewrite S. cbn [andb negb]. apply lastf_none_latest. exact L.
Qed.

Lemma lastf_none_has_later f es : lastf f es = None <-> has_later f es = false.
Proof.
  induction es as [|e es IH]; [split; reflexivity|]. cbn [lastf has_later]. split.
  - destruct (lastf f es) eqn:L; [discriminate|].
    destruct (str_eqb f (we_file e)); [discriminate|]. intros _. apply IH. reflexivity.
  - intro H. apply orb_false_iff in H as [H1 H2]. apply IH in H2. rewrite H2, H1. reflexivity.
Qed.

(* es' is es with char attributions cleared on some entries that have a later entry for the same file *)
Inductive pruned_rel : list wentry -> list wentry -> Prop :=
| pr_nil : pruned_rel [] []
| pr_cons e e' es es' :
    pruned_rel es es' -> we_file e' = we_file e ->
    (has_later (we_file e) es = false -> e' = e) ->
    pruned_rel (e :: es) (e' :: es').

Lemma pruned_rel_lastf f es es' : pruned_rel es es' -> lastf f es' = lastf f es.
Proof.
  induction 1 as [|e e' es es' R IH F K]; [reflexivity|]. cbn [lastf]. rewrite IH, F.
  destruct (lastf f es) eqn:L; [reflexivity|].
  destruct (str_eqb f (we_file e)) eqn:E; [|reflexivity].
  apply str_eqb_eq in E. subst f. apply lastf_none_has_later in L. rewrite (K L). reflexivity.
Qed.

Lemma has_later_app f a b : has_later f (a ++ b) = has_later f a || has_later f b.
Proof. induction a as [|x a IH]; [reflexivity|]. cbn. rewrite IH. apply orb_assoc. Qed.

Lemma pruned_rel_prepend b b' : pruned_rel b b' ->
  forall a, pruned_rel (a ++ b) (map (prune_entry b) a ++ b').
Proof.
  intros R a. induction a as [|e a IH]; [exact R|]. cbn [app map]. constructor.
  - exact IH.
  - unfold prune_entry. destruct (has_later (we_file e) b); reflexivity.
  - intro H. rewrite has_later_app in H. apply orb_false_iff in H as [_ H].
    unfold prune_entry. rewrite H. reflexivity.
Qed.

Lemma prune_rel cps : pruned_rel (all_entries cps) (all_entries (prune cps)).
Proof.
  induction cps as [|c cs IH]; [constructor|].
  unfold all_entries in *. cbn [prune flat_map cp_entries].
  apply pruned_rel_prepend. exact IH.
Qed.

Theorem prune_irrelevant f initial cps :
  last_not_skipped f cps ->
  alookup f (va_from_log initial (prune cps)) = alookup f (va_from_log initial cps).
Proof.
  intro H. rewrite !latest_wins. unfold spec_lookup, last_not_skipped in *.
  pose proof (pruned_rel_lastf f _ _ (prune_rel cps)) as E.
  destruct (lastf f (all_entries cps)) as [x|] eqn:L.
  - rewrite (lastf_some_latest _ _ _ E H), (lastf_some_latest _ _ _ L H). reflexivity.
  - rewrite (lastf_none_latest _ _ E), (lastf_none_latest _ _ L). reflexivity.
Qed.

(* ---- INITIAL ---- *)

Theorem write_initial_exact old m : read_initial (write_initial old m) = filter_nonempty m.
Proof.
  unfold write_initial, write_initial_gen, empty_initial_write_removes_file.
  destruct (filter_nonempty m); reflexivity.
Qed.

Theorem write_initial_stale_refuted :
  exists old m, read_initial (write_initial_gen false old m) <> filter_nonempty m.
Proof.
  exists (Some [([102], [mkLattr 2 3 [115]])]), []. vm_compute. discriminate.
Qed.

(* non-vacuity: a log with an AI entry, a later human entry with chars, another file *)
Definition wit_log : list checkpoint :=
  [ mkCheckpoint true  [mkWentry [97] [mkLattr 3 3 [115; 49]] false []; mkWentry [98] [] false []];
    mkCheckpoint false [mkWentry [97] [] true [mkLattr 4 4 [115; 49]]];
    mkCheckpoint true  [mkWentry [98] [mkLattr 1 2 [115; 50]] true []] ].

Lemma wit_log_last : last_not_skipped [97] wit_log /\ last_not_skipped [98] wit_log.
Proof. split; vm_compute; reflexivity. Qed.

(* ---- repeating a checkpoint with no intervening change records nothing ---- *)
Theorem repeat_records_nothing f :
  cf_from_checkpoint f = true -> cf_equal f = true -> decide_entry f = NoEntry.
Proof.
  intros H1 H2. unfold decide_entry. rewrite H1, H2.
  destruct (cf_pre_commit f), (cf_human f), (cf_prior_ai f), (cf_has_initial f); reflexivity.
Qed.

(* a human checkpoint of a file no AI ever touched can only add an entry the reader skips *)
Theorem human_only_entry_is_inert f file computed initial cps1 cps2 k :
  cf_human f = true -> cf_prior_ai f = false -> cf_has_initial f = false ->
  va_from_log initial (cps1 ++ mkCheckpoint k (entry_of_decision (decide_entry f) file computed) :: cps2)
  = va_from_log initial (cps1 ++ cps2).
Proof.
  intros H1 H2 H3. unfold decide_entry. rewrite H1, H2, H3. cbn [andb negb].
  unfold va_from_log, va_from_log_gen.
  destruct (cf_pre_commit f); [|destruct (cf_equal f)]; cbn [entry_of_decision]; rewrite !fold_left_app;
    reflexivity.
Qed.
